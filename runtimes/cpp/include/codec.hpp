// Reference runtime (C++): codec helpers with the meaning their names and arguments state
// (harness/PROTOCOL.md section 6).  Template parameters: P = prefix type (length prefix counts bytes for
// strings, elements for lists), S = string length prefix type, T = element type.  `_le` = little-endian
// prefix and elements, no suffix = big-endian.  Fixed strings: exactly n bytes, padded / trimmed with `pad`
// on the given side (left = true: padding before the text); the variants without pad use ' ' on the right.
#pragma once
#include <cstddef>
#include <cstdint>
#include <iomanip>
#include <iostream>
#include <limits>
#include <memory>
#include <sstream>
#include <stdexcept>
#include <string>
#include <type_traits>
#include <vector>

#include "bytebuf.hpp"

namespace codec {

class BinaryCodec {
public:
    virtual ~BinaryCodec() = default;
    virtual void encode(ByteBuf& buf) const = 0;
    virtual void decode(ByteBuf& buf) = 0;
    virtual bool equals(const BinaryCodec& other) const { return this == &other; }
    virtual std::string toString() const { return std::string(); }
};

inline bool operator==(const BinaryCodec& a, const BinaryCodec& b) { return a.equals(b); }
inline bool operator!=(const BinaryCodec& a, const BinaryCodec& b) { return !a.equals(b); }
inline std::ostream& operator<<(std::ostream& os, const BinaryCodec& c) { return os << c.toString(); }

namespace detail {
template <class T> inline void put(ByteBuf& buf, T v, bool le) { buf.write_value<T>(v, le); }
template <class T> inline T get(ByteBuf& buf, bool le) { return buf.read_value<T>(le); }

template <class P> inline void put_len(ByteBuf& buf, std::size_t n, bool le) {
    static_assert(std::is_integral<P>::value, "length prefix must be an integer type");
    if (static_cast<uint64_t>(n) > static_cast<uint64_t>(std::numeric_limits<P>::max()))
        throw std::length_error("codec: length " + std::to_string(n) + " does not fit the prefix type");
    put<P>(buf, static_cast<P>(n), le);
}
template <class P> inline std::size_t get_len(ByteBuf& buf, bool le) {
    static_assert(std::is_integral<P>::value, "length prefix must be an integer type");
    P n = get<P>(buf, le);
    if (std::is_signed<P>::value && n < 0) throw std::length_error("codec: negative length prefix");
    if (static_cast<uint64_t>(n) > static_cast<uint64_t>(std::numeric_limits<std::size_t>::max()))
        throw std::length_error("codec: length prefix too large");
    return static_cast<std::size_t>(n);
}

inline void put_fixed(ByteBuf& buf, const std::string& s, std::size_t n, char pad, bool left) {
    if (s.size() > n)
        throw std::length_error("codec: fixed string of " + std::to_string(s.size()) + " bytes longer than " + std::to_string(n));
    std::string fill(n - s.size(), pad);
    buf.write_bytes(left ? fill + s : s + fill);
}
inline std::string get_fixed(ByteBuf& buf, std::size_t n, char pad, bool left) {
    std::string s = buf.read_string_bytes(n);
    if (left) {
        std::size_t i = 0;
        while (i < s.size() && s[i] == pad) i++;
        return s.substr(i);
    }
    std::size_t e = s.size();
    while (e > 0 && s[e - 1] == pad) e--;
    return s.substr(0, e);
}

template <class P> inline void put_string(ByteBuf& buf, const std::string& s, bool le) {
    put_len<P>(buf, s.size(), le);
    buf.write_bytes(s);
}
template <class P> inline std::string get_string(ByteBuf& buf, bool le) {
    std::size_t n = get_len<P>(buf, le);
    return buf.read_string_bytes(n);
}
template <class P, class T> inline void put_basic_list(ByteBuf& buf, const std::vector<T>& v, bool le) {
    static_assert(std::is_arithmetic<T>::value, "basic type expected");
    put_len<P>(buf, v.size(), le);
    for (const T& x : v) put<T>(buf, x, le);
}
template <class P, class T> inline std::vector<T> get_basic_list(ByteBuf& buf, bool le) {
    static_assert(std::is_arithmetic<T>::value, "basic type expected");
    std::size_t n = get_len<P>(buf, le);
    std::vector<T> out;
    for (std::size_t i = 0; i < n; i++) out.push_back(get<T>(buf, le));
    return out;
}
template <class P, class S> inline void put_string_list(ByteBuf& buf, const std::vector<std::string>& v, bool le) {
    put_len<P>(buf, v.size(), le);
    for (const std::string& s : v) put_string<S>(buf, s, le);
}
template <class P, class S> inline std::vector<std::string> get_string_list(ByteBuf& buf, bool le) {
    std::size_t n = get_len<P>(buf, le);
    std::vector<std::string> out;
    for (std::size_t i = 0; i < n; i++) out.push_back(get_string<S>(buf, le));
    return out;
}
template <class P> inline void put_fixed_list(ByteBuf& buf, const std::vector<std::string>& v, std::size_t n, char pad, bool left, bool le) {
    put_len<P>(buf, v.size(), le);
    for (const std::string& s : v) put_fixed(buf, s, n, pad, left);
}
template <class P> inline std::vector<std::string> get_fixed_list(ByteBuf& buf, std::size_t n, char pad, bool left, bool le) {
    std::size_t c = get_len<P>(buf, le);
    std::vector<std::string> out;
    for (std::size_t i = 0; i < c; i++) out.push_back(get_fixed(buf, n, pad, left));
    return out;
}

template <class X> struct is_smart_ptr : std::false_type {};
template <class X> struct is_smart_ptr<std::unique_ptr<X>> : std::true_type {};
template <class X> struct is_smart_ptr<std::shared_ptr<X>> : std::true_type {};

template <class P, class T> inline void put_object_list(ByteBuf& buf, const std::vector<T>& v, bool le) {
    put_len<P>(buf, v.size(), le);
    for (const T& x : v) {
        if constexpr (is_smart_ptr<T>::value || std::is_pointer<T>::value) {
            if (!x) throw std::invalid_argument("codec: null object in list");
            x->encode(buf);
        } else {
            x.encode(buf);
        }
    }
}
template <class P, class T> inline std::vector<T> get_object_list(ByteBuf& buf, bool le) {
    std::size_t n = get_len<P>(buf, le);
    std::vector<T> out;
    for (std::size_t i = 0; i < n; i++) {
        T x{};
        x.decode(buf);
        out.push_back(std::move(x));
    }
    return out;
}
}  // namespace detail

// ---- scalars ----------------------------------------------------------------------------------------
// list form <P,T>(buf, vector) is what the emitter prints; the single-value form <T>(buf, v) is a neighbour
template <class P, class T> inline void write_basic_type(ByteBuf& buf, const std::vector<T>& v) { detail::put_basic_list<P, T>(buf, v, false); }
template <class P, class T> inline void write_basic_type_le(ByteBuf& buf, const std::vector<T>& v) { detail::put_basic_list<P, T>(buf, v, true); }
template <class P, class T> inline std::vector<T> read_basic_type(ByteBuf& buf) { return detail::get_basic_list<P, T>(buf, false); }
template <class P, class T> inline std::vector<T> read_basic_type_le(ByteBuf& buf) { return detail::get_basic_list<P, T>(buf, true); }
template <class P, class T> inline void write_basic_type_list(ByteBuf& buf, const std::vector<T>& v) { detail::put_basic_list<P, T>(buf, v, false); }
template <class P, class T> inline void write_basic_type_list_le(ByteBuf& buf, const std::vector<T>& v) { detail::put_basic_list<P, T>(buf, v, true); }
template <class P, class T> inline std::vector<T> read_basic_type_list(ByteBuf& buf) { return detail::get_basic_list<P, T>(buf, false); }
template <class P, class T> inline std::vector<T> read_basic_type_list_le(ByteBuf& buf) { return detail::get_basic_list<P, T>(buf, true); }
template <class T, class = typename std::enable_if<std::is_arithmetic<T>::value>::type>
inline void write_basic_type(ByteBuf& buf, T v) { detail::put<T>(buf, v, false); }
template <class T, class = typename std::enable_if<std::is_arithmetic<T>::value>::type>
inline void write_basic_type_le(ByteBuf& buf, T v) { detail::put<T>(buf, v, true); }
template <class T> inline T read_basic_type(ByteBuf& buf) { return detail::get<T>(buf, false); }
template <class T> inline T read_basic_type_le(ByteBuf& buf) { return detail::get<T>(buf, true); }

// ---- length-prefixed strings ------------------------------------------------------------------------
template <class P> inline void write_string(ByteBuf& buf, const std::string& s) { detail::put_string<P>(buf, s, false); }
template <class P> inline void write_string_le(ByteBuf& buf, const std::string& s) { detail::put_string<P>(buf, s, true); }
template <class P> inline std::string read_string(ByteBuf& buf) { return detail::get_string<P>(buf, false); }
template <class P> inline std::string read_string_le(ByteBuf& buf) { return detail::get_string<P>(buf, true); }

template <class P, class S> inline void write_string_list(ByteBuf& buf, const std::vector<std::string>& v) { detail::put_string_list<P, S>(buf, v, false); }
template <class P, class S> inline void write_string_list_le(ByteBuf& buf, const std::vector<std::string>& v) { detail::put_string_list<P, S>(buf, v, true); }
template <class P, class S> inline std::vector<std::string> read_string_list(ByteBuf& buf) { return detail::get_string_list<P, S>(buf, false); }
template <class P, class S> inline std::vector<std::string> read_string_list_le(ByteBuf& buf) { return detail::get_string_list<P, S>(buf, true); }

// ---- fixed strings ----------------------------------------------------------------------------------
inline void write_fixed_string(ByteBuf& buf, const std::string& s, std::size_t n) { detail::put_fixed(buf, s, n, ' ', false); }
inline void write_fixed_string(ByteBuf& buf, const std::string& s, std::size_t n, char pad, bool left = false) { detail::put_fixed(buf, s, n, pad, left); }
inline std::string read_fixed_string(ByteBuf& buf, std::size_t n) { return detail::get_fixed(buf, n, ' ', false); }
inline std::string read_fixed_string(ByteBuf& buf, std::size_t n, char pad, bool left = false) { return detail::get_fixed(buf, n, pad, left); }

template <class P> inline void write_fixed_string_list(ByteBuf& buf, const std::vector<std::string>& v, std::size_t n) { detail::put_fixed_list<P>(buf, v, n, ' ', false, false); }
template <class P> inline void write_fixed_string_list(ByteBuf& buf, const std::vector<std::string>& v, std::size_t n, char pad, bool left = false) { detail::put_fixed_list<P>(buf, v, n, pad, left, false); }
template <class P> inline void write_fixed_string_list_le(ByteBuf& buf, const std::vector<std::string>& v, std::size_t n) { detail::put_fixed_list<P>(buf, v, n, ' ', false, true); }
template <class P> inline void write_fixed_string_list_le(ByteBuf& buf, const std::vector<std::string>& v, std::size_t n, char pad, bool left = false) { detail::put_fixed_list<P>(buf, v, n, pad, left, true); }
template <class P> inline std::vector<std::string> read_fixed_string_list(ByteBuf& buf, std::size_t n) { return detail::get_fixed_list<P>(buf, n, ' ', false, false); }
template <class P> inline std::vector<std::string> read_fixed_string_list(ByteBuf& buf, std::size_t n, char pad, bool left = false) { return detail::get_fixed_list<P>(buf, n, pad, left, false); }
template <class P> inline std::vector<std::string> read_fixed_string_list_le(ByteBuf& buf, std::size_t n) { return detail::get_fixed_list<P>(buf, n, ' ', false, true); }
template <class P> inline std::vector<std::string> read_fixed_string_list_le(ByteBuf& buf, std::size_t n, char pad, bool left = false) { return detail::get_fixed_list<P>(buf, n, pad, left, true); }

// ---- object lists (the emitter spells them with a capital L) ----------------------------------------
template <class P, class T> inline void write_object_List(ByteBuf& buf, const std::vector<T>& v) { detail::put_object_list<P, T>(buf, v, false); }
template <class P, class T> inline void write_object_List_le(ByteBuf& buf, const std::vector<T>& v) { detail::put_object_list<P, T>(buf, v, true); }
template <class P, class T> inline std::vector<T> read_object_List(ByteBuf& buf) { return detail::get_object_list<P, T>(buf, false); }
template <class P, class T> inline std::vector<T> read_object_List_le(ByteBuf& buf) { return detail::get_object_list<P, T>(buf, true); }
template <class P, class T> inline void write_object_list(ByteBuf& buf, const std::vector<T>& v) { detail::put_object_list<P, T>(buf, v, false); }
template <class P, class T> inline void write_object_list_le(ByteBuf& buf, const std::vector<T>& v) { detail::put_object_list<P, T>(buf, v, true); }
template <class P, class T> inline std::vector<T> read_object_list(ByteBuf& buf) { return detail::get_object_list<P, T>(buf, false); }
template <class P, class T> inline std::vector<T> read_object_list_le(ByteBuf& buf) { return detail::get_object_list<P, T>(buf, true); }

// ---- toString support -------------------------------------------------------------------------------
template <class T> inline std::string join_vector(const std::vector<T>& v, const std::string& sep = ", ") {
    std::ostringstream oss;
    oss << "[";
    for (std::size_t i = 0; i < v.size(); i++) {
        if (i) oss << sep;
        if constexpr (std::is_base_of<BinaryCodec, T>::value) {
            oss << v[i].toString();
        } else if constexpr (detail::is_smart_ptr<T>::value || std::is_pointer<T>::value) {
            if (v[i]) oss << v[i]->toString(); else oss << "null";
        } else if constexpr (std::is_integral<T>::value && sizeof(T) == 1) {
            oss << static_cast<int>(v[i]);
        } else {
            oss << v[i];
        }
    }
    oss << "]";
    return oss.str();
}

}  // namespace codec
