// Reference runtime (C++): message factory.  One factory per (key type, base type, tag) triple;
// REGISTER_MESSAGE(Factory, key, Type) registers Type under key at static-initialisation time.
// create() on a key that was never registered throws UnknownMessage -- it never returns another type.
#pragma once
#include <functional>
#include <map>
#include <memory>
#include <sstream>
#include <stdexcept>
#include <string>
#include <type_traits>
#include <utility>

class UnknownMessage : public std::out_of_range {
public:
    explicit UnknownMessage(const std::string& what) : std::out_of_range(what) {}
};

template <class K, class Base, class Tag = void>
class MessageFactory {
public:
    using Key = K;
    using Ptr = std::unique_ptr<Base>;
    using Creator = std::function<Ptr()>;

    static MessageFactory& getInstance() {
        static MessageFactory factory;
        return factory;
    }
    static MessageFactory& instance() { return getInstance(); }

    bool registerCreator(const K& key, Creator creator) {
        creators_[key] = std::move(creator);
        return true;
    }
    template <class T>
    bool registerType(const K& key) {
        static_assert(std::is_base_of<Base, T>::value, "registered type must derive from the factory's base type");
        return registerCreator(key, []() -> Ptr { return Ptr(new T()); });
    }
    template <class T>
    bool registerMessage(const K& key) { return registerType<T>(key); }

    Ptr create(const K& key) const {
        auto it = creators_.find(key);
        if (it == creators_.end()) {
            std::ostringstream oss;
            oss << "unknown message type";
            describe(oss, key);
            throw UnknownMessage(oss.str());
        }
        return it->second();
    }
    bool contains(const K& key) const { return creators_.find(key) != creators_.end(); }
    std::size_t size() const { return creators_.size(); }

private:
    MessageFactory() = default;
    template <class X>
    static void describe(std::ostringstream& oss, const X& key) {
        if constexpr (std::is_integral<X>::value) {
            oss << " " << static_cast<long long>(key);
        } else if constexpr (std::is_convertible<X, std::string>::value) {
            oss << " \"" << std::string(key) << "\"";
        }
    }
    std::map<K, Creator> creators_;
};

#define VERIF_MF_CAT2(a, b) a##b
#define VERIF_MF_CAT(a, b) VERIF_MF_CAT2(a, b)
#define REGISTER_MESSAGE(FACTORY, KEY, TYPE) \
    static const bool VERIF_MF_CAT(verif_registered_message_, __COUNTER__) [[maybe_unused]] = FACTORY::getInstance().template registerType<TYPE>(KEY)
