// Reference runtime (C++): checksum services (harness/PROTOCOL.md section 6, spec/Wire.tla!Alg).
// Registered names: "VSUM8" "VSUM16" "VSUM32" "VSUM64" (result width 1/2/4/8 bytes); any other name, or a
// result type of another width, yields nullptr.
//   Alg(bs) = ((sum over i >= 1 of i * bs[i]) + 7 * len(bs)) mod 65521, additionally mod 256 for VSUM8,
// over exactly the bytes currently written to the buffer.  Every calc call is recorded in verif::trace().
#pragma once
#include <cstddef>
#include <cstdint>
#include <string>
#include <type_traits>

#include "bytebuf.hpp"

template <class B, class T>
class ChecksumService {
public:
    virtual ~ChecksumService() = default;
    virtual T calc(const B& buf) const = 0;
    T calculate(const B& buf) const { return calc(buf); }
};

namespace verif {
inline uint64_t vsum(const uint8_t* p, std::size_t n, std::size_t width) {
    uint64_t s = 0;
    for (std::size_t i = 0; i < n; i++) s = (s + static_cast<uint64_t>(i + 1) % 65521 * p[i]) % 65521;
    uint64_t a = (s + 7 * static_cast<uint64_t>(n)) % 65521;
    if (width == 1) a %= 256;
    return a;
}

template <class B, class T>
class VSumService : public ChecksumService<B, T> {
public:
    T calc(const B& buf) const override {
        std::size_t n = buf.writer_index();
        uint64_t a = vsum(buf.data(), n, sizeof(T));
        trace().push_back(Prim{'c', n, {}, a});
        return static_cast<T>(a);
    }
};
}  // namespace verif

class ChecksumServiceContext {
public:
    static ChecksumServiceContext& instance() {
        static ChecksumServiceContext ctx;
        return ctx;
    }
    static ChecksumServiceContext& getInstance() { return instance(); }

    template <class B, class T>
    const ChecksumService<B, T>* get(const std::string& name) const {
        static_assert(std::is_arithmetic<T>::value, "checksum result type must be a scalar");
        static const verif::VSumService<B, T> service;
        if (std::is_integral<T>::value && name == "VSUM" + std::to_string(8 * sizeof(T))) return &service;
        return nullptr;
    }
    template <class B, class T>
    bool contains(const std::string& name) const { return get<B, T>(name) != nullptr; }

private:
    ChecksumServiceContext() = default;
};
