// Reference runtime (C++): byte buffer.  API surface = what cpp_generator.go can emit
// (buf.writer_index(), buf.read_<t>[_le](), buf.write_<t>[_le](v), buf.write_<t>[_le]_at(pos, v)) plus
// plausible neighbours.  Every primitive is recorded in verif::trace() (append / set / calc) when
// verif::tracing() is on; the driver drains it for the `prims` / `calcs` lists of an enc event.
#pragma once
#include <cstddef>
#include <cstdint>
#include <cstring>
#include <stdexcept>
#include <string>
#include <type_traits>
#include <vector>

namespace verif {
struct Prim {
    char kind;  // 'a' append, 's' set, 'c' calc
    std::size_t pos;  // append/set: position; calc: number of bytes covered
    std::vector<uint8_t> bytes;  // append/set
    uint64_t value;  // calc
};
inline std::vector<Prim>& trace() {
    static std::vector<Prim> t;
    return t;
}
inline bool& tracing() {
    static bool on = false;
    return on;
}

// value <-> bytes in the given order; integers two's complement, floats IEEE bits
template <class T>
inline void to_bytes(T v, uint8_t* out, bool le) {
    static_assert(std::is_arithmetic<T>::value, "scalar type expected");
    constexpr std::size_t n = sizeof(T);
    uint64_t u = 0;
    if constexpr (std::is_floating_point<T>::value) {
        static_assert(n == 4 || n == 8, "f32 / f64 only");
        if constexpr (n == 4) {
            uint32_t x;
            std::memcpy(&x, &v, 4);
            u = x;
        } else {
            std::memcpy(&u, &v, 8);
        }
    } else {
        u = static_cast<uint64_t>(static_cast<typename std::make_unsigned<T>::type>(v));
    }
    for (std::size_t i = 0; i < n; i++) {
        uint8_t b = static_cast<uint8_t>((u >> (8 * (n - 1 - i))) & 0xFF);  // i-th big-endian byte
        out[le ? n - 1 - i : i] = b;
    }
}

template <class T>
inline T from_bytes(const uint8_t* in, bool le) {
    static_assert(std::is_arithmetic<T>::value, "scalar type expected");
    constexpr std::size_t n = sizeof(T);
    uint64_t u = 0;
    for (std::size_t i = 0; i < n; i++) u = (u << 8) | in[le ? n - 1 - i : i];
    if constexpr (std::is_floating_point<T>::value) {
        T v;
        if constexpr (n == 4) {
            uint32_t x = static_cast<uint32_t>(u);
            std::memcpy(&v, &x, 4);
        } else {
            std::memcpy(&v, &u, 8);
        }
        return v;
    } else {
        return static_cast<T>(static_cast<typename std::make_unsigned<T>::type>(u));
    }
}
}  // namespace verif

class ByteBuf {
public:
    ByteBuf() = default;
    explicit ByteBuf(std::size_t capacity) { data_.reserve(capacity); }
    explicit ByteBuf(const std::vector<uint8_t>& bytes) : data_(bytes) {}
    ByteBuf(const uint8_t* p, std::size_t n) : data_(p, p + n) {}
    ByteBuf(const char* p, std::size_t n) : data_(reinterpret_cast<const uint8_t*>(p), reinterpret_cast<const uint8_t*>(p) + n) {}

    // indices -----------------------------------------------------------------------------------
    std::size_t writer_index() const { return data_.size(); }
    std::size_t reader_index() const { return ridx_; }
    void writer_index(std::size_t n) { data_.resize(n); if (ridx_ > n) ridx_ = n; }
    void reader_index(std::size_t n) {
        if (n > data_.size()) throw std::out_of_range("ByteBuf: reader index past writer index");
        ridx_ = n;
    }
    std::size_t readable_bytes() const { return data_.size() - ridx_; }
    std::size_t size() const { return data_.size(); }
    bool empty() const { return data_.empty(); }
    void clear() { data_.clear(); ridx_ = 0; }
    void reset() { clear(); }

    // raw access --------------------------------------------------------------------------------
    const uint8_t* data() const { return data_.data(); }
    uint8_t* data() { return data_.data(); }
    const std::vector<uint8_t>& bytes() const { return data_; }
    std::vector<uint8_t> to_vector() const { return data_; }
    std::vector<uint8_t> to_bytes() const { return data_; }
    uint8_t at(std::size_t i) const {
        if (i >= data_.size()) throw std::out_of_range("ByteBuf: index past end of buffer");
        return data_[i];
    }
    uint8_t operator[](std::size_t i) const { return at(i); }

    void write_bytes(const uint8_t* p, std::size_t n) { append(p, n); }
    void write_bytes(const char* p, std::size_t n) { append(reinterpret_cast<const uint8_t*>(p), n); }
    void write_bytes(const std::vector<uint8_t>& v) { append(v.data(), v.size()); }
    void write_bytes(const std::string& s) { append(reinterpret_cast<const uint8_t*>(s.data()), s.size()); }
    void write_bytes(const ByteBuf& other) { append(other.data_.data(), other.data_.size()); }

    std::vector<uint8_t> read_bytes(std::size_t n) {
        need(n);
        std::vector<uint8_t> out(data_.begin() + ridx_, data_.begin() + ridx_ + n);
        ridx_ += n;
        return out;
    }
    void read_bytes(uint8_t* dst, std::size_t n) {
        need(n);
        if (n) std::memcpy(dst, data_.data() + ridx_, n);
        ridx_ += n;
    }
    void read_bytes(char* dst, std::size_t n) { read_bytes(reinterpret_cast<uint8_t*>(dst), n); }
    std::string read_string_bytes(std::size_t n) {
        need(n);
        std::string s(reinterpret_cast<const char*>(data_.data()) + ridx_, n);
        ridx_ += n;
        return s;
    }
    void skip_bytes(std::size_t n) { need(n); ridx_ += n; }
    void set_bytes(std::size_t pos, const uint8_t* p, std::size_t n) { set(pos, p, n); }

    // typed primitives (generic form) -----------------------------------------------------------
    template <class T> void write_value(T v, bool le) {
        uint8_t b[sizeof(T)];
        verif::to_bytes<T>(v, b, le);
        append(b, sizeof(T));
    }
    template <class T> T read_value(bool le) {
        need(sizeof(T));
        T v = verif::from_bytes<T>(data_.data() + ridx_, le);
        ridx_ += sizeof(T);
        return v;
    }
    template <class T> void set_value(std::size_t pos, T v, bool le) {
        uint8_t b[sizeof(T)];
        verif::to_bytes<T>(v, b, le);
        set(pos, b, sizeof(T));
    }
    template <class T> T get_value(std::size_t pos, bool le) const {
        if (pos > data_.size() || sizeof(T) > data_.size() - pos) throw std::out_of_range("ByteBuf: get past end of buffer");
        return verif::from_bytes<T>(data_.data() + pos, le);
    }

#define VERIF_BYTEBUF_TYPE(NAME, T)                                                             \
    void write_##NAME(T v) { write_value<T>(v, false); }                                        \
    void write_##NAME##_le(T v) { write_value<T>(v, true); }                                    \
    void write_##NAME##_be(T v) { write_value<T>(v, false); }                                   \
    T read_##NAME() { return read_value<T>(false); }                                            \
    T read_##NAME##_le() { return read_value<T>(true); }                                        \
    T read_##NAME##_be() { return read_value<T>(false); }                                       \
    void write_##NAME##_at(std::size_t pos, T v) { set_value<T>(pos, v, false); }               \
    void write_##NAME##_le_at(std::size_t pos, T v) { set_value<T>(pos, v, true); }             \
    void write_##NAME##_be_at(std::size_t pos, T v) { set_value<T>(pos, v, false); }            \
    void set_##NAME(std::size_t pos, T v) { set_value<T>(pos, v, false); }                      \
    void set_##NAME##_le(std::size_t pos, T v) { set_value<T>(pos, v, true); }                  \
    T get_##NAME(std::size_t pos) const { return get_value<T>(pos, false); }                    \
    T get_##NAME##_le(std::size_t pos) const { return get_value<T>(pos, true); }                \
    T read_##NAME##_at(std::size_t pos) const { return get_value<T>(pos, false); }              \
    T read_##NAME##_le_at(std::size_t pos) const { return get_value<T>(pos, true); }

    VERIF_BYTEBUF_TYPE(u8, uint8_t)
    VERIF_BYTEBUF_TYPE(i8, int8_t)
    VERIF_BYTEBUF_TYPE(u16, uint16_t)
    VERIF_BYTEBUF_TYPE(i16, int16_t)
    VERIF_BYTEBUF_TYPE(u32, uint32_t)
    VERIF_BYTEBUF_TYPE(i32, int32_t)
    VERIF_BYTEBUF_TYPE(u64, uint64_t)
    VERIF_BYTEBUF_TYPE(i64, int64_t)
    VERIF_BYTEBUF_TYPE(f32, float)
    VERIF_BYTEBUF_TYPE(f64, double)
#undef VERIF_BYTEBUF_TYPE

    void write_char(char c) { write_value<uint8_t>(static_cast<uint8_t>(c), false); }
    char read_char() { return static_cast<char>(read_value<uint8_t>(false)); }

private:
    void need(std::size_t n) const {
        if (n > data_.size() - ridx_) throw std::out_of_range("ByteBuf: read past end of buffer");
    }
    void append(const uint8_t* p, std::size_t n) {
        if (verif::tracing()) verif::trace().push_back(verif::Prim{'a', data_.size(), std::vector<uint8_t>(p, p + n), 0});
        data_.insert(data_.end(), p, p + n);
    }
    void set(std::size_t pos, const uint8_t* p, std::size_t n) {
        if (pos > data_.size() || n > data_.size() - pos) throw std::out_of_range("ByteBuf: write_at past the written bytes");
        if (verif::tracing()) verif::trace().push_back(verif::Prim{'s', pos, std::vector<uint8_t>(p, p + n), 0});
        if (n) std::memcpy(data_.data() + pos, p, n);
    }

    std::vector<uint8_t> data_;
    std::size_t ridx_ = 0;
};
