// The emitted-type-independent part of the driver (JSON, value-tree helpers, op loop): compiled once by
// harness/lang_cpp.py setup() into /verif/.work/rt/cpp/<key>/drv_impl.o and linked to every generated driver.
#define DRV_IMPLEMENTATION
#include "drv.hpp"
