// Driver support for the emitted C++ codec (harness/PROTOCOL.md).  harness/lang_cpp.py GENERATES one
// driver .cpp per program (C++ has no reflection): it parses the emitted struct declarations, pairs members
// with declared fields POSITIONALLY and emits vb_*/vr_* functions (value tree -> native, native -> value
// tree) that call the conversion templates below.  The templates look at the member's NATIVE type
// (decltype) and at the DECLARED width / signedness given as template arguments; a native value that cannot
// hold the declared value is an observation ({"t":"x"} when reading, build-raises when building).
//
// usage:  driver <ops.json> [--skip k]        -> one JSON event per op on the original stdout
#pragma once
#include <cstddef>
#include <cstdint>
#include <cstdio>
#include <cstdlib>
#include <cstring>
#include <cxxabi.h>
#include <exception>
#include <fcntl.h>
#include <fstream>
#include <functional>
#include <iterator>
#include <memory>
#include <sstream>
#include <stdexcept>
#include <string>
#include <type_traits>
#include <typeinfo>
#include <unistd.h>
#include <utility>
#include <vector>

#include "../include/bytebuf.hpp"
#include "../include/checksum.hpp"
#include "../include/codec.hpp"

namespace drv {

struct MemberMismatch : std::runtime_error {
    explicit MemberMismatch(const std::string& w) : std::runtime_error(w) {}
};
struct BuildError : std::runtime_error {
    explicit BuildError(const std::string& w) : std::runtime_error(w) {}
};

// ------------------------------------------------------------------------------------------------
// minimal JSON
class J {
public:
    enum Kind { Null, Bool, Int, Dbl, Str, Arr, Obj };
    Kind kind = Null;
    bool b = false;
    long long i = 0;
    double d = 0;
    std::string s;
    std::vector<J> a;
    std::vector<std::pair<std::string, J>> o;

    J() = default;
    J(bool v) : kind(Bool), b(v) {}
    J(int v) : kind(Int), i(v) {}
    J(long v) : kind(Int), i(v) {}
    J(long long v) : kind(Int), i(v) {}
    J(unsigned v) : kind(Int), i(v) {}
    J(unsigned long v) : kind(Int), i(static_cast<long long>(v)) {}
    J(unsigned long long v) : kind(Int), i(static_cast<long long>(v)) {}
    J(const char* v) : kind(Str), s(v) {}
    J(const std::string& v) : kind(Str), s(v) {}
    static J arr() { J j; j.kind = Arr; return j; }
    static J obj() { J j; j.kind = Obj; return j; }

    bool is_null() const { return kind == Null; }
    const J& operator[](const char* key) const {
        static const J null;
        for (const auto& kv : o) if (kv.first == key) return kv.second;
        return null;
    }
    const J& operator[](std::size_t idx) const {
        static const J null;
        return idx < a.size() ? a[idx] : null;
    }
    std::size_t size() const { return kind == Arr ? a.size() : o.size(); }
    J& set(const std::string& key, J v) {
        for (auto& kv : o) if (kv.first == key) { kv.second = std::move(v); return *this; }
        kind = Obj;
        o.emplace_back(key, std::move(v));
        return *this;
    }
    J& push(J v) { kind = Arr; a.push_back(std::move(v)); return *this; }
    const std::string& str() const { return s; }
    long long num() const { return kind == Dbl ? static_cast<long long>(d) : i; }
};

namespace detail {
struct Parser {
    const std::string& t;
    std::size_t p = 0;
    explicit Parser(const std::string& text) : t(text) {}
    [[noreturn]] void fail(const char* m) { throw std::runtime_error(std::string("json: ") + m + " at " + std::to_string(p)); }
    void ws() { while (p < t.size() && (t[p] == ' ' || t[p] == '\n' || t[p] == '\t' || t[p] == '\r')) p++; }
    static void utf8(std::string& out, unsigned cp) {
        if (cp < 0x80) out += static_cast<char>(cp);
        else if (cp < 0x800) { out += static_cast<char>(0xC0 | (cp >> 6)); out += static_cast<char>(0x80 | (cp & 0x3F)); }
        else if (cp < 0x10000) { out += static_cast<char>(0xE0 | (cp >> 12)); out += static_cast<char>(0x80 | ((cp >> 6) & 0x3F)); out += static_cast<char>(0x80 | (cp & 0x3F)); }
        else { out += static_cast<char>(0xF0 | (cp >> 18)); out += static_cast<char>(0x80 | ((cp >> 12) & 0x3F)); out += static_cast<char>(0x80 | ((cp >> 6) & 0x3F)); out += static_cast<char>(0x80 | (cp & 0x3F)); }
    }
    unsigned hex4() {
        if (p + 4 > t.size()) fail("short \\u escape");
        unsigned v = 0;
        for (int k = 0; k < 4; k++) {
            char c = t[p++];
            v <<= 4;
            if (c >= '0' && c <= '9') v |= c - '0';
            else if (c >= 'a' && c <= 'f') v |= c - 'a' + 10;
            else if (c >= 'A' && c <= 'F') v |= c - 'A' + 10;
            else fail("bad \\u escape");
        }
        return v;
    }
    std::string string() {
        std::string out;
        p++;  // opening quote
        while (true) {
            if (p >= t.size()) fail("unterminated string");
            char c = t[p++];
            if (c == '"') return out;
            if (c != '\\') { out += c; continue; }
            if (p >= t.size()) fail("unterminated escape");
            char e = t[p++];
            switch (e) {
                case 'n': out += '\n'; break;
                case 't': out += '\t'; break;
                case 'r': out += '\r'; break;
                case 'b': out += '\b'; break;
                case 'f': out += '\f'; break;
                case 'u': {
                    unsigned cp = hex4();
                    if (cp >= 0xD800 && cp < 0xDC00 && p + 1 < t.size() && t[p] == '\\' && t[p + 1] == 'u') {
                        p += 2;
                        unsigned lo = hex4();
                        cp = 0x10000 + ((cp - 0xD800) << 10) + (lo - 0xDC00);
                    }
                    utf8(out, cp);
                    break;
                }
                default: out += e;
            }
        }
    }
    J value() {
        ws();
        if (p >= t.size()) fail("unexpected end");
        char c = t[p];
        if (c == '{') {
            J j = J::obj();
            p++;
            ws();
            if (p < t.size() && t[p] == '}') { p++; return j; }
            while (true) {
                ws();
                if (p >= t.size() || t[p] != '"') fail("key expected");
                std::string k = string();
                ws();
                if (p >= t.size() || t[p] != ':') fail("':' expected");
                p++;
                j.o.emplace_back(std::move(k), value());
                ws();
                if (p < t.size() && t[p] == ',') { p++; continue; }
                if (p < t.size() && t[p] == '}') { p++; return j; }
                fail("',' or '}' expected");
            }
        }
        if (c == '[') {
            J j = J::arr();
            p++;
            ws();
            if (p < t.size() && t[p] == ']') { p++; return j; }
            while (true) {
                j.a.push_back(value());
                ws();
                if (p < t.size() && t[p] == ',') { p++; continue; }
                if (p < t.size() && t[p] == ']') { p++; return j; }
                fail("',' or ']' expected");
            }
        }
        if (c == '"') return J(string());
        if (t.compare(p, 4, "true") == 0) { p += 4; return J(true); }
        if (t.compare(p, 5, "false") == 0) { p += 5; return J(false); }
        if (t.compare(p, 4, "null") == 0) { p += 4; return J(); }
        std::size_t q = p;
        bool isint = true;
        if (q < t.size() && (t[q] == '-' || t[q] == '+')) q++;
        while (q < t.size() && ((t[q] >= '0' && t[q] <= '9') || t[q] == '.' || t[q] == 'e' || t[q] == 'E' || t[q] == '-' || t[q] == '+')) {
            if (t[q] == '.' || t[q] == 'e' || t[q] == 'E') isint = false;
            q++;
        }
        if (q == p) fail("value expected");
        std::string num = t.substr(p, q - p);
        p = q;
        J j;
        if (isint) { j.kind = J::Int; j.i = std::strtoll(num.c_str(), nullptr, 10); }
        else { j.kind = J::Dbl; j.d = std::strtod(num.c_str(), nullptr); }
        return j;
    }
};

inline void dump_str(std::string& out, const std::string& s) {
    static const char* hex = "0123456789abcdef";
    out += '"';
    for (unsigned char c : s) {
        if (c == '"') out += "\\\"";
        else if (c == '\\') out += "\\\\";
        else if (c == '\n') out += "\\n";
        else if (c == '\t') out += "\\t";
        else if (c < 0x20 || c >= 0x7F) {  // bytes, not code points: keep the line valid JSON whatever the text is
            out += "\\u00";
            out += hex[c >> 4];
            out += hex[c & 15];
        } else out += static_cast<char>(c);
    }
    out += '"';
}
inline void dump(std::string& out, const J& j) {
    switch (j.kind) {
        case J::Null: out += "null"; break;
        case J::Bool: out += j.b ? "true" : "false"; break;
        case J::Int: out += std::to_string(j.i); break;
        case J::Dbl: { std::ostringstream oss; oss << j.d; out += oss.str(); break; }
        case J::Str: dump_str(out, j.s); break;
        case J::Arr: {
            out += '[';
            for (std::size_t k = 0; k < j.a.size(); k++) { if (k) out += ','; dump(out, j.a[k]); }
            out += ']';
            break;
        }
        case J::Obj: {
            out += '{';
            for (std::size_t k = 0; k < j.o.size(); k++) { if (k) out += ','; dump_str(out, j.o[k].first); out += ':'; dump(out, j.o[k].second); }
            out += '}';
            break;
        }
    }
}
}  // namespace detail

inline J parse(const std::string& text) {
    detail::Parser p(text);
    J j = p.value();
    return j;
}
inline std::string dump(const J& j) {
    std::string out;
    detail::dump(out, j);
    return out;
}

// ------------------------------------------------------------------------------------------------
// value trees
using Bytes = std::vector<uint8_t>;

inline J jbytes(const uint8_t* p, std::size_t n) {
    J a = J::arr();
    a.a.reserve(n);
    for (std::size_t k = 0; k < n; k++) a.a.emplace_back(static_cast<int>(p[k]));
    return a;
}
inline J jbytes(const Bytes& b) { return jbytes(b.data(), b.size()); }
inline Bytes bytes_of_array(const J& a) {
    Bytes out;
    out.reserve(a.a.size());
    for (const J& x : a.a) out.push_back(static_cast<uint8_t>(x.num() & 0xFF));
    return out;
}
inline J tb(const Bytes& b) { J j = J::obj(); j.set("t", "b"); j.set("b", jbytes(b)); return j; }
inline J tb(const std::string& s) { J j = J::obj(); j.set("t", "b"); j.set("b", jbytes(reinterpret_cast<const uint8_t*>(s.data()), s.size())); return j; }
inline J tn() { J j = J::obj(); j.set("t", "n"); return j; }
inline J tx(const std::string& repr, const std::string& why = "") {
    J j = J::obj();
    j.set("t", "x");
    j.set("repr", repr.substr(0, 80));
    if (!why.empty()) j.set("err", why);
    return j;
}
inline J tl(J xs) { J j = J::obj(); j.set("t", "l"); xs.kind = J::Arr; j.set("xs", std::move(xs)); return j; }
inline J to(J fs) { J j = J::obj(); j.set("t", "o"); fs.kind = J::Arr; j.set("fs", std::move(fs)); return j; }
inline J tm(const std::string& pkt, J fs) { J j = J::obj(); j.set("t", "m"); j.set("pkt", pkt); fs.kind = J::Arr; j.set("fs", std::move(fs)); return j; }

inline bool is_null_tree(const J& v) { return v["t"].str() == "n"; }
inline Bytes scalar_bytes(const J& v, std::size_t want) {
    if (v["t"].str() != "b") throw BuildError("value tree: scalar expected, got t=" + v["t"].str());
    Bytes b = bytes_of_array(v["b"]);
    if (want && b.size() != want) throw BuildError("value tree: " + std::to_string(b.size()) + " bytes for a " + std::to_string(want) + "-byte scalar");
    return b;
}
inline void check_count(const char* type, std::size_t declared, const J& fs) {
    if (fs.size() != declared)
        throw MemberMismatch(std::string("value for ") + type + " has " + std::to_string(fs.size()) + " entries for " + std::to_string(declared) + " declared fields");
}

inline std::string demangle(const char* name) {
    int st = 0;
    char* d = abi::__cxa_demangle(name, nullptr, nullptr, &st);
    std::string out = (st == 0 && d) ? d : name;
    std::free(d);
    return out;
}
template <class T> std::string type_name() { return demangle(typeid(T).name()); }

// ---- traits -----------------------------------------------------------------------------------
template <class N> using bare = typename std::remove_cv<typename std::remove_reference<N>::type>::type;
template <class N> struct is_num : std::integral_constant<bool, std::is_arithmetic<N>::value && !std::is_same<N, bool>::value> {};
template <class N> struct is_vec : std::false_type {};
template <class E, class A> struct is_vec<std::vector<E, A>> : std::true_type {};
template <class N> struct is_bytevec : std::false_type {};
template <class A> struct is_bytevec<std::vector<char, A>> : std::true_type {};
template <class A> struct is_bytevec<std::vector<uint8_t, A>> : std::true_type {};
template <class A> struct is_bytevec<std::vector<int8_t, A>> : std::true_type {};

template <std::size_t W, bool S> struct decl_name {
    static std::string get() { return std::string(S ? "i" : "u") + std::to_string(8 * W); }
};

// ---- integers (int / len / ck fields) ---------------------------------------------------------
// declared: W bytes, signed S.  big-endian canonical bytes <-> native member of type N.
template <std::size_t W, bool S, class N>
void put_int(N& dst, const J& v) {
    if (is_null_tree(v)) return;
    Bytes b = scalar_bytes(v, W);
    uint64_t u = 0;
    for (uint8_t x : b) u = (u << 8) | x;
    if constexpr (is_num<N>::value && std::is_integral<N>::value) {
        bool fits;
        if constexpr (S) {
            int64_t sv = (W < 8 && (u >> (8 * W - 1)) & 1) ? static_cast<int64_t>(u | (~uint64_t(0) << (8 * W))) : static_cast<int64_t>(u);
            dst = static_cast<N>(sv);
            fits = static_cast<int64_t>(dst) == sv && ((dst < 0) == (sv < 0));
        } else {
            dst = static_cast<N>(u);
            fits = !(std::is_signed<N>::value && dst < 0) && static_cast<uint64_t>(dst) == u;
        }
        if (!fits) throw BuildError("native member of type " + type_name<N>() + " cannot hold the declared " + decl_name<W, S>::get() + " value");
    } else if constexpr (std::is_floating_point<N>::value) {
        long double want;
        if constexpr (S) {
            int64_t sv = (W < 8 && (u >> (8 * W - 1)) & 1) ? static_cast<int64_t>(u | (~uint64_t(0) << (8 * W))) : static_cast<int64_t>(u);
            want = static_cast<long double>(sv);
        } else {
            want = static_cast<long double>(u);
        }
        dst = static_cast<N>(want);
        if (static_cast<long double>(dst) != want) throw BuildError("native member of type " + type_name<N>() + " cannot hold the declared " + decl_name<W, S>::get() + " value");
    } else {
        throw BuildError("native member of type " + type_name<N>() + " for a declared " + decl_name<W, S>::get() + " field");
    }
}

template <std::size_t W, bool S, class N>
J get_int(const N& x) {
    if constexpr (is_num<N>::value && std::is_integral<N>::value) {
        bool fits;
        uint64_t u;
        if constexpr (S) {
            if (std::is_unsigned<N>::value && static_cast<uint64_t>(x) > static_cast<uint64_t>(INT64_MAX)) return tx(std::to_string(x), "out of range for " + decl_name<W, S>::get());
            int64_t sv = static_cast<int64_t>(x);
            int64_t lo = W == 8 ? INT64_MIN : -(int64_t(1) << (8 * W - 1));
            int64_t hi = W == 8 ? INT64_MAX : (int64_t(1) << (8 * W - 1)) - 1;
            fits = sv >= lo && sv <= hi;
            u = static_cast<uint64_t>(sv);
        } else {
            if (std::is_signed<N>::value && x < 0) return tx(std::to_string(x), "negative value for " + decl_name<W, S>::get());
            u = static_cast<uint64_t>(x);
            fits = W == 8 || u <= ((uint64_t(1) << (8 * (W & 7))) - 1);
        }
        if (!fits) return tx(std::to_string(x), "out of range for " + decl_name<W, S>::get());
        Bytes b(W);
        for (std::size_t k = 0; k < W; k++) b[k] = static_cast<uint8_t>((u >> (8 * (W - 1 - k))) & 0xFF);
        return tb(b);
    } else if constexpr (std::is_floating_point<N>::value) {
        return tx(std::to_string(x), "floating-point member for " + decl_name<W, S>::get());
    } else {
        return tx("<" + type_name<N>() + ">", "native type for " + decl_name<W, S>::get());
    }
}

// ---- floats -----------------------------------------------------------------------------------
template <std::size_t W, class N>
void put_float(N& dst, const J& v) {
    static_assert(W == 4 || W == 8, "f32 / f64");
    if (is_null_tree(v)) return;
    Bytes b = scalar_bytes(v, W);
    if constexpr (std::is_floating_point<N>::value) {
        if constexpr (W == 4) {
            float f = verif::from_bytes<float>(b.data(), false);
            dst = static_cast<N>(f);  // float -> float/double is exact
        } else {
            double d = verif::from_bytes<double>(b.data(), false);
            dst = static_cast<N>(d);
            if (!(static_cast<double>(dst) == d) && d == d)
                throw BuildError("native member of type " + type_name<N>() + " cannot hold the declared f64 value");
        }
    } else {
        throw BuildError("native member of type " + type_name<N>() + " for a declared f" + std::to_string(8 * W) + " field");
    }
}
template <std::size_t W, class N>
J get_float(const N& x) {
    static_assert(W == 4 || W == 8, "f32 / f64");
    if constexpr (std::is_floating_point<N>::value) {
        Bytes b(W);
        if constexpr (W == 4) {
            float f = static_cast<float>(x);
            if (!(static_cast<N>(f) == x) && x == x) return tx(std::to_string(x), "not representable as f32");
            verif::to_bytes<float>(f, b.data(), false);
        } else {
            verif::to_bytes<double>(static_cast<double>(x), b.data(), false);
        }
        return tb(b);
    } else if constexpr (is_num<N>::value) {
        return tx(std::to_string(x), "integer member for a float field");
    } else {
        return tx("<" + type_name<N>() + ">", "native type for a float field");
    }
}

// ---- char (one byte) --------------------------------------------------------------------------
template <class N>
void put_char(N& dst, const J& v) {
    if (is_null_tree(v)) return;
    Bytes b = scalar_bytes(v, 1);
    if constexpr (std::is_integral<N>::value && !std::is_same<N, bool>::value) {
        dst = static_cast<N>(sizeof(N) == 1 ? static_cast<N>(b[0]) : static_cast<N>(b[0]));
    } else if constexpr (std::is_same<N, std::string>::value) {
        dst.assign(1, static_cast<char>(b[0]));
    } else {
        throw BuildError("native member of type " + type_name<N>() + " for a declared char field");
    }
}
template <class N>
J get_char(const N& x) {
    if constexpr (std::is_integral<N>::value && !std::is_same<N, bool>::value) {
        if (sizeof(N) > 1 && (x < 0 || static_cast<uint64_t>(x) > 255)) return tx(std::to_string(x), "out of range for char");
        return tb(Bytes{static_cast<uint8_t>(x)});
    } else if constexpr (std::is_same<N, std::string>::value) {
        return tb(x);
    } else {
        return tx("<" + type_name<N>() + ">", "native type for a char field");
    }
}

// ---- strings (fix / dyn): UTF-8 bytes of the unpadded value -----------------------------------
template <class N>
void put_str(N& dst, const J& v) {
    if (is_null_tree(v)) return;
    Bytes b = scalar_bytes(v, 0);
    if constexpr (std::is_same<N, std::string>::value) {
        dst.assign(reinterpret_cast<const char*>(b.data()), b.size());
    } else if constexpr (is_bytevec<N>::value) {
        dst.clear();
        for (uint8_t x : b) dst.push_back(static_cast<typename N::value_type>(x));
    } else {
        throw BuildError("native member of type " + type_name<N>() + " for a declared string field");
    }
}
template <class N>
J get_str(const N& x) {
    if constexpr (std::is_same<N, std::string>::value) {
        return tb(x);
    } else if constexpr (is_bytevec<N>::value) {
        Bytes b;
        for (auto c : x) b.push_back(static_cast<uint8_t>(c));
        return tb(b);
    } else if constexpr (std::is_same<N, const char*>::value || std::is_same<N, char*>::value) {
        return x ? tb(std::string(x)) : tn();
    } else if constexpr (is_num<N>::value) {
        return tx(std::to_string(x), "numeric member for a string field");
    } else {
        return tx("<" + type_name<N>() + ">", "native type for a string field");
    }
}

// ---- repeated fields --------------------------------------------------------------------------
// elem(e, x): fills one default-constructed element from the tree x / reads one element
template <class N, class F>
void put_list(N& dst, const J& v, F elem) {
    if (is_null_tree(v)) return;
    if (v["t"].str() != "l") throw BuildError("value tree: list expected, got t=" + v["t"].str());
    if constexpr (is_vec<N>::value) {
        using E = typename N::value_type;
        dst.clear();
        for (const J& x : v["xs"].a) {
            E e{};
            elem(e, x);
            dst.push_back(std::move(e));
        }
    } else {
        throw MemberMismatch("native member of type " + type_name<N>() + " for a repeated field");
    }
}
template <class N, class F>
J get_list(const N& x, F elem) {
    if constexpr (is_vec<N>::value) {
        J xs = J::arr();
        for (const auto& e : x) xs.push(elem(e));
        return tl(std::move(xs));
    } else {
        return tx("<" + type_name<N>() + ">", "native type for a repeated field");
    }
}

// ---- match payloads: owning pointer to the codec base ------------------------------------------
template <class X> const X* raw(const std::unique_ptr<X>& p) { return p.get(); }
template <class X> const X* raw(const std::shared_ptr<X>& p) { return p.get(); }
template <class X> const X* raw(X* const& p) { return p; }
template <class X> const X* raw(const X* const& p) { return p; }

template <class D, class T>
void assign_ptr(D& dst, std::unique_ptr<T> p) {
    if constexpr (std::is_pointer<D>::value) dst = p.release();
    else dst = std::move(p);
}

// ------------------------------------------------------------------------------------------------
// runner
inline std::string errinfo(const std::exception& e) {
    std::string w = e.what();
    return demangle(typeid(e).name()) + ": " + w.substr(0, 200);
}
inline std::string errinfo_unknown() {
    std::string n = "unknown exception";
    if (std::type_info* t = abi::__cxa_current_exception_type()) n = demangle(t->name());
    return n;
}

struct Ops {
    std::string pkt;
    std::function<void(const J& op, J& ev)> enc;
    std::function<void(const J& op, J& ev, bool reenc)> dec;
};

inline void fail(J& ev, const char* cls, const std::string& err) {
    ev.set("ok", false);
    ev.set("cls", cls);
    ev.set("err", err);
}

inline J prims_of_trace() {
    J prims = J::arr();
    for (const verif::Prim& p : verif::trace()) {
        if (p.kind == 'c') continue;
        J e = J::arr();
        e.push(p.kind == 'a' ? "append" : "set");
        e.push(static_cast<unsigned long long>(p.pos));
        e.push(jbytes(p.bytes));
        prims.push(std::move(e));
    }
    return prims;
}
inline J calcs_of_trace() {
    J calcs = J::arr();
    for (const verif::Prim& p : verif::trace()) {
        if (p.kind != 'c') continue;
        J e = J::arr();
        e.push(static_cast<unsigned long long>(p.pos));
        e.push(static_cast<unsigned long long>(p.value));
        calcs.push(std::move(e));
    }
    return calcs;
}

template <class T>
Ops make_ops(const char* pkt, void (*build)(T&, const J&), J (*read)(const T&)) {
    Ops ops;
    ops.pkt = pkt;
    ops.enc = [build](const J& op, J& ev) {
        T o{};
        try {
            build(o, op["val"]["fs"]);
        } catch (const MemberMismatch& e) {
            return fail(ev, "member-missing", e.what());
        } catch (const std::exception& e) {
            return fail(ev, "build-raises", errinfo(e));
        } catch (...) {
            return fail(ev, "build-raises", errinfo_unknown());
        }
        try {
            verif::trace().clear();
            verif::tracing() = true;
            ByteBuf buf;
            static_cast<const codec::BinaryCodec&>(o).encode(buf);
            verif::tracing() = false;
            ev.set("ok", true);
            ev.set("bytes", jbytes(buf.data(), buf.writer_index()));
            ev.set("prims", prims_of_trace());
            ev.set("calcs", calcs_of_trace());
        } catch (const std::exception& e) {
            verif::tracing() = false;
            fail(ev, "encode-raises", errinfo(e));
        } catch (...) {
            verif::tracing() = false;
            fail(ev, "encode-raises", errinfo_unknown());
        }
    };
    ops.dec = [read](const J& op, J& ev, bool reenc) {
        Bytes data = bytes_of_array(op["bytes"]);
        Bytes tail = bytes_of_array(op["tail"]);
        data.insert(data.end(), tail.begin(), tail.end());
        ByteBuf buf(data);
        T o{};
        try {
            static_cast<codec::BinaryCodec&>(o).decode(buf);
        } catch (const std::exception& e) {
            fail(ev, "decode-raises", errinfo(e));
            ev.set("consumed", static_cast<unsigned long long>(buf.reader_index()));
            return;
        } catch (...) {
            fail(ev, "decode-raises", errinfo_unknown());
            ev.set("consumed", static_cast<unsigned long long>(buf.reader_index()));
            return;
        }
        ev.set("ok", true);
        ev.set("consumed", static_cast<unsigned long long>(buf.reader_index()));
        try {
            ev.set("val", to(read(o)));
        } catch (const MemberMismatch& e) {
            return fail(ev, "member-missing", e.what());
        } catch (const std::exception& e) {
            return fail(ev, "read-raises", errinfo(e));
        } catch (...) {
            return fail(ev, "read-raises", errinfo_unknown());
        }
        if (reenc) {
            try {
                ByteBuf b2;
                static_cast<const codec::BinaryCodec&>(o).encode(b2);
                ev.set("reenc", jbytes(b2.data(), b2.writer_index()));
            } catch (const std::exception& e) {
                ev.set("reenc_err", errinfo(e));
            } catch (...) {
                ev.set("reenc_err", errinfo_unknown());
            }
        }
    };
    return ops;
}

inline int run(int argc, char** argv, const std::vector<Ops>& table) {
    // the event stream owns the original stdout; whatever the emitted code prints goes to stderr
    int evfd = dup(1);
    std::fflush(stdout);
    dup2(2, 1);
    const char* casefile = nullptr;
    long skip = 0;
    for (int k = 1; k < argc; k++) {
        if (std::strcmp(argv[k], "--skip") == 0 && k + 1 < argc) skip = std::atol(argv[++k]);
        else casefile = argv[k];
    }
    if (!casefile) {
        std::fprintf(stderr, "usage: driver <ops.json> [--skip k]\n");
        return 2;
    }
    J ops;
    try {
        std::ifstream in(casefile, std::ios::binary);
        if (!in) throw std::runtime_error("cannot open case file");
        std::string text((std::istreambuf_iterator<char>(in)), std::istreambuf_iterator<char>());
        ops = parse(text)["ops"];
    } catch (const std::exception& e) {
        std::fprintf(stderr, "driver: %s: %s\n", casefile, e.what());
        return 2;
    }
    for (std::size_t k = static_cast<std::size_t>(skip < 0 ? 0 : skip); k < ops.a.size(); k++) {
        const J& op = ops.a[k];
        const std::string& kind = op["op"].str();
        J ev = J::obj();
        ev.set("ev", kind);
        ev.set("id", op["id"]);
        const Ops* po = nullptr;
        for (const Ops& cand : table) if (cand.pkt == op["pkt"].str()) po = &cand;
        if (kind == "enc") {
            if (!po) fail(ev, "member-missing", "no emitted type for packet " + op["pkt"].str());
            else po->enc(op, ev);
        } else if (kind == "dec" || kind == "deckey") {
            ev.set("tail", static_cast<unsigned long long>(op["tail"].size()));
            if (!po) fail(ev, "member-missing", "no emitted type for packet " + op["pkt"].str());
            else po->dec(op, ev, kind == "dec");
        } else {
            fail(ev, "build-raises", "unknown op kind " + kind);
        }
        std::string line = dump(ev);
        line += '\n';
        std::size_t off = 0;
        while (off < line.size()) {
            ssize_t w = write(evfd, line.data() + off, line.size() - off);
            if (w <= 0) return 3;
            off += static_cast<std::size_t>(w);
        }
    }
    return 0;
}

}  // namespace drv
