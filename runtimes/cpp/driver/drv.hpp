// Driver support for the emitted C++ codec (harness/PROTOCOL.md).  harness/lang_cpp.py GENERATES one
// driver .cpp per program (C++ has no reflection): it parses the emitted struct declarations, pairs members
// with declared fields POSITIONALLY and emits vb_*/vr_* functions (value tree -> native, native -> value
// tree) that call the conversion templates below.  The templates look at the member's NATIVE type and at the
// DECLARED width / signedness given as template arguments; a native value that cannot hold the declared value
// is an observation ({"t":"x"} when reading, build-raises when building).
//
// Everything that does not depend on the emitted types (JSON, value-tree helpers, the op loop) is only
// DECLARED here and defined under DRV_IMPLEMENTATION: driver/drv_impl.cpp is compiled once by the plug-in's
// setup() and linked to every generated driver, which keeps the per-program translation unit small.
//
// usage:  driver <ops.json> [--skip k]        -> one JSON event per op on the original stdout
#pragma once
#include <cstddef>
#include <cstdint>
#include <memory>
#include <stdexcept>
#include <string>
#include <type_traits>
#include <typeinfo>
#include <utility>
#include <vector>

#include "../include/bytebuf.hpp"
#include "../include/checksum.hpp"
#include <map>
#include "../include/codec.hpp"

namespace drv {

struct MemberMismatch : std::runtime_error {
    explicit MemberMismatch(const std::string& w) : std::runtime_error(w) {}
};
struct BuildError : std::runtime_error {
    explicit BuildError(const std::string& w) : std::runtime_error(w) {}
};

// ------------------------------------------------------------------------------------------------
// minimal JSON
class J {
public:
    enum Kind { Null, Bool, Int, Dbl, Str, Arr, Obj };
    Kind kind = Null;
    bool b = false;
    long long i = 0;
    double d = 0;
    std::string s;
    std::vector<J> a;
    std::vector<std::pair<std::string, J>> o;

    J();
    J(const J&);
    J(J&&) noexcept;
    J& operator=(const J&);
    J& operator=(J&&) noexcept;
    ~J();
    J(bool v);
    J(int v);
    J(long v);
    J(long long v);
    J(unsigned v);
    J(unsigned long v);
    J(unsigned long long v);
    J(const char* v);
    J(const std::string& v);
    static J arr();
    static J obj();

    const J& operator[](const char* key) const;  // object member, a null J when absent
    const J& at(std::size_t idx) const;          // array element, a null J when absent
    std::size_t size() const;
    J& set(const std::string& key, J v);
    J& push(J v);
    const std::string& str() const { return s; }
    long long num() const { return kind == Dbl ? static_cast<long long>(d) : i; }
};

J parse(const std::string& text);
std::string dump(const J& j);

// ------------------------------------------------------------------------------------------------
// value trees
using Bytes = std::vector<uint8_t>;

J jbytes(const uint8_t* p, std::size_t n);
Bytes bytes_of_array(const J& a);
J tb(const Bytes& b);
J tb(const std::string& s);
J tb_uint(uint64_t u, std::size_t width);  // canonical big-endian bytes of the low `width` bytes
J tb_f32(float f);
J tb_f64(double d);
J tn();
J tx(const std::string& repr, const std::string& why = "");
J tl(J xs);
J to(J fs);
J tm(const std::string& pkt, J fs);

bool is_null_tree(const J& v);
bool is_list_tree(const J& v);
uint64_t uint_of(const J& v, std::size_t width);  // scalar tree of exactly `width` bytes -> big-endian value
float f32_of(const J& v);
double f64_of(const J& v);
std::string str_of(const J& v);                   // scalar tree of any length -> the bytes
void check_count(const char* type, std::size_t declared, const J& fs);
std::string demangle(const char* name);
std::string decl_int_name(std::size_t width, bool sign);
[[noreturn]] void cannot_hold(const std::type_info& native, const std::string& declared);
[[noreturn]] void wrong_native(const std::type_info& native, const std::string& declared);
J tx_native(const std::type_info& native, const std::string& declared);

// ---- traits -----------------------------------------------------------------------------------
template <class N> struct is_num : std::integral_constant<bool, std::is_arithmetic<N>::value && !std::is_same<N, bool>::value> {};
template <class N> struct is_vec : std::false_type {};
template <class E, class A> struct is_vec<std::vector<E, A>> : std::true_type {};
template <class N> struct is_bytevec : std::false_type {};
template <class A> struct is_bytevec<std::vector<char, A>> : std::true_type {};
template <class A> struct is_bytevec<std::vector<uint8_t, A>> : std::true_type {};
template <class A> struct is_bytevec<std::vector<int8_t, A>> : std::true_type {};

inline int64_t sign_extend(uint64_t u, std::size_t width) {
    if (width < 8 && ((u >> (8 * width - 1)) & 1)) u |= ~uint64_t(0) << (8 * width);
    return static_cast<int64_t>(u);
}

constexpr int64_t int_max(std::size_t w) { return w >= 8 ? INT64_MAX : (int64_t(1) << (8 * (w & 7) - 1)) - 1; }
constexpr int64_t int_min(std::size_t w) { return -int_max(w) - 1; }

// ---- integers (int / len / ck fields): declared W bytes, signed S --------------------------------
template <std::size_t W, bool S, class N>
void put_int(N& dst, const J& v) {
    if (is_null_tree(v)) return;
    uint64_t u = uint_of(v, W);
    if constexpr (is_num<N>::value && std::is_integral<N>::value) {
        bool fits;
        if constexpr (S) {
            int64_t sv = sign_extend(u, W);
            dst = static_cast<N>(sv);
            fits = static_cast<int64_t>(dst) == sv && ((dst < 0) == (sv < 0));
        } else {
            dst = static_cast<N>(u);
            fits = !(std::is_signed<N>::value && dst < 0) && static_cast<uint64_t>(dst) == u;
        }
        if (!fits) cannot_hold(typeid(N), decl_int_name(W, S));
    } else if constexpr (std::is_floating_point<N>::value) {
        long double want = S ? static_cast<long double>(sign_extend(u, W)) : static_cast<long double>(u);
        dst = static_cast<N>(want);
        if (static_cast<long double>(dst) != want) cannot_hold(typeid(N), decl_int_name(W, S));
    } else {
        wrong_native(typeid(N), decl_int_name(W, S));
    }
}

template <std::size_t W, bool S, class N>
J get_int(const N& x) {
    if constexpr (is_num<N>::value && std::is_integral<N>::value) {
        bool fits;
        uint64_t u;
        if constexpr (S) {
            if (std::is_unsigned<N>::value && static_cast<uint64_t>(x) > static_cast<uint64_t>(INT64_MAX))
                return tx(std::to_string(x), "out of range for " + decl_int_name(W, S));
            int64_t sv = static_cast<int64_t>(x);
            int64_t lo = int_min(W), hi = int_max(W);
            fits = sv >= lo && sv <= hi;
            u = static_cast<uint64_t>(sv);
        } else {
            if (std::is_signed<N>::value && x < 0) return tx(std::to_string(x), "negative value for " + decl_int_name(W, S));
            u = static_cast<uint64_t>(x);
            fits = W == 8 || u <= ((uint64_t(1) << (8 * (W & 7))) - 1);
        }
        if (!fits) return tx(std::to_string(x), "out of range for " + decl_int_name(W, S));
        return tb_uint(u, W);
    } else if constexpr (std::is_floating_point<N>::value) {
        return tx(std::to_string(x), "floating-point member for " + decl_int_name(W, S));
    } else {
        return tx_native(typeid(N), decl_int_name(W, S));
    }
}

// ---- floats -----------------------------------------------------------------------------------
template <std::size_t W, class N>
void put_float(N& dst, const J& v) {
    static_assert(W == 4 || W == 8, "f32 / f64");
    if (is_null_tree(v)) return;
    if constexpr (std::is_floating_point<N>::value) {
        if constexpr (W == 4) {
            dst = static_cast<N>(f32_of(v));  // float -> float / double is exact
        } else {
            double d = f64_of(v);
            dst = static_cast<N>(d);
            if (!(static_cast<double>(dst) == d) && d == d) cannot_hold(typeid(N), "f64");
        }
    } else {
        wrong_native(typeid(N), W == 4 ? "f32" : "f64");
    }
}
template <std::size_t W, class N>
J get_float(const N& x) {
    static_assert(W == 4 || W == 8, "f32 / f64");
    if constexpr (std::is_floating_point<N>::value) {
        if constexpr (W == 4) {
            float f = static_cast<float>(x);
            if (!(static_cast<N>(f) == x) && x == x) return tx(std::to_string(x), "not representable as f32");
            return tb_f32(f);
        } else {
            return tb_f64(static_cast<double>(x));
        }
    } else if constexpr (is_num<N>::value) {
        return tx(std::to_string(x), "integer member for a float field");
    } else {
        return tx_native(typeid(N), W == 4 ? "f32" : "f64");
    }
}

// ---- char (one byte) --------------------------------------------------------------------------
template <class N>
void put_char(N& dst, const J& v) {
    if (is_null_tree(v)) return;
    uint8_t c = static_cast<uint8_t>(uint_of(v, 1));
    if constexpr (is_num<N>::value && std::is_integral<N>::value) {
        dst = static_cast<N>(c);
    } else if constexpr (std::is_same<N, std::string>::value) {
        dst.assign(1, static_cast<char>(c));
    } else {
        wrong_native(typeid(N), "char");
    }
}
template <class N>
J get_char(const N& x) {
    if constexpr (is_num<N>::value && std::is_integral<N>::value) {
        if (sizeof(N) > 1 && (x < 0 || static_cast<uint64_t>(x) > 255)) return tx(std::to_string(x), "out of range for char");
        return tb_uint(static_cast<uint8_t>(x), 1);
    } else if constexpr (std::is_same<N, std::string>::value) {
        return tb(x);
    } else {
        return tx_native(typeid(N), "char");
    }
}

// ---- strings (fix / dyn): UTF-8 bytes of the unpadded value -----------------------------------
template <class N>
void put_str(N& dst, const J& v) {
    if (is_null_tree(v)) return;
    if constexpr (std::is_same<N, std::string>::value) {
        dst = str_of(v);
    } else if constexpr (is_bytevec<N>::value) {
        std::string s = str_of(v);
        dst.clear();
        for (char x : s) dst.push_back(static_cast<typename N::value_type>(x));
    } else {
        wrong_native(typeid(N), "string");
    }
}
template <class N>
J get_str(const N& x) {
    if constexpr (std::is_same<N, std::string>::value) {
        return tb(x);
    } else if constexpr (is_bytevec<N>::value) {
        std::string s;
        for (auto c : x) s.push_back(static_cast<char>(c));
        return tb(s);
    } else if constexpr (std::is_same<N, const char*>::value || std::is_same<N, char*>::value) {
        return x ? tb(std::string(x)) : tn();
    } else if constexpr (is_num<N>::value) {
        return tx(std::to_string(x), "numeric member for a string field");
    } else {
        return tx_native(typeid(N), "string");
    }
}

// ---- repeated fields --------------------------------------------------------------------------
// elem(e, x) fills one value-initialised element from the tree x;  elem(e) reads one element
template <class N, class F>
void put_list(N& dst, const J& v, F elem) {
    if (is_null_tree(v)) return;
    if (!is_list_tree(v)) throw BuildError("value tree: list expected");
    if constexpr (is_vec<N>::value) {
        using E = typename N::value_type;
        const J& xs = v["xs"];
        dst.clear();
        for (std::size_t k = 0; k < xs.size(); k++) {
            E e{};
            elem(e, xs.at(k));
            dst.push_back(std::move(e));
        }
    } else {
        throw MemberMismatch("native member of type " + demangle(typeid(N).name()) + " for a repeated field");
    }
}
template <class N, class F>
J get_list(const N& x, F elem) {
    if constexpr (is_vec<N>::value) {
        J xs = J::arr();
        for (const auto& e : x) xs.push(elem(e));
        return tl(std::move(xs));
    } else {
        return tx_native(typeid(N), "repeated field");
    }
}

// ---- match payloads: owning pointer to the codec base ------------------------------------------
template <class X> const X* raw(const std::unique_ptr<X>& p) { return p.get(); }
template <class X> const X* raw(const std::shared_ptr<X>& p) { return p.get(); }
template <class X> const X* raw(X* const& p) { return p; }
template <class X> const X* raw(const X* const& p) { return p; }

template <class D, class T>
void assign_ptr(D& dst, std::unique_ptr<T> p) {
    if constexpr (std::is_pointer<D>::value) dst = p.release();
    else dst = std::move(p);
}

// ------------------------------------------------------------------------------------------------
// runner: one type-erased entry per packet named by an op
struct Ops {
    std::string pkt;
    void* (*create)();                        // value-initialised emitted object
    void (*destroy)(void*);
    codec::BinaryCodec* (*codec)(void*);
    void (*build)(void*, const J& fs);        // value tree -> native (throws MemberMismatch / anything)
    J (*read)(const void*);                   // native -> list of field trees
};

template <class T, void (*B)(T&, const J&), J (*R)(const T&)>
Ops make_ops(const char* pkt) {
    Ops o;
    o.pkt = pkt;
    o.create = []() -> void* { return new T{}; };
    o.destroy = [](void* p) { delete static_cast<T*>(p); };
    o.codec = [](void* p) -> codec::BinaryCodec* { return static_cast<T*>(p); };
    o.build = [](void* p, const J& fs) { B(*static_cast<T*>(p), fs); };
    o.read = [](const void* p) -> J { return R(*static_cast<const T*>(p)); };
    return o;
}

int run(int argc, char** argv, const std::vector<Ops>& table);

}  // namespace drv

// ====================================================================================================
#ifdef DRV_IMPLEMENTATION
#include <cstdio>
#include <cstdlib>
#include <cstring>
#include <cxxabi.h>
#include <fstream>
#include <iterator>
#include <sstream>
#include <unistd.h>

namespace drv {

J::J() = default;
J::J(const J&) = default;
J::J(J&&) noexcept = default;
J& J::operator=(const J&) = default;
J& J::operator=(J&&) noexcept = default;
J::~J() = default;
J::J(bool v) : kind(Bool), b(v) {}
J::J(int v) : kind(Int), i(v) {}
J::J(long v) : kind(Int), i(v) {}
J::J(long long v) : kind(Int), i(v) {}
J::J(unsigned v) : kind(Int), i(v) {}
J::J(unsigned long v) : kind(Int), i(static_cast<long long>(v)) {}
J::J(unsigned long long v) : kind(Int), i(static_cast<long long>(v)) {}
J::J(const char* v) : kind(Str), s(v) {}
J::J(const std::string& v) : kind(Str), s(v) {}
J J::arr() { J j; j.kind = Arr; return j; }
J J::obj() { J j; j.kind = Obj; return j; }
static const J NULL_J;
const J& J::operator[](const char* key) const {
    for (const auto& kv : o) if (kv.first == key) return kv.second;
    return NULL_J;
}
const J& J::at(std::size_t idx) const { return idx < a.size() ? a[idx] : NULL_J; }
std::size_t J::size() const { return kind == Arr ? a.size() : o.size(); }
J& J::set(const std::string& key, J v) {
    for (auto& kv : o) if (kv.first == key) { kv.second = std::move(v); return *this; }
    kind = Obj;
    o.emplace_back(key, std::move(v));
    return *this;
}
J& J::push(J v) { kind = Arr; a.push_back(std::move(v)); return *this; }

namespace {
struct Parser {
    const std::string& t;
    std::size_t p = 0;
    explicit Parser(const std::string& text) : t(text) {}
    [[noreturn]] void fail(const char* m) { throw std::runtime_error(std::string("json: ") + m + " at " + std::to_string(p)); }
    void ws() { while (p < t.size() && (t[p] == ' ' || t[p] == '\n' || t[p] == '\t' || t[p] == '\r')) p++; }
    static void utf8(std::string& out, unsigned cp) {
        if (cp < 0x80) out += static_cast<char>(cp);
        else if (cp < 0x800) { out += static_cast<char>(0xC0 | (cp >> 6)); out += static_cast<char>(0x80 | (cp & 0x3F)); }
        else if (cp < 0x10000) { out += static_cast<char>(0xE0 | (cp >> 12)); out += static_cast<char>(0x80 | ((cp >> 6) & 0x3F)); out += static_cast<char>(0x80 | (cp & 0x3F)); }
        else { out += static_cast<char>(0xF0 | (cp >> 18)); out += static_cast<char>(0x80 | ((cp >> 12) & 0x3F)); out += static_cast<char>(0x80 | ((cp >> 6) & 0x3F)); out += static_cast<char>(0x80 | (cp & 0x3F)); }
    }
    unsigned hex4() {
        if (p + 4 > t.size()) fail("short \\u escape");
        unsigned v = 0;
        for (int k = 0; k < 4; k++) {
            char c = t[p++];
            v <<= 4;
            if (c >= '0' && c <= '9') v |= c - '0';
            else if (c >= 'a' && c <= 'f') v |= c - 'a' + 10;
            else if (c >= 'A' && c <= 'F') v |= c - 'A' + 10;
            else fail("bad \\u escape");
        }
        return v;
    }
    std::string string() {
        std::string out;
        p++;  // opening quote
        while (true) {
            if (p >= t.size()) fail("unterminated string");
            char c = t[p++];
            if (c == '"') return out;
            if (c != '\\') { out += c; continue; }
            if (p >= t.size()) fail("unterminated escape");
            char e = t[p++];
            switch (e) {
                case 'n': out += '\n'; break;
                case 't': out += '\t'; break;
                case 'r': out += '\r'; break;
                case 'b': out += '\b'; break;
                case 'f': out += '\f'; break;
                case 'u': {
                    unsigned cp = hex4();
                    if (cp >= 0xD800 && cp < 0xDC00 && p + 1 < t.size() && t[p] == '\\' && t[p + 1] == 'u') {
                        p += 2;
                        unsigned lo = hex4();
                        cp = 0x10000 + ((cp - 0xD800) << 10) + (lo - 0xDC00);
                    }
                    utf8(out, cp);
                    break;
                }
                default: out += e;
            }
        }
    }
    J value() {
        ws();
        if (p >= t.size()) fail("unexpected end");
        char c = t[p];
        if (c == '{') {
            J j = J::obj();
            p++;
            ws();
            if (p < t.size() && t[p] == '}') { p++; return j; }
            while (true) {
                ws();
                if (p >= t.size() || t[p] != '"') fail("key expected");
                std::string k = string();
                ws();
                if (p >= t.size() || t[p] != ':') fail("':' expected");
                p++;
                j.o.emplace_back(std::move(k), value());
                ws();
                if (p < t.size() && t[p] == ',') { p++; continue; }
                if (p < t.size() && t[p] == '}') { p++; return j; }
                fail("',' or '}' expected");
            }
        }
        if (c == '[') {
            J j = J::arr();
            p++;
            ws();
            if (p < t.size() && t[p] == ']') { p++; return j; }
            while (true) {
                j.a.push_back(value());
                ws();
                if (p < t.size() && t[p] == ',') { p++; continue; }
                if (p < t.size() && t[p] == ']') { p++; return j; }
                fail("',' or ']' expected");
            }
        }
        if (c == '"') return J(string());
        if (t.compare(p, 4, "true") == 0) { p += 4; return J(true); }
        if (t.compare(p, 5, "false") == 0) { p += 5; return J(false); }
        if (t.compare(p, 4, "null") == 0) { p += 4; return J(); }
        std::size_t q = p;
        bool isint = true;
        if (q < t.size() && (t[q] == '-' || t[q] == '+')) q++;
        while (q < t.size() && ((t[q] >= '0' && t[q] <= '9') || t[q] == '.' || t[q] == 'e' || t[q] == 'E' || t[q] == '-' || t[q] == '+')) {
            if (t[q] == '.' || t[q] == 'e' || t[q] == 'E') isint = false;
            q++;
        }
        if (q == p) fail("value expected");
        std::string num = t.substr(p, q - p);
        p = q;
        J j;
        if (isint) { j.kind = J::Int; j.i = std::strtoll(num.c_str(), nullptr, 10); }
        else { j.kind = J::Dbl; j.d = std::strtod(num.c_str(), nullptr); }
        return j;
    }
};

void dump_str(std::string& out, const std::string& s) {
    static const char* hex = "0123456789abcdef";
    out += '"';
    for (unsigned char c : s) {
        if (c == '"') out += "\\\"";
        else if (c == '\\') out += "\\\\";
        else if (c == '\n') out += "\\n";
        else if (c == '\t') out += "\\t";
        else if (c < 0x20 || c >= 0x7F) {  // bytes, not code points: the line stays valid JSON whatever the text is
            out += "\\u00";
            out += hex[c >> 4];
            out += hex[c & 15];
        } else out += static_cast<char>(c);
    }
    out += '"';
}
void dump_to(std::string& out, const J& j) {
    switch (j.kind) {
        case J::Null: out += "null"; break;
        case J::Bool: out += j.b ? "true" : "false"; break;
        case J::Int: out += std::to_string(j.i); break;
        case J::Dbl: { std::ostringstream oss; oss << j.d; out += oss.str(); break; }
        case J::Str: dump_str(out, j.s); break;
        case J::Arr: {
            out += '[';
            for (std::size_t k = 0; k < j.a.size(); k++) { if (k) out += ','; dump_to(out, j.a[k]); }
            out += ']';
            break;
        }
        case J::Obj: {
            out += '{';
            for (std::size_t k = 0; k < j.o.size(); k++) { if (k) out += ','; dump_str(out, j.o[k].first); out += ':'; dump_to(out, j.o[k].second); }
            out += '}';
            break;
        }
    }
}
}  // namespace

J parse(const std::string& text) {
    Parser p(text);
    return p.value();
}
std::string dump(const J& j) {
    std::string out;
    dump_to(out, j);
    return out;
}

J jbytes(const uint8_t* p, std::size_t n) {
    J a = J::arr();
    a.a.reserve(n);
    for (std::size_t k = 0; k < n; k++) a.a.emplace_back(static_cast<int>(p[k]));
    return a;
}
Bytes bytes_of_array(const J& a) {
    Bytes out;
    out.reserve(a.a.size());
    for (const J& x : a.a) out.push_back(static_cast<uint8_t>(x.num() & 0xFF));
    return out;
}
J tb(const Bytes& b) { J j = J::obj(); j.set("t", "b"); j.set("b", jbytes(b.data(), b.size())); return j; }
J tb(const std::string& s) { J j = J::obj(); j.set("t", "b"); j.set("b", jbytes(reinterpret_cast<const uint8_t*>(s.data()), s.size())); return j; }
J tb_uint(uint64_t u, std::size_t width) {
    Bytes b(width);
    for (std::size_t k = 0; k < width; k++) b[k] = static_cast<uint8_t>((u >> (8 * (width - 1 - k))) & 0xFF);
    return tb(b);
}
J tb_f32(float f) { Bytes b(4); verif::to_bytes<float>(f, b.data(), false); return tb(b); }
J tb_f64(double d) { Bytes b(8); verif::to_bytes<double>(d, b.data(), false); return tb(b); }
J tn() { J j = J::obj(); j.set("t", "n"); return j; }
J tx(const std::string& repr, const std::string& why) {
    J j = J::obj();
    j.set("t", "x");
    j.set("repr", repr.substr(0, 80));
    if (!why.empty()) j.set("err", why);
    return j;
}
J tl(J xs) { J j = J::obj(); j.set("t", "l"); xs.kind = J::Arr; j.set("xs", std::move(xs)); return j; }
J to(J fs) { J j = J::obj(); j.set("t", "o"); fs.kind = J::Arr; j.set("fs", std::move(fs)); return j; }
J tm(const std::string& pkt, J fs) { J j = J::obj(); j.set("t", "m"); j.set("pkt", pkt); fs.kind = J::Arr; j.set("fs", std::move(fs)); return j; }

bool is_null_tree(const J& v) { return v["t"].str() == "n"; }
bool is_list_tree(const J& v) { return v["t"].str() == "l"; }
static Bytes scalar_bytes(const J& v, std::size_t want) {
    if (v["t"].str() != "b") throw BuildError("value tree: scalar expected, got t=" + v["t"].str());
    Bytes b = bytes_of_array(v["b"]);
    if (want && b.size() != want) throw BuildError("value tree: " + std::to_string(b.size()) + " bytes for a " + std::to_string(want) + "-byte scalar");
    return b;
}
uint64_t uint_of(const J& v, std::size_t width) {
    uint64_t u = 0;
    for (uint8_t x : scalar_bytes(v, width)) u = (u << 8) | x;
    return u;
}
float f32_of(const J& v) { Bytes b = scalar_bytes(v, 4); return verif::from_bytes<float>(b.data(), false); }
double f64_of(const J& v) { Bytes b = scalar_bytes(v, 8); return verif::from_bytes<double>(b.data(), false); }
std::string str_of(const J& v) {
    Bytes b = scalar_bytes(v, 0);
    return std::string(reinterpret_cast<const char*>(b.data()), b.size());
}
void check_count(const char* type, std::size_t declared, const J& fs) {
    if (fs.size() != declared)
        throw MemberMismatch(std::string("value for ") + type + " has " + std::to_string(fs.size()) + " entries for " + std::to_string(declared) + " declared fields");
}
std::string demangle(const char* name) {
    int st = 0;
    char* d = abi::__cxa_demangle(name, nullptr, nullptr, &st);
    std::string out = (st == 0 && d) ? d : name;
    std::free(d);
    return out;
}
std::string decl_int_name(std::size_t width, bool sign) { return std::string(sign ? "i" : "u") + std::to_string(8 * width); }
void cannot_hold(const std::type_info& native, const std::string& declared) {
    throw BuildError("native member of type " + demangle(native.name()) + " cannot hold the declared " + declared + " value");
}
void wrong_native(const std::type_info& native, const std::string& declared) {
    throw BuildError("native member of type " + demangle(native.name()) + " for a declared " + declared + " field");
}
J tx_native(const std::type_info& native, const std::string& declared) {
    return tx("<" + demangle(native.name()) + ">", "native type for a declared " + declared + " field");
}

// ---- op loop ------------------------------------------------------------------------------------
static std::string errinfo(const std::exception& e) {
    std::string w = e.what();
    return demangle(typeid(e).name()) + ": " + w.substr(0, 200);
}
static std::string errinfo_unknown() {
    if (std::type_info* t = abi::__cxa_current_exception_type()) return demangle(t->name());
    return "unknown exception";
}
static void fail(J& ev, const char* cls, const std::string& err) {
    ev.set("ok", false);
    ev.set("cls", cls);
    ev.set("err", err);
}
static J prims_of_trace() {
    J prims = J::arr();
    for (const verif::Prim& p : verif::trace()) {
        if (p.kind == 'c') continue;
        J e = J::arr();
        e.push(p.kind == 'a' ? "append" : "set");
        e.push(static_cast<unsigned long long>(p.pos));
        e.push(jbytes(p.bytes.data(), p.bytes.size()));
        prims.push(std::move(e));
    }
    return prims;
}
static J calcs_of_trace() {
    J calcs = J::arr();
    for (const verif::Prim& p : verif::trace()) {
        if (p.kind != 'c') continue;
        J e = J::arr();
        e.push(static_cast<unsigned long long>(p.pos));
        e.push(static_cast<unsigned long long>(p.value));
        calcs.push(std::move(e));
    }
    return calcs;
}

namespace {
struct Holder {  // owns one emitted object
    const Ops& ops;
    void* p;
    explicit Holder(const Ops& o) : ops(o), p(o.create()) {}
    ~Holder() { ops.destroy(p); }
    codec::BinaryCodec& codec() { return *ops.codec(p); }
};
}  // namespace

static void run_enc(const Ops& ops, const J& op, J& ev, bool into) {
    Holder h(ops);
    try {
        ops.build(h.p, op["val"]["fs"]);
    } catch (const MemberMismatch& e) {
        return fail(ev, "member-missing", e.what());
    } catch (const std::exception& e) {
        return fail(ev, "build-raises", errinfo(e));
    } catch (...) {
        return fail(ev, "build-raises", errinfo_unknown());
    }
    try {
        ByteBuf buf;
        if (into) {  // encinto: the output buffer is USED: it already holds the bytes `pre`, the first `rd` of them consumed
            Bytes pre = bytes_of_array(op["pre"]);
            buf.write_bytes(pre);
            buf.skip_bytes(static_cast<std::size_t>(op["rd"].num()));
        }
        verif::trace().clear();
        verif::tracing() = true;
        static_cast<const codec::BinaryCodec&>(h.codec()).encode(buf);
        verif::tracing() = false;
        ev.set("ok", true);
        ev.set("bytes", jbytes(buf.data() + buf.reader_index(), buf.readable_bytes()));  // the READABLE content: [reader index, writer index)
        ev.set("prims", prims_of_trace());
        ev.set("calcs", calcs_of_trace());
    } catch (const std::exception& e) {
        verif::tracing() = false;
        fail(ev, "encode-raises", errinfo(e));
    } catch (...) {
        verif::tracing() = false;
        fail(ev, "encode-raises", errinfo_unknown());
    }
}

static void run_dec(const Ops& ops, const J& op, J& ev, bool reenc) {
    Bytes data = bytes_of_array(op["bytes"]);
    Bytes tail = bytes_of_array(op["tail"]);
    data.insert(data.end(), tail.begin(), tail.end());
    ByteBuf buf(data);
    // "reuse": decode into the object the previous dec op of this packet used (it is then kept alive for the
    // next op and deliberately never destroyed), otherwise into a fresh one
    static std::map<std::string, void*> last;
    const bool reuse = op["reuse"].kind == J::Bool && op["reuse"].b && last.count(ops.pkt) != 0;
    struct Ref {
        const Ops& ops;
        void* p;
        codec::BinaryCodec& codec() { return *ops.codec(p); }
    } h{ops, reuse ? last[ops.pkt] : ops.create()};
    last[ops.pkt] = h.p;
    try {
        h.codec().decode(buf);
    } catch (const std::exception& e) {
        fail(ev, "decode-raises", errinfo(e));
        ev.set("consumed", static_cast<unsigned long long>(buf.reader_index()));
        return;
    } catch (...) {
        fail(ev, "decode-raises", errinfo_unknown());
        ev.set("consumed", static_cast<unsigned long long>(buf.reader_index()));
        return;
    }
    ev.set("ok", true);
    ev.set("consumed", static_cast<unsigned long long>(buf.reader_index()));
    try {
        ev.set("val", to(ops.read(h.p)));
    } catch (const MemberMismatch& e) {
        return fail(ev, "member-missing", e.what());
    } catch (const std::exception& e) {
        return fail(ev, "read-raises", errinfo(e));
    } catch (...) {
        return fail(ev, "read-raises", errinfo_unknown());
    }
    if (reenc) {
        try {
            ByteBuf b2;
            static_cast<const codec::BinaryCodec&>(h.codec()).encode(b2);
            ev.set("reenc", jbytes(b2.data(), b2.writer_index()));
        } catch (const std::exception& e) {
            ev.set("reenc_err", errinfo(e));
        } catch (...) {
            ev.set("reenc_err", errinfo_unknown());
        }
    }
}

int run(int argc, char** argv, const std::vector<Ops>& table) {
    // the event stream owns the original stdout; whatever the emitted code prints goes to stderr
    std::fflush(stdout);
    int evfd = dup(1);
    dup2(2, 1);
    const char* casefile = nullptr;
    long skip = 0;
    for (int k = 1; k < argc; k++) {
        if (std::strcmp(argv[k], "--skip") == 0 && k + 1 < argc) skip = std::atol(argv[++k]);
        else casefile = argv[k];
    }
    if (!casefile) {
        std::fprintf(stderr, "usage: driver <ops.json> [--skip k]\n");
        return 2;
    }
    J ops;
    try {
        std::ifstream in(casefile, std::ios::binary);
        if (!in) throw std::runtime_error("cannot open case file");
        std::string text((std::istreambuf_iterator<char>(in)), std::istreambuf_iterator<char>());
        ops = parse(text)["ops"];
    } catch (const std::exception& e) {
        std::fprintf(stderr, "driver: %s: %s\n", casefile, e.what());
        return 2;
    }
    for (std::size_t k = static_cast<std::size_t>(skip < 0 ? 0 : skip); k < ops.a.size(); k++) {
        const J& op = ops.a[k];
        const std::string& kind = op["op"].str();
        J ev = J::obj();
        ev.set("ev", kind);
        ev.set("id", op["id"]);
        const Ops* po = nullptr;
        for (const Ops& cand : table) if (cand.pkt == op["pkt"].str()) po = &cand;
        if (kind == "enc" || kind == "encinto") {
            if (kind == "encinto") {
                ev.set("pre", static_cast<unsigned long long>(op["pre"].size()));
                ev.set("rd", op["rd"].num());
            }
            if (!po) fail(ev, "member-missing", "no emitted type for packet " + op["pkt"].str());
            else run_enc(*po, op, ev, kind == "encinto");
        } else if (kind == "dec" || kind == "deckey") {
            ev.set("tail", static_cast<unsigned long long>(op["tail"].size()));
            if (!po) fail(ev, "member-missing", "no emitted type for packet " + op["pkt"].str());
            else run_dec(*po, op, ev, kind == "dec");
        } else {
            fail(ev, "build-raises", "unknown op kind " + kind);
        }
        std::string line = dump(ev);
        line += '\n';
        std::size_t off = 0;
        while (off < line.size()) {
            ssize_t w = write(evfd, line.data() + off, line.size() - off);
            if (w <= 0) return 3;
            off += static_cast<std::size_t>(w);
        }
    }
    return 0;
}

}  // namespace drv
#endif  // DRV_IMPLEMENTATION
