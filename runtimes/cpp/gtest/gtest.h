// Stand-in for <gtest/gtest.h> (googletest is not installed): TEST / TEST_F, EXPECT_* / ASSERT_* with
// optional `<< message`, a registry and a runner.  The runner (main) lives in gtest_main.cpp, which the
// plug-in links to every emitted test; define GTEST_STANDIN_MAIN before including this header to get a
// main in a single-TU build instead.
//
// Runner output (parsed by harness/lang_cpp.py):
//   [ RUN      ] Suite.Name        before each test (flushed, so a crash is attributable)
//   [       OK ] Suite.Name  /  [  FAILED  ] Suite.Name
//   VERIF_GTEST total=<registered> ran=<n> passed=<p> failed=<f>
// `--skip k` skips the first k registered tests (restart after a crash).
#pragma once
#include <cmath>
#include <cstdio>
#include <cstdlib>
#include <cstring>
#include <exception>
#include <iostream>
#include <limits>
#include <sstream>
#include <string>
#include <type_traits>
#include <utility>
#include <vector>

namespace testing {

class Test {
public:
    virtual ~Test() = default;
    virtual void SetUp() {}
    virtual void TearDown() {}
    virtual void TestBody() = 0;
    void Run() {
        SetUp();
        TestBody();
        TearDown();
    }
};

namespace internal {
struct TestCase {
    std::string suite, name;
    void (*fn)();
};
inline std::vector<TestCase>& registry() {
    static std::vector<TestCase> r;
    return r;
}
inline int& current_failures() {
    static int n = 0;
    return n;
}
struct Registrar {
    Registrar(const char* suite, const char* name, void (*fn)()) { registry().push_back(TestCase{suite, name, fn}); }
};
template <class F> void run_fixture() {
    F f;
    f.Run();
}

// printing operands when they can be streamed
template <class T, class = void> struct streamable : std::false_type {};
template <class T> struct streamable<T, decltype(void(std::declval<std::ostream&>() << std::declval<const T&>()))> : std::true_type {};
template <class T> std::string show(const T& v) {
    if constexpr (std::is_same<T, bool>::value) {
        return v ? "true" : "false";
    } else if constexpr (std::is_integral<T>::value && sizeof(T) == 1) {
        return std::to_string(static_cast<int>(v));
    } else if constexpr (std::is_same<T, std::nullptr_t>::value) {
        return "nullptr";
    } else if constexpr (streamable<T>::value) {
        std::ostringstream oss;
        oss << v;
        return oss.str();
    } else {
        return "<object of " + std::to_string(sizeof(T)) + " bytes>";
    }
}

// One assertion outcome; reports in its destructor so that `EXPECT_x(..) << "text"` works.
class Result {
public:
    Result(bool ok, const char* file, int line, std::string text) : ok_(ok), file_(file), line_(line), text_(std::move(text)) {}
    Result(Result&& o) : ok_(o.ok_), file_(o.file_), line_(o.line_), text_(std::move(o.text_)) {
        msg_ << o.msg_.str();
        o.ok_ = true;
    }
    Result(const Result&) = delete;
    ~Result() {
        if (ok_) return;
        current_failures()++;
        std::cout << file_ << ":" << line_ << ": Failure\n" << text_ << "\n";
        std::string m = msg_.str();
        if (!m.empty()) std::cout << m << "\n";
        std::cout.flush();
    }
    template <class T> Result& operator<<(const T& v) {
        if (!ok_) msg_ << show(v);
        return *this;
    }
    Result& operator<<(const char* s) {
        if (!ok_ && s) msg_ << s;
        return *this;
    }
    Result& operator<<(std::ostream& (*manip)(std::ostream&)) {
        if (!ok_) msg_ << manip;
        return *this;
    }
    bool ok() const { return ok_; }

private:
    bool ok_;
    const char* file_;
    int line_;
    std::string text_;
    std::ostringstream msg_;
};
struct Voidify {
    void operator&(const Result&) const {}
};

template <class A, class B> std::string binary_text(const char* macro, const char* ea, const char* eb, const A& a, const B& b) {
    return std::string(macro) + "(" + ea + ", " + eb + ")\n  left : " + show(a) + "\n  right: " + show(b);
}
#if defined(__GNUC__)
#pragma GCC diagnostic push
#pragma GCC diagnostic ignored "-Wsign-compare"
#endif
struct OpEQ { template <class A, class B> static bool ap(const A& a, const B& b) { return a == b; } };
struct OpNE { template <class A, class B> static bool ap(const A& a, const B& b) { return a != b; } };
struct OpLT { template <class A, class B> static bool ap(const A& a, const B& b) { return a < b; } };
struct OpLE { template <class A, class B> static bool ap(const A& a, const B& b) { return a <= b; } };
struct OpGT { template <class A, class B> static bool ap(const A& a, const B& b) { return a > b; } };
struct OpGE { template <class A, class B> static bool ap(const A& a, const B& b) { return a >= b; } };
#if defined(__GNUC__)
#pragma GCC diagnostic pop
#endif
template <class Op, class A, class B>
Result compare(const char* macro, const char* ea, const char* eb, const A& a, const B& b, const char* file, int line) {
    bool ok = Op::ap(a, b);
    return Result(ok, file, line, ok ? std::string() : binary_text(macro, ea, eb, a, b));
}
inline bool streq(const char* a, const char* b) {
    if (!a || !b) return a == b;
    return std::strcmp(a, b) == 0;
}
template <class F> bool almost(F a, F b) {
    if (a == b) return true;
    F scale = std::fmax(std::fabs(a), std::fabs(b));
    return std::fabs(a - b) <= scale * 4 * std::numeric_limits<F>::epsilon();
}
}  // namespace internal

inline void InitGoogleTest(int* = nullptr, char** = nullptr) {}

// Runs every registered test from index `skip` on; returns the number of failed tests.
inline int RunAllTests(int skip = 0) {
    auto& reg = internal::registry();
    int ran = 0, passed = 0, failed = 0;
    for (std::size_t i = static_cast<std::size_t>(skip < 0 ? 0 : skip); i < reg.size(); i++) {
        const auto& t = reg[i];
        std::cout << "[ RUN      ] " << t.suite << "." << t.name << std::endl;
        internal::current_failures() = 0;
        try {
            t.fn();
        } catch (const std::exception& e) {
            internal::current_failures()++;
            std::cout << "uncaught exception: " << e.what() << "\n";
        } catch (...) {
            internal::current_failures()++;
            std::cout << "uncaught exception of unknown type\n";
        }
        ran++;
        if (internal::current_failures() == 0) {
            passed++;
            std::cout << "[       OK ] " << t.suite << "." << t.name << std::endl;
        } else {
            failed++;
            std::cout << "[  FAILED  ] " << t.suite << "." << t.name << std::endl;
        }
    }
    std::cout << "VERIF_GTEST total=" << reg.size() << " ran=" << ran << " passed=" << passed << " failed=" << failed << std::endl;
    return failed;
}
inline int StandInMain(int argc, char** argv) {
    int skip = 0;
    for (int i = 1; i < argc; i++) {
        if (std::strcmp(argv[i], "--skip") == 0 && i + 1 < argc) skip = std::atoi(argv[++i]);
    }
    return RunAllTests(skip) == 0 ? 0 : 1;
}
}  // namespace testing

#define RUN_ALL_TESTS() (::testing::RunAllTests() == 0 ? 0 : 1)

#define VERIF_GT_NAME(suite, name) suite##_##name##_VerifTest
#define TEST(suite, name)                                                                                              \
    static void VERIF_GT_NAME(suite, name)();                                                                          \
    static ::testing::internal::Registrar VERIF_GT_NAME(suite, name##_reg)(#suite, #name, &VERIF_GT_NAME(suite, name)); \
    static void VERIF_GT_NAME(suite, name)()
#define TEST_F(fixture, name)                                                                                          \
    class VERIF_GT_NAME(fixture, name) : public fixture {                                                              \
    public:                                                                                                            \
        void TestBody() override;                                                                                      \
    };                                                                                                                 \
    static ::testing::internal::Registrar VERIF_GT_NAME(fixture, name##_reg)(                                          \
        #fixture, #name, &::testing::internal::run_fixture<VERIF_GT_NAME(fixture, name)>);                             \
    void VERIF_GT_NAME(fixture, name)::TestBody()

#define VERIF_GT_EXPECT(ok, text) ::testing::internal::Result(static_cast<bool>(ok), __FILE__, __LINE__, text)
#define VERIF_GT_ASSERT(res) \
    if (auto verif_gt_r = (res); verif_gt_r.ok()) {} else return ::testing::internal::Voidify() & verif_gt_r

#define EXPECT_TRUE(c) VERIF_GT_EXPECT((c), "EXPECT_TRUE(" #c ") is false")
#define EXPECT_FALSE(c) VERIF_GT_EXPECT(!(c), "EXPECT_FALSE(" #c ") is true")
#define ASSERT_TRUE(c) VERIF_GT_ASSERT(VERIF_GT_EXPECT((c), "ASSERT_TRUE(" #c ") is false"))
#define ASSERT_FALSE(c) VERIF_GT_ASSERT(VERIF_GT_EXPECT(!(c), "ASSERT_FALSE(" #c ") is true"))

#define VERIF_GT_CMP(macro, op, a, b) ::testing::internal::compare<::testing::internal::op>(macro, #a, #b, (a), (b), __FILE__, __LINE__)
#define EXPECT_EQ(a, b) VERIF_GT_CMP("EXPECT_EQ", OpEQ, a, b)
#define EXPECT_NE(a, b) VERIF_GT_CMP("EXPECT_NE", OpNE, a, b)
#define EXPECT_LT(a, b) VERIF_GT_CMP("EXPECT_LT", OpLT, a, b)
#define EXPECT_LE(a, b) VERIF_GT_CMP("EXPECT_LE", OpLE, a, b)
#define EXPECT_GT(a, b) VERIF_GT_CMP("EXPECT_GT", OpGT, a, b)
#define EXPECT_GE(a, b) VERIF_GT_CMP("EXPECT_GE", OpGE, a, b)
#define ASSERT_EQ(a, b) VERIF_GT_ASSERT(VERIF_GT_CMP("ASSERT_EQ", OpEQ, a, b))
#define ASSERT_NE(a, b) VERIF_GT_ASSERT(VERIF_GT_CMP("ASSERT_NE", OpNE, a, b))
#define ASSERT_LT(a, b) VERIF_GT_ASSERT(VERIF_GT_CMP("ASSERT_LT", OpLT, a, b))
#define ASSERT_LE(a, b) VERIF_GT_ASSERT(VERIF_GT_CMP("ASSERT_LE", OpLE, a, b))
#define ASSERT_GT(a, b) VERIF_GT_ASSERT(VERIF_GT_CMP("ASSERT_GT", OpGT, a, b))
#define ASSERT_GE(a, b) VERIF_GT_ASSERT(VERIF_GT_CMP("ASSERT_GE", OpGE, a, b))

#define EXPECT_STREQ(a, b) VERIF_GT_EXPECT(::testing::internal::streq((a), (b)), "EXPECT_STREQ(" #a ", " #b ") differs")
#define EXPECT_STRNE(a, b) VERIF_GT_EXPECT(!::testing::internal::streq((a), (b)), "EXPECT_STRNE(" #a ", " #b ") equal")
#define ASSERT_STREQ(a, b) VERIF_GT_ASSERT(VERIF_GT_EXPECT(::testing::internal::streq((a), (b)), "ASSERT_STREQ(" #a ", " #b ") differs"))
#define ASSERT_STRNE(a, b) VERIF_GT_ASSERT(VERIF_GT_EXPECT(!::testing::internal::streq((a), (b)), "ASSERT_STRNE(" #a ", " #b ") equal"))

#define EXPECT_FLOAT_EQ(a, b) VERIF_GT_EXPECT(::testing::internal::almost<float>((a), (b)), "EXPECT_FLOAT_EQ(" #a ", " #b ") differs")
#define EXPECT_DOUBLE_EQ(a, b) VERIF_GT_EXPECT(::testing::internal::almost<double>((a), (b)), "EXPECT_DOUBLE_EQ(" #a ", " #b ") differs")
#define EXPECT_NEAR(a, b, eps) VERIF_GT_EXPECT(std::fabs(static_cast<double>(a) - static_cast<double>(b)) <= (eps), "EXPECT_NEAR(" #a ", " #b ", " #eps ") differs")
#define ASSERT_FLOAT_EQ(a, b) VERIF_GT_ASSERT(EXPECT_FLOAT_EQ(a, b))
#define ASSERT_DOUBLE_EQ(a, b) VERIF_GT_ASSERT(EXPECT_DOUBLE_EQ(a, b))
#define ASSERT_NEAR(a, b, eps) VERIF_GT_ASSERT(EXPECT_NEAR(a, b, eps))

#define VERIF_GT_LAMBDA_RESULT(body, text) ::testing::internal::Result([&]() -> bool { body }(), __FILE__, __LINE__, text)
#define EXPECT_THROW(stmt, ex) \
    VERIF_GT_LAMBDA_RESULT(try { stmt; } catch (const ex&) { return true; } catch (...) { return false; } return false;, \
                           "EXPECT_THROW(" #stmt ", " #ex ") did not throw it")
#define EXPECT_ANY_THROW(stmt) \
    VERIF_GT_LAMBDA_RESULT(try { stmt; } catch (...) { return true; } return false;, "EXPECT_ANY_THROW(" #stmt ") did not throw")
#define EXPECT_NO_THROW(stmt) \
    VERIF_GT_LAMBDA_RESULT(try { stmt; } catch (...) { return false; } return true;, "EXPECT_NO_THROW(" #stmt ") threw")
#define ASSERT_THROW(stmt, ex) VERIF_GT_ASSERT(EXPECT_THROW(stmt, ex))
#define ASSERT_ANY_THROW(stmt) VERIF_GT_ASSERT(EXPECT_ANY_THROW(stmt))
#define ASSERT_NO_THROW(stmt) VERIF_GT_ASSERT(EXPECT_NO_THROW(stmt))

#define SUCCEED() VERIF_GT_EXPECT(true, "")
#define ADD_FAILURE() VERIF_GT_EXPECT(false, "ADD_FAILURE()")
#define FAIL() VERIF_GT_ASSERT(VERIF_GT_EXPECT(false, "FAIL()"))

#ifdef GTEST_STANDIN_MAIN
int main(int argc, char** argv) { return ::testing::StandInMain(argc, argv); }
#endif
