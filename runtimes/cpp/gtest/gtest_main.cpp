// Runner for the gtest stand-in: linked to every emitted test by harness/lang_cpp.py.
// The symbol is weak so that a test file bringing its own main() wins.
#include "gtest/gtest.h"

__attribute__((weak)) int main(int argc, char** argv) { return ::testing::StandInMain(argc, argv); }
