// Package codec is the reference runtime for the Go code fin-protoc emits (verification project,
// see /verif/harness/PROTOCOL.md section 6).  The API surface is what go_generator.go can print; the
// meaning of every helper is what its name and arguments state:
//
//   - scalars: fixed width, big-endian without suffix, little-endian with the LE suffix;
//   - strings: a length prefix of type P (counting UTF-8 bytes) followed by the bytes;
//   - lists: an element-count prefix of type P followed by the elements;
//   - fixed strings: exactly n bytes, padded with pad on the stated side (error if the value is longer);
//     reading trims pad on that side; the variants without pad use ' ' on the right.
//
// The buffer is the real bytes.Buffer, so only checksum Calc calls are logged (checksum.go).
package codec

import (
	"bytes"
	"encoding/binary"
	"fmt"
	"io"
	"math"
	"reflect"
)

// BinaryCodec is implemented by every emitted packet type.
type BinaryCodec interface {
	Encode(buf *bytes.Buffer) error
	Decode(buf *bytes.Buffer) error
}

// BasicType is any fixed-width scalar the DSL knows.
type BasicType interface {
	~int8 | ~int16 | ~int32 | ~int64 | ~uint8 | ~uint16 | ~uint32 | ~uint64 | ~float32 | ~float64
}

// Prefix is any integer type usable as a length / count prefix.
type Prefix interface {
	~int8 | ~int16 | ~int32 | ~int64 | ~uint8 | ~uint16 | ~uint32 | ~uint64
}

const (
	DefaultPadChar = ' '
	DefaultPadLeft = false
)

func order(le bool) binary.ByteOrder {
	if le {
		return binary.LittleEndian
	}
	return binary.BigEndian
}

// ---------------------------------------------------------------------------------------------
// scalars

func sizeOf[T BasicType]() int {
	var z T
	switch any(z).(type) {
	case int8, uint8:
		return 1
	case int16, uint16:
		return 2
	case int32, uint32, float32:
		return 4
	case int64, uint64, float64:
		return 8
	}
	return binary.Size(z) // named types (~T)
}

func writeBasic[T BasicType](buf *bytes.Buffer, v T, le bool) error {
	if buf == nil {
		return fmt.Errorf("codec: nil buffer")
	}
	o := order(le)
	var tmp [8]byte
	switch x := any(v).(type) {
	case uint8:
		return buf.WriteByte(x)
	case int8:
		return buf.WriteByte(byte(x))
	case uint16:
		o.PutUint16(tmp[:2], x)
		_, err := buf.Write(tmp[:2])
		return err
	case int16:
		o.PutUint16(tmp[:2], uint16(x))
		_, err := buf.Write(tmp[:2])
		return err
	case uint32:
		o.PutUint32(tmp[:4], x)
		_, err := buf.Write(tmp[:4])
		return err
	case int32:
		o.PutUint32(tmp[:4], uint32(x))
		_, err := buf.Write(tmp[:4])
		return err
	case float32:
		o.PutUint32(tmp[:4], math.Float32bits(x))
		_, err := buf.Write(tmp[:4])
		return err
	case uint64:
		o.PutUint64(tmp[:8], x)
		_, err := buf.Write(tmp[:8])
		return err
	case int64:
		o.PutUint64(tmp[:8], uint64(x))
		_, err := buf.Write(tmp[:8])
		return err
	case float64:
		o.PutUint64(tmp[:8], math.Float64bits(x))
		_, err := buf.Write(tmp[:8])
		return err
	}
	return binary.Write(buf, o, v) // named types (~T)
}

func readBasic[T BasicType](buf *bytes.Buffer, le bool) (T, error) {
	var z T
	if buf == nil {
		return z, fmt.Errorf("codec: nil buffer")
	}
	n := sizeOf[T]()
	if buf.Len() < n {
		return z, fmt.Errorf("codec: need %d bytes, have %d: %w", n, buf.Len(), io.ErrUnexpectedEOF)
	}
	o := order(le)
	p := any(&z)
	switch q := p.(type) {
	case *uint8:
		*q = buf.Next(1)[0]
	case *int8:
		*q = int8(buf.Next(1)[0])
	case *uint16:
		*q = o.Uint16(buf.Next(2))
	case *int16:
		*q = int16(o.Uint16(buf.Next(2)))
	case *uint32:
		*q = o.Uint32(buf.Next(4))
	case *int32:
		*q = int32(o.Uint32(buf.Next(4)))
	case *float32:
		*q = math.Float32frombits(o.Uint32(buf.Next(4)))
	case *uint64:
		*q = o.Uint64(buf.Next(8))
	case *int64:
		*q = int64(o.Uint64(buf.Next(8)))
	case *float64:
		*q = math.Float64frombits(o.Uint64(buf.Next(8)))
	default:
		if err := binary.Read(buf, o, &z); err != nil {
			return z, err
		}
	}
	return z, nil
}

// WriteBasicType appends v big-endian.
func WriteBasicType[T BasicType](buf *bytes.Buffer, v T) error { return writeBasic(buf, v, false) }

// WriteBasicTypeLE appends v little-endian.
func WriteBasicTypeLE[T BasicType](buf *bytes.Buffer, v T) error { return writeBasic(buf, v, true) }

// ReadBasicType reads a big-endian T.
func ReadBasicType[T BasicType](buf *bytes.Buffer) (T, error) { return readBasic[T](buf, false) }

// ReadBasicTypeLE reads a little-endian T.
func ReadBasicTypeLE[T BasicType](buf *bytes.Buffer) (T, error) { return readBasic[T](buf, true) }

// ---------------------------------------------------------------------------------------------
// prefixes

func writeLen[P Prefix](buf *bytes.Buffer, n int, le bool, what string) error {
	p := P(n)
	if n < 0 || p < 0 || uint64(p) != uint64(n) {
		return fmt.Errorf("codec: %s %d does not fit the %d-byte prefix", what, n, sizeOf[P]())
	}
	return writeBasic(buf, p, le)
}

func readLen[P Prefix](buf *bytes.Buffer, le bool, what string) (int, error) {
	p, err := readBasic[P](buf, le)
	if err != nil {
		return 0, err
	}
	if p < 0 {
		return 0, fmt.Errorf("codec: negative %s %v", what, p)
	}
	if uint64(p) > uint64(math.MaxInt64) {
		return 0, fmt.Errorf("codec: %s %v exceeds any buffer", what, uint64(p))
	}
	return int(p), nil
}

// ---------------------------------------------------------------------------------------------
// dynamic strings

func writeString[P Prefix](buf *bytes.Buffer, s string, le bool) error {
	if err := writeLen[P](buf, len(s), le, "string length"); err != nil {
		return err
	}
	_, err := buf.WriteString(s)
	return err
}

func readString[P Prefix](buf *bytes.Buffer, le bool) (string, error) {
	n, err := readLen[P](buf, le, "string length")
	if err != nil {
		return "", err
	}
	if buf.Len() < n {
		return "", fmt.Errorf("codec: string of %d bytes, have %d: %w", n, buf.Len(), io.ErrUnexpectedEOF)
	}
	return string(buf.Next(n)), nil
}

func WriteString[P Prefix](buf *bytes.Buffer, s string) error   { return writeString[P](buf, s, false) }
func WriteStringLE[P Prefix](buf *bytes.Buffer, s string) error { return writeString[P](buf, s, true) }
func ReadString[P Prefix](buf *bytes.Buffer) (string, error)    { return readString[P](buf, false) }
func ReadStringLE[P Prefix](buf *bytes.Buffer) (string, error)  { return readString[P](buf, true) }

// ---------------------------------------------------------------------------------------------
// fixed strings

func writeFixed(buf *bytes.Buffer, s string, n int, pad byte, left bool) error {
	if buf == nil {
		return fmt.Errorf("codec: nil buffer")
	}
	if n < 0 {
		return fmt.Errorf("codec: negative fixed string length %d", n)
	}
	if len(s) > n {
		return fmt.Errorf("codec: fixed string of %d bytes does not fit %d", len(s), n)
	}
	p := bytes.Repeat([]byte{pad}, n-len(s))
	if left {
		buf.Write(p)
		buf.WriteString(s)
	} else {
		buf.WriteString(s)
		buf.Write(p)
	}
	return nil
}

func readFixed(buf *bytes.Buffer, n int, pad byte, left bool) (string, error) {
	if buf == nil {
		return "", fmt.Errorf("codec: nil buffer")
	}
	if n < 0 {
		return "", fmt.Errorf("codec: negative fixed string length %d", n)
	}
	if buf.Len() < n {
		return "", fmt.Errorf("codec: fixed string of %d bytes, have %d: %w", n, buf.Len(), io.ErrUnexpectedEOF)
	}
	b := buf.Next(n)
	if left {
		i := 0
		for i < len(b) && b[i] == pad {
			i++
		}
		b = b[i:]
	} else {
		j := len(b)
		for j > 0 && b[j-1] == pad {
			j--
		}
		b = b[:j]
	}
	return string(b), nil
}

// WriteFixedString writes exactly n bytes: s padded with ' ' on the right.
func WriteFixedString(buf *bytes.Buffer, s string, n int) error {
	return writeFixed(buf, s, n, DefaultPadChar, DefaultPadLeft)
}

// WriteFixedStringWithPadding writes exactly n bytes: s padded with pad on the left (left) or right.
func WriteFixedStringWithPadding(buf *bytes.Buffer, s string, n int, pad byte, left bool) error {
	return writeFixed(buf, s, n, pad, left)
}

// ReadFixedString reads n bytes and trims ' ' on the right.
func ReadFixedString(buf *bytes.Buffer, n int) (string, error) {
	return readFixed(buf, n, DefaultPadChar, DefaultPadLeft)
}

// ReadFixedStringTrimPadding reads n bytes and trims pad on the left (left) or right.
func ReadFixedStringTrimPadding(buf *bytes.Buffer, n int, pad byte, left bool) (string, error) {
	return readFixed(buf, n, pad, left)
}

// neighbours of the same family (byte order is irrelevant for a fixed string)
func WriteFixedStringLE(buf *bytes.Buffer, s string, n int) error {
	return WriteFixedString(buf, s, n)
}
func WriteFixedStringWithPaddingLE(buf *bytes.Buffer, s string, n int, pad byte, left bool) error {
	return WriteFixedStringWithPadding(buf, s, n, pad, left)
}
func ReadFixedStringLE(buf *bytes.Buffer, n int) (string, error) { return ReadFixedString(buf, n) }
func ReadFixedStringTrimPaddingLE(buf *bytes.Buffer, n int, pad byte, left bool) (string, error) {
	return ReadFixedStringTrimPadding(buf, n, pad, left)
}

// ---------------------------------------------------------------------------------------------
// lists

const maxPrealloc = 1 << 16

func capFor(n int) int {
	if n > maxPrealloc {
		return maxPrealloc
	}
	return n
}

func writeList[P Prefix, E any](buf *bytes.Buffer, xs []E, le bool, one func(E) error) error {
	if err := writeLen[P](buf, len(xs), le, "list length"); err != nil {
		return err
	}
	for i, x := range xs {
		if err := one(x); err != nil {
			return fmt.Errorf("list element %d: %w", i, err)
		}
	}
	return nil
}

func readList[P Prefix, E any](buf *bytes.Buffer, le bool, one func() (E, error)) ([]E, error) {
	n, err := readLen[P](buf, le, "list length")
	if err != nil {
		return nil, err
	}
	out := make([]E, 0, capFor(n))
	for i := 0; i < n; i++ {
		x, err := one()
		if err != nil {
			return nil, fmt.Errorf("list element %d: %w", i, err)
		}
		out = append(out, x)
	}
	return out, nil
}

// basic types

func WriteBasicTypeList[P Prefix, T BasicType](buf *bytes.Buffer, xs []T) error {
	return writeList[P](buf, xs, false, func(x T) error { return writeBasic(buf, x, false) })
}
func WriteBasicTypeListLE[P Prefix, T BasicType](buf *bytes.Buffer, xs []T) error {
	return writeList[P](buf, xs, true, func(x T) error { return writeBasic(buf, x, true) })
}
func ReadBasicTypeList[P Prefix, T BasicType](buf *bytes.Buffer) ([]T, error) {
	return readList[P](buf, false, func() (T, error) { return readBasic[T](buf, false) })
}
func ReadBasicTypeListLE[P Prefix, T BasicType](buf *bytes.Buffer) ([]T, error) {
	return readList[P](buf, true, func() (T, error) { return readBasic[T](buf, true) })
}

// dynamic strings: P = element-count prefix, S = string length prefix

func WriteStringList[P Prefix, S Prefix](buf *bytes.Buffer, xs []string) error {
	return writeList[P](buf, xs, false, func(x string) error { return writeString[S](buf, x, false) })
}
func WriteStringListLE[P Prefix, S Prefix](buf *bytes.Buffer, xs []string) error {
	return writeList[P](buf, xs, true, func(x string) error { return writeString[S](buf, x, true) })
}
func ReadStringList[P Prefix, S Prefix](buf *bytes.Buffer) ([]string, error) {
	return readList[P](buf, false, func() (string, error) { return readString[S](buf, false) })
}
func ReadStringListLE[P Prefix, S Prefix](buf *bytes.Buffer) ([]string, error) {
	return readList[P](buf, true, func() (string, error) { return readString[S](buf, true) })
}

// fixed strings

func WriteFixedStringList[P Prefix](buf *bytes.Buffer, xs []string, n int) error {
	return writeList[P](buf, xs, false, func(x string) error { return writeFixed(buf, x, n, DefaultPadChar, DefaultPadLeft) })
}
func WriteFixedStringListLE[P Prefix](buf *bytes.Buffer, xs []string, n int) error {
	return writeList[P](buf, xs, true, func(x string) error { return writeFixed(buf, x, n, DefaultPadChar, DefaultPadLeft) })
}
func WriteFixedStringListWithPadding[P Prefix](buf *bytes.Buffer, xs []string, n int, pad byte, left bool) error {
	return writeList[P](buf, xs, false, func(x string) error { return writeFixed(buf, x, n, pad, left) })
}
func WriteFixedStringListWithPaddingLE[P Prefix](buf *bytes.Buffer, xs []string, n int, pad byte, left bool) error {
	return writeList[P](buf, xs, true, func(x string) error { return writeFixed(buf, x, n, pad, left) })
}
func ReadFixedStringList[P Prefix](buf *bytes.Buffer, n int) ([]string, error) {
	return readList[P](buf, false, func() (string, error) { return readFixed(buf, n, DefaultPadChar, DefaultPadLeft) })
}
func ReadFixedStringListLE[P Prefix](buf *bytes.Buffer, n int) ([]string, error) {
	return readList[P](buf, true, func() (string, error) { return readFixed(buf, n, DefaultPadChar, DefaultPadLeft) })
}
func ReadFixedStringListTrimPadding[P Prefix](buf *bytes.Buffer, n int, pad byte, left bool) ([]string, error) {
	return readList[P](buf, false, func() (string, error) { return readFixed(buf, n, pad, left) })
}
func ReadFixedStringListTrimPaddingLE[P Prefix](buf *bytes.Buffer, n int, pad byte, left bool) ([]string, error) {
	return readList[P](buf, true, func() (string, error) { return readFixed(buf, n, pad, left) })
}

// objects: T is the element type as the emitted struct declares it (a pointer to a packet struct)

func isNil[T any](x T) bool {
	if any(x) == nil {
		return true
	}
	switch rv := reflect.ValueOf(x); rv.Kind() {
	case reflect.Ptr, reflect.Interface, reflect.Map, reflect.Slice, reflect.Func, reflect.Chan:
		return rv.IsNil()
	}
	return false
}

func WriteObjectList[P Prefix, T BinaryCodec](buf *bytes.Buffer, xs []T) error {
	return writeList[P](buf, xs, false, func(x T) error { return encodeOne(buf, x) })
}
func WriteObjectListLE[P Prefix, T BinaryCodec](buf *bytes.Buffer, xs []T) error {
	return writeList[P](buf, xs, true, func(x T) error { return encodeOne(buf, x) })
}
func ReadObjectList[P Prefix, T BinaryCodec](buf *bytes.Buffer, factory func() T) ([]T, error) {
	return readList[P](buf, false, func() (T, error) { return decodeOne(buf, factory) })
}
func ReadObjectListLE[P Prefix, T BinaryCodec](buf *bytes.Buffer, factory func() T) ([]T, error) {
	return readList[P](buf, true, func() (T, error) { return decodeOne(buf, factory) })
}

func encodeOne[T BinaryCodec](buf *bytes.Buffer, x T) error {
	if isNil(x) {
		return fmt.Errorf("codec: nil list element")
	}
	return x.Encode(buf)
}

func decodeOne[T BinaryCodec](buf *bytes.Buffer, factory func() T) (T, error) {
	var z T
	if factory == nil {
		return z, fmt.Errorf("codec: nil element factory")
	}
	x := factory()
	if isNil(x) {
		return z, fmt.Errorf("codec: element factory returned nil")
	}
	if err := x.Decode(buf); err != nil {
		return z, err
	}
	return x, nil
}
