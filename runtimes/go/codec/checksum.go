package codec

import (
	"bytes"
	"sync"
)

// ChecksumService is what the emitted code type-asserts the registered service to:
//
//	checksumService.(codec.ChecksumService[*bytes.Buffer, uint32]).Calc(buf)
type ChecksumService[B any, T any] interface {
	Calc(buf B) T
}

var (
	regMu    sync.RWMutex
	registry = map[string]any{}
)

// Register makes a checksum service available under name.
func Register(name string, service any) {
	regMu.Lock()
	defer regMu.Unlock()
	registry[name] = service
}

// Get returns the service registered under name.
func Get(name string) (any, bool) {
	regMu.RLock()
	defer regMu.RUnlock()
	s, ok := registry[name]
	return s, ok
}

// CalcRecord is one Calc call: how many buffer bytes it covered and what it returned.
type CalcRecord struct {
	Covered int
	Value   uint64
}

var (
	calcMu sync.Mutex
	calcs  []CalcRecord
)

// ResetCalcs forgets the recorded Calc calls.
func ResetCalcs() {
	calcMu.Lock()
	calcs = nil
	calcMu.Unlock()
}

// TakeCalcs returns the Calc calls recorded since the last reset and forgets them.
func TakeCalcs() []CalcRecord {
	calcMu.Lock()
	defer calcMu.Unlock()
	out := calcs
	calcs = nil
	return out
}

// Alg is the reference algorithm (spec/Wire.tla!Alg):
// ((sum over 1-based i of i*bs[i]) + 7*len(bs)) mod 65521, additionally mod 256 for width 1.
func Alg(bs []byte, width int) uint64 {
	var s uint64
	for i, b := range bs {
		s = (s + uint64(i+1)*uint64(b)) % 65521
	}
	a := (s + 7*uint64(len(bs))) % 65521
	if width == 1 {
		a %= 256
	}
	return a
}

type vsumResult interface {
	~uint8 | ~uint16 | ~uint32 | ~uint64
}

// VSum is the reference checksum service with result type T over everything written to the buffer.
type VSum[T vsumResult] struct{}

// Calc covers exactly the bytes currently in the buffer.
func (VSum[T]) Calc(buf *bytes.Buffer) T {
	var bs []byte
	if buf != nil {
		bs = buf.Bytes()
	}
	a := Alg(bs, sizeOf[T]())
	calcMu.Lock()
	calcs = append(calcs, CalcRecord{Covered: len(bs), Value: a})
	calcMu.Unlock()
	return T(a)
}

func init() {
	Register("VSUM8", VSum[uint8]{})
	Register("VSUM16", VSum[uint16]{})
	Register("VSUM32", VSum[uint32]{})
	Register("VSUM64", VSum[uint64]{})
}
