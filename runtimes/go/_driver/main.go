// Generic driver for the emitted Go codec (see /verif/harness/PROTOCOL.md).
//
//	usage: drv <case.json> [--skip k]      -> ndjson events on stdout, one per op, in op order
//
// The plug-in (harness/lang_go.py) copies this file into <scratch module>/zzverifdrv/ next to the
// emitted package and adds a generated file zz_verif_registry.go to the emitted package that lists
// the emitted struct types (msg.ZZVerifTypes).  Types are matched by NORMALISED name (lower-case,
// underscores dropped), members POSITIONALLY via reflect (declaration order); the emitter's case
// conversions are never re-implemented.  (The directory name starts with "_" so the go tool does not
// treat this file as part of the runtime module.)
package main

import (
	"bufio"
	"bytes"
	"encoding/json"
	"fmt"
	"math"
	"os"
	"reflect"
	"strconv"
	"strings"
	"syscall"
	"unsafe"

	msg "example.com/msg"
	"github.com/xinchentechnote/fin-proto-go/codec"
)

// ---------------------------------------------------------------------------------------------
// protocol records

type Pair struct {
	Keys [][]int  `json:"keys"`
	Lits []string `json:"lits"`
	Pkt  string   `json:"pkt"`
}

type Field struct {
	K     string  `json:"k"`
	Name  string  `json:"name"`
	Ty    string  `json:"ty"`
	Rep   bool    `json:"rep"`
	N     int     `json:"n"`
	Pad   string  `json:"pad"`
	Key   string  `json:"key"`
	Pairs []Pair  `json:"pairs"`
	Tgt   string  `json:"tgt"`
	Alg   string  `json:"alg"`
	Fs    []Field `json:"fs"`
}

type Meta struct {
	Name string `json:"name"`
	K    string `json:"k"`
	Ty   string `json:"ty"`
	N    int    `json:"n"`
	Pad  string `json:"pad"`
	Ref  string `json:"ref"`
}

type Pkt struct {
	Name   string  `json:"name"`
	Root   bool    `json:"root"`
	Fields []Field `json:"fields"`
}

type Prog struct {
	Metas []Meta `json:"metas"`
	Pkts  []Pkt  `json:"pkts"`
}

type Tree struct {
	T   string `json:"t"`
	B   []int  `json:"b"`
	Xs  []Tree `json:"xs"`
	Fs  []Tree `json:"fs"`
	Pkt string `json:"pkt"`
}

type Op struct {
	Op    string `json:"op"`
	ID    string `json:"id"`
	Pkt   string `json:"pkt"`
	Val   *Tree  `json:"val"`
	Bytes []int  `json:"bytes"`
	Tail  []int  `json:"tail"`
	Reuse bool   `json:"reuse"`
	Pre   []int  `json:"pre"`
	Rd    int    `json:"rd"`
}

type Case struct {
	Prog Prog `json:"prog"`
	Ops  []Op `json:"ops"`
}

type J = map[string]any

var width = map[string]int{"u8": 1, "i8": 1, "char": 1, "u16": 2, "i16": 2, "u32": 4, "i32": 4, "f32": 4, "u64": 8, "i64": 8, "f64": 8}

// memberMismatch: the emitted type does not have the members / the type the program declares.
type memberMismatch struct{ s string }

func (e *memberMismatch) Error() string { return e.s }

func mismatch(f string, a ...any) error { return &memberMismatch{fmt.Sprintf(f, a...)} }

func normname(s string) string { return strings.ToLower(strings.ReplaceAll(s, "_", "")) }

func ints(b []byte) []int {
	out := make([]int, len(b))
	for i, x := range b {
		out[i] = int(x)
	}
	return out
}

func toBytes(xs []int) []byte {
	out := make([]byte, len(xs))
	for i, x := range xs {
		out[i] = byte(x)
	}
	return out
}

func clip(s string, n int) string {
	if len(s) > n {
		return s[:n]
	}
	return s
}

// ---------------------------------------------------------------------------------------------

type Ctx struct {
	prog  *Prog
	types map[string]reflect.Type // normalised emitted type name -> struct type
	last  map[string]reflect.Value // packet name -> the object the previous dec op decoded into
}

func (c *Ctx) pkt(name string) (*Pkt, error) {
	for i := range c.prog.Pkts {
		if c.prog.Pkts[i].Name == name {
			return &c.prog.Pkts[i], nil
		}
	}
	return nil, fmt.Errorf("case names unknown packet %q", name)
}

func (c *Ctx) meta(name string) (*Meta, error) {
	for i := range c.prog.Metas {
		if c.prog.Metas[i].Name == name {
			return &c.prog.Metas[i], nil
		}
	}
	return nil, fmt.Errorf("case names unknown MetaData entry %q", name)
}

// res resolves a MetaData-typed field to kind / type / n of its entry (one level of ref).
func (c *Ctx) res(f *Field) (*Field, error) {
	if f.K != "meta" {
		return f, nil
	}
	e, err := c.meta(f.Ty)
	if err != nil {
		return nil, err
	}
	if e.Ref != "" {
		if e, err = c.meta(e.Ref); err != nil {
			return nil, err
		}
	}
	g := *f
	g.K, g.Ty, g.N = e.K, e.Ty, e.N
	return &g, nil
}

func (c *Ctx) typ(name string) (reflect.Type, error) {
	t, ok := c.types[normname(name)]
	if !ok {
		return nil, mismatch("no emitted struct type for packet %s", name)
	}
	return t, nil
}

// settable returns v in a form that can be written even when the member is unexported.
func settable(v reflect.Value) reflect.Value {
	if v.CanSet() {
		return v
	}
	if v.CanAddr() {
		return reflect.NewAt(v.Type(), unsafe.Pointer(v.UnsafeAddr())).Elem()
	}
	return v
}

// structOf: the struct type behind a member that holds one object (T, *T), or nil for an interface.
func structOf(t reflect.Type) (st reflect.Type, ptr bool, ok bool) {
	switch t.Kind() {
	case reflect.Struct:
		return t, false, true
	case reflect.Ptr:
		if t.Elem().Kind() == reflect.Struct {
			return t.Elem(), true, true
		}
	case reflect.Interface:
		return nil, true, true
	}
	return nil, false, false
}

// ---- value tree -> native ------------------------------------------------------------------

func (c *Ctx) build(clsname string, st reflect.Type, fields []Field, vals []Tree) (reflect.Value, error) {
	if st == nil {
		var err error
		if st, err = c.typ(clsname); err != nil {
			return reflect.Value{}, err
		}
	}
	if st.NumField() != len(fields) {
		return reflect.Value{}, mismatch("type %s has %d members for %d declared fields", st.Name(), st.NumField(), len(fields))
	}
	if len(vals) != len(fields) {
		return reflect.Value{}, fmt.Errorf("value tree has %d entries for %d declared fields of %s", len(vals), len(fields), clsname)
	}
	inst := reflect.New(st)
	for i := range fields {
		f, err := c.res(&fields[i])
		if err != nil {
			return reflect.Value{}, err
		}
		m := settable(inst.Elem().Field(i))
		where := st.Name() + "." + st.Field(i).Name
		if f.Rep {
			if m.Kind() != reflect.Slice {
				return reflect.Value{}, mismatch("member %s (%s) cannot hold the repeated field %s", where, m.Type(), f.Name)
			}
			v := &vals[i]
			if v.T == "n" {
				continue
			}
			sl := reflect.MakeSlice(m.Type(), len(v.Xs), len(v.Xs))
			for j := range v.Xs {
				if err := c.setNative(sl.Index(j), f, &v.Xs[j], where); err != nil {
					return reflect.Value{}, err
				}
			}
			m.Set(sl)
		} else if err := c.setNative(m, f, &vals[i], where); err != nil {
			return reflect.Value{}, err
		}
	}
	return inst, nil
}

func (c *Ctx) setNative(m reflect.Value, f *Field, v *Tree, where string) error {
	if v.T == "n" {
		return nil // zero value: nil pointer / nil interface / "" / 0
	}
	switch f.K {
	case "int", "len", "ck", "float", "char":
		return setScalar(m, f, toBytes(v.B), where)
	case "fix", "dyn":
		b := toBytes(v.B)
		switch {
		case m.Kind() == reflect.String:
			m.SetString(string(b))
		case m.Kind() == reflect.Slice && m.Type().Elem().Kind() == reflect.Uint8:
			m.SetBytes(b)
		default:
			return mismatch("member %s (%s) cannot hold a string", where, m.Type())
		}
		return nil
	case "obj", "inl", "match":
		var name string
		var fields []Field
		switch f.K {
		case "obj":
			p, err := c.pkt(f.Ty)
			if err != nil {
				return err
			}
			name, fields = p.Name, p.Fields
		case "inl":
			name, fields = f.Name, f.Fs
		default:
			p, err := c.pkt(v.Pkt)
			if err != nil {
				return err
			}
			name, fields = p.Name, p.Fields
		}
		st, ptr, ok := structOf(m.Type())
		if !ok {
			return mismatch("member %s (%s) cannot hold an object", where, m.Type())
		}
		if st != nil && f.K != "inl" && normname(st.Name()) != normname(name) {
			return mismatch("member %s has type %s for declared packet %s", where, st.Name(), name)
		}
		inst, err := c.build(name, st, fields, v.Fs)
		if err != nil {
			return err
		}
		if !ptr {
			m.Set(inst.Elem())
			return nil
		}
		if !inst.Type().AssignableTo(m.Type()) {
			return fmt.Errorf("*%s is not assignable to member %s (%s)", inst.Type().Elem().Name(), where, m.Type())
		}
		m.Set(inst)
		return nil
	}
	return fmt.Errorf("unknown field kind %q", f.K)
}

func setScalar(m reflect.Value, f *Field, b []byte, where string) error {
	w := width[f.Ty]
	if w == 0 || len(b) != w {
		return fmt.Errorf("value of %d bytes for field %s of type %q", len(b), f.Name, f.Ty)
	}
	var u uint64
	for _, x := range b {
		u = u<<8 | uint64(x)
	}
	signed := strings.HasPrefix(f.Ty, "i")
	i := int64(u)
	if signed && w < 8 {
		sh := uint(64 - 8*w)
		i = int64(u<<sh) >> sh
	}
	cannot := func() error {
		return fmt.Errorf("member %s (%s) cannot hold the %s value % x", where, m.Type(), f.Ty, b)
	}
	if f.K == "float" {
		var x float64
		if w == 4 {
			x = float64(math.Float32frombits(uint32(u)))
		} else {
			x = math.Float64frombits(u)
		}
		switch m.Kind() {
		case reflect.Float32:
			if w != 4 {
				return cannot()
			}
			*(*uint32)(unsafe.Pointer(m.UnsafeAddr())) = uint32(u) // bit-exact
		case reflect.Float64:
			if w == 8 {
				*(*uint64)(unsafe.Pointer(m.UnsafeAddr())) = u
			} else {
				m.SetFloat(x)
			}
		default:
			return mismatch("member %s (%s) cannot hold a float", where, m.Type())
		}
		return nil
	}
	switch m.Kind() {
	case reflect.Uint8, reflect.Uint16, reflect.Uint32, reflect.Uint64, reflect.Uint:
		if signed {
			if i < 0 {
				return cannot()
			}
			u = uint64(i)
		}
		if m.OverflowUint(u) {
			return cannot()
		}
		m.SetUint(u)
	case reflect.Int8, reflect.Int16, reflect.Int32, reflect.Int64, reflect.Int:
		if !signed {
			if u > math.MaxInt64 {
				return cannot()
			}
			i = int64(u)
		}
		if m.OverflowInt(i) {
			return cannot()
		}
		m.SetInt(i)
	case reflect.String:
		if f.K != "char" {
			return mismatch("member %s (%s) cannot hold an integer", where, m.Type())
		}
		m.SetString(string(b))
	default:
		return mismatch("member %s (%s) cannot hold a scalar", where, m.Type())
	}
	return nil
}

// ---- native -> value tree ------------------------------------------------------------------

func (c *Ctx) read(inst reflect.Value, fields []Field) ([]any, error) {
	st := inst.Type()
	if st.Kind() != reflect.Struct {
		return nil, mismatch("%s is not a struct", st)
	}
	if st.NumField() != len(fields) {
		return nil, mismatch("type %s has %d members for %d declared fields", st.Name(), st.NumField(), len(fields))
	}
	out := make([]any, 0, len(fields))
	for i := range fields {
		f, err := c.res(&fields[i])
		if err != nil {
			return nil, err
		}
		m := inst.Field(i)
		if f.Rep {
			if m.Kind() != reflect.Slice {
				out = append(out, J{"t": "x", "repr": clip(m.Type().String(), 80)})
				continue
			}
			xs := make([]any, 0, m.Len())
			for j := 0; j < m.Len(); j++ {
				t, err := c.fromNative(f, m.Index(j))
				if err != nil {
					return nil, err
				}
				xs = append(xs, t)
			}
			out = append(out, J{"t": "l", "xs": xs})
			continue
		}
		t, err := c.fromNative(f, m)
		if err != nil {
			return nil, err
		}
		out = append(out, t)
	}
	return out, nil
}

func native(m reflect.Value) J {
	return J{"t": "x", "repr": clip(fmt.Sprintf("%s", m.Type()), 80)}
}

func (c *Ctx) fromNative(f *Field, m reflect.Value) (any, error) {
	switch f.K {
	case "int", "len", "ck", "float", "char":
		return scalarTree(f, m), nil
	case "fix", "dyn":
		switch {
		case m.Kind() == reflect.String:
			return J{"t": "b", "b": ints([]byte(m.String()))}, nil
		case m.Kind() == reflect.Slice && m.Type().Elem().Kind() == reflect.Uint8:
			if m.IsNil() {
				return J{"t": "n"}, nil
			}
			return J{"t": "b", "b": ints(m.Bytes())}, nil
		}
		return native(m), nil
	case "obj", "inl":
		for m.Kind() == reflect.Ptr || m.Kind() == reflect.Interface {
			if m.IsNil() {
				return J{"t": "n"}, nil
			}
			m = m.Elem()
		}
		if m.Kind() != reflect.Struct {
			return native(m), nil
		}
		fields := f.Fs
		if f.K == "obj" {
			p, err := c.pkt(f.Ty)
			if err != nil {
				return nil, err
			}
			fields = p.Fields
		}
		fs, err := c.read(m, fields)
		if err != nil {
			return nil, err
		}
		return J{"t": "o", "fs": fs}, nil
	case "match":
		for m.Kind() == reflect.Ptr || m.Kind() == reflect.Interface {
			if m.IsNil() {
				return J{"t": "n"}, nil
			}
			m = m.Elem()
		}
		// the dynamic type decides which packet's fields are read
		tn := normname(m.Type().Name())
		for i := range c.prog.Pkts {
			p := &c.prog.Pkts[i]
			if normname(p.Name) == tn && m.Kind() == reflect.Struct {
				fs, err := c.read(m, p.Fields)
				if err != nil {
					return nil, err
				}
				return J{"t": "m", "pkt": p.Name, "fs": fs}, nil
			}
		}
		return native(m), nil
	}
	return nil, fmt.Errorf("unknown field kind %q", f.K)
}

func scalarTree(f *Field, m reflect.Value) any {
	w := width[f.Ty]
	signed := strings.HasPrefix(f.Ty, "i")
	var u uint64
	bad := func() any {
		return J{"t": "x", "repr": clip(fmt.Sprintf("%s(%v)", m.Type(), m), 80)}
	}
	if f.K == "float" {
		switch {
		case m.Kind() == reflect.Float32 && w == 4:
			u = uint64(math.Float32bits(float32(m.Float())))
			if m.CanAddr() {
				u = uint64(*(*uint32)(unsafe.Pointer(m.UnsafeAddr())))
			}
		case m.Kind() == reflect.Float64 && w == 8:
			u = math.Float64bits(m.Float())
		case m.Kind() == reflect.Float64 && w == 4:
			x := m.Float()
			if float64(float32(x)) != x && x == x {
				return bad()
			}
			u = uint64(math.Float32bits(float32(x)))
		case m.Kind() == reflect.Float32 && w == 8:
			u = math.Float64bits(m.Float())
		default:
			return bad()
		}
	} else {
		switch m.Kind() {
		case reflect.Uint8, reflect.Uint16, reflect.Uint32, reflect.Uint64, reflect.Uint:
			u = m.Uint()
			if signed {
				if u > uint64(1)<<(8*uint(w)-1)-1 {
					return bad()
				}
			} else if w < 8 && u >= uint64(1)<<(8*uint(w)) {
				return bad()
			}
		case reflect.Int8, reflect.Int16, reflect.Int32, reflect.Int64, reflect.Int:
			i := m.Int()
			if signed {
				if w < 8 && (i < -(int64(1)<<(8*uint(w)-1)) || i > int64(1)<<(8*uint(w)-1)-1) {
					return bad()
				}
			} else if i < 0 || (w < 8 && i >= int64(1)<<(8*uint(w))) {
				return bad()
			}
			u = uint64(i)
		case reflect.String:
			if f.K == "char" {
				return J{"t": "b", "b": ints([]byte(m.String()))}
			}
			return bad()
		default:
			return bad()
		}
	}
	b := make([]int, w)
	for k := w - 1; k >= 0; k-- {
		b[k] = int(u & 0xff)
		u >>= 8
	}
	return J{"t": "b", "b": b}
}

// ---------------------------------------------------------------------------------------------
// guarded calls: a Go panic in emitted code is an observation, not a driver crash

type binaryCodec interface {
	Encode(buf *bytes.Buffer) error
	Decode(buf *bytes.Buffer) error
}

func guarded(what string, fn func() error) (err error) {
	defer func() {
		if r := recover(); r != nil {
			err = fmt.Errorf("panic in %s: %v", what, r)
		}
	}()
	return fn()
}

func errText(e error) string { return clip(e.Error(), 300) }

func asCodec(inst reflect.Value) (binaryCodec, error) {
	bc, ok := inst.Interface().(binaryCodec)
	if !ok {
		return nil, mismatch("type %s lacks Encode(*bytes.Buffer) error / Decode(*bytes.Buffer) error", inst.Type())
	}
	return bc, nil
}

func classify(err error, otherwise string) string {
	if _, ok := err.(*memberMismatch); ok {
		return "member-missing"
	}
	return otherwise
}

func (c *Ctx) runOp(op *Op) (ev J) {
	ev = J{"ev": op.Op, "id": op.ID}
	if op.Op == "encinto" {
		ev["pre"] = len(op.Pre)
		ev["rd"] = op.Rd
	}
	fail := func(cls string, err error) J {
		ev["ok"] = false
		ev["cls"] = cls
		ev["err"] = errText(err)
		return ev
	}
	pk, err := c.pkt(op.Pkt)
	if err != nil {
		return fail("build-raises", err)
	}
	switch op.Op {
	case "enc", "encinto":
		if op.Val == nil {
			return fail("build-raises", fmt.Errorf("%s op without val", op.Op))
		}
		var inst reflect.Value
		err := guarded("build", func() (e error) {
			inst, e = c.build(pk.Name, nil, pk.Fields, op.Val.Fs)
			return
		})
		if err != nil {
			return fail(classify(err, "build-raises"), err)
		}
		bc, err := asCodec(inst)
		if err != nil {
			return fail("member-missing", err)
		}
		var buf bytes.Buffer
		if op.Op == "encinto" && len(op.Pre) > 0 {
			// the output buffer is USED: it already holds the bytes `pre`, the first `rd` of them consumed
			buf.Write(toBytes(op.Pre))
			buf.Next(op.Rd)
		}
		codec.ResetCalcs()
		if err := guarded("Encode", func() error { return bc.Encode(&buf) }); err != nil {
			return fail("encode-raises", err)
		}
		calcs := [][]any{}
		for _, r := range codec.TakeCalcs() {
			calcs = append(calcs, []any{r.Covered, r.Value})
		}
		ev["ok"] = true
		ev["bytes"] = ints(buf.Bytes())
		ev["calcs"] = calcs
		return ev
	case "dec", "deckey":
		ev["tail"] = len(op.Tail)
		data := append(toBytes(op.Bytes), toBytes(op.Tail)...)
		buf := bytes.NewBuffer(data)
		total := len(data)
		st, err := c.typ(pk.Name)
		if err != nil {
			ev["consumed"] = 0
			return fail("member-missing", err)
		}
		// "reuse": decode into the object the previous dec op of this packet used (a receiver that is read in a
		// loop / taken from a pool), otherwise into a fresh one
		inst, reused := c.last[pk.Name]
		if !op.Reuse || !reused {
			inst = reflect.New(st)
		}
		if c.last == nil {
			c.last = map[string]reflect.Value{}
		}
		c.last[pk.Name] = inst
		bc, err := asCodec(inst)
		if err != nil {
			ev["consumed"] = 0
			return fail("member-missing", err)
		}
		err = guarded("Decode", func() error { return bc.Decode(buf) })
		ev["consumed"] = total - buf.Len()
		if err != nil {
			return fail("decode-raises", err)
		}
		var fs []any
		err = guarded("read", func() (e error) {
			fs, e = c.read(inst.Elem(), pk.Fields)
			return
		})
		if err != nil {
			return fail(classify(err, "read-raises"), err)
		}
		ev["ok"] = true
		ev["val"] = J{"t": "o", "fs": fs}
		if op.Op == "dec" {
			var b2 bytes.Buffer
			if err := guarded("Encode", func() error { return bc.Encode(&b2) }); err != nil {
				ev["reenc_err"] = errText(err)
			} else {
				ev["reenc"] = ints(b2.Bytes())
			}
		}
		return ev
	}
	return fail("build-raises", fmt.Errorf("unknown op %q", op.Op))
}

func main() {
	if len(os.Args) < 2 {
		fmt.Fprintln(os.Stderr, "usage: drv <case.json> [--skip k]")
		os.Exit(2)
	}
	skip := 0
	for i := 2; i < len(os.Args); i++ {
		if os.Args[i] == "--skip" && i+1 < len(os.Args) {
			skip, _ = strconv.Atoi(os.Args[i+1])
			i++
		}
	}
	// the event stream owns fd 1; anything emitted code prints goes to stderr
	fd, err := syscall.Dup(1)
	if err != nil {
		fmt.Fprintln(os.Stderr, "dup:", err)
		os.Exit(2)
	}
	out := bufio.NewWriter(os.NewFile(uintptr(fd), "events"))
	os.Stdout = os.Stderr

	raw, err := os.ReadFile(os.Args[1])
	if err != nil {
		fmt.Fprintln(os.Stderr, err)
		os.Exit(2)
	}
	var cs Case
	if err := json.Unmarshal(raw, &cs); err != nil {
		fmt.Fprintln(os.Stderr, "case:", err)
		os.Exit(2)
	}
	ctx := &Ctx{prog: &cs.Prog, types: map[string]reflect.Type{}}
	for _, t := range msg.ZZVerifTypes { // in the (sorted) order of the generated registry
		if _, dup := ctx.types[normname(t.Name())]; !dup {
			ctx.types[normname(t.Name())] = t
		}
	}
	for i := range cs.Ops {
		if i < skip {
			continue
		}
		ev := ctx.runOp(&cs.Ops[i])
		line, err := json.Marshal(ev)
		if err != nil {
			bad := J{"ev": cs.Ops[i].Op, "id": cs.Ops[i].ID, "ok": false, "cls": "read-raises", "err": "event not serialisable: " + err.Error()}
			if cs.Ops[i].Op == "encinto" {
				bad["pre"], bad["rd"] = len(cs.Ops[i].Pre), cs.Ops[i].Rd
			}
			line, _ = json.Marshal(bad)
		}
		out.Write(line)
		out.WriteByte('\n')
		out.Flush()
	}
}
