"""Reference runtime (Python): checksum services.  Registered names: VSUM8 VSUM16 VSUM32 VSUM64.
Alg_w(bs) = ((sum i*bs[i], i 1-based) + 7*len) mod 65521, mod 256 for w = 1  (spec/Wire.tla!Alg)."""
import bytebuf


class VSum:
    def __init__(self, w):
        self.w = w

    def calc(self, buffer):
        d = buffer.data[:buffer.write_index]
        s = 0
        for i, b in enumerate(d):
            s = (s + (i + 1) * b) % 65521
        a = (s + 7 * len(d)) % 65521
        if self.w == 1:
            a %= 256
        bytebuf.TRACE.append(("calc", len(d), a))
        return a


_SERVICES = {"VSUM8": VSum(1), "VSUM16": VSum(2), "VSUM32": VSum(4), "VSUM64": VSum(8)}


def create_checksum_service(name):
    return _SERVICES.get(name)
