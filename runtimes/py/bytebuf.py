"""Reference runtime (Python): byte buffer.  API surface = what py_generator.go can emit.
Every primitive is logged when VERIF_TRACE is set (append / set), for WireMachine validation."""
import struct

TRACE = []          # the driver drains this


class ByteBuf:
    def __init__(self, data=b''):
        self.data = bytearray(data)
        self.write_index = len(self.data)
        self.read_index = 0

    def _w(self, fmt, v):
        b = struct.pack(fmt, v)
        TRACE.append(("append", len(self.data), list(b)))
        self.data += b
        self.write_index = len(self.data)

    def _r(self, fmt):
        n = struct.calcsize(fmt)
        if self.read_index + n > len(self.data):
            raise IndexError("read past end of buffer")
        v = struct.unpack_from(fmt, self.data, self.read_index)[0]
        self.read_index += n
        return v

    def write_bytes(self, b):
        TRACE.append(("append", len(self.data), list(b)))
        self.data += b
        self.write_index = len(self.data)

    def read_bytes(self, n):
        if n < 0 or self.read_index + n > len(self.data):
            raise IndexError("read past end of buffer")
        b = bytes(self.data[self.read_index:self.read_index + n])
        self.read_index += n
        return b

    def to_bytes(self):
        return bytes(self.data[:self.write_index])


_T = {'u8': 'B', 'i8': 'b', 'u16': 'H', 'i16': 'h', 'u32': 'I', 'i32': 'i', 'u64': 'Q', 'i64': 'q', 'f32': 'f', 'f64': 'd'}


def _mk(name, c):
    for suf, o in (('', '>'), ('_le', '<')):
        fmt = o + c

        def w(self, v, fmt=fmt):
            self._w(fmt, v)

        def r(self, fmt=fmt):
            return self._r(fmt)

        def at(self, pos, v, fmt=fmt):
            b = struct.pack(fmt, v)
            TRACE.append(("set", pos, list(b)))
            struct.pack_into(fmt, self.data, pos, v)
        setattr(ByteBuf, 'write_%s%s' % (name, suf), w)
        setattr(ByteBuf, 'read_%s%s' % (name, suf), r)
        setattr(ByteBuf, 'write_%s%s_at' % (name, suf), at)


for _n, _c in _T.items():
    _mk(_n, _c)
