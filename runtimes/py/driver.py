#!/usr/bin/env python3
"""Generic driver for the emitted Python codec (see harness/PROTOCOL.md).
usage: driver.py <emitted_dir> <case.json>     -> ndjson events on stdout

Members are discovered POSITIONALLY (vars() order of a fresh instance = __init__ order); classes by
normalised name (lower-case, underscores dropped).  The emitters' case conversions are not re-implemented."""
import importlib
import io
import json
import os
import struct
import sys
import traceback

W = {"u8": 1, "i8": 1, "char": 1, "u16": 2, "i16": 2, "u32": 4, "i32": 4, "f32": 4, "u64": 8, "i64": 8, "f64": 8}


def normname(s):
    return s.replace("_", "").lower()


class MemberMismatch(Exception):
    pass


class Ctx:
    def __init__(self, prog, mod):
        self.prog = prog
        self.mod = mod
        self.classes = {}
        for k, v in vars(mod).items():
            if isinstance(v, type) and getattr(v, "__module__", None) == mod.__name__:
                self.classes.setdefault(normname(k), v)

    def pkt(self, name):
        for p in self.prog["pkts"]:
            if p["name"] == name:
                return p
        raise KeyError(name)

    def meta(self, name):
        for e in self.prog["metas"]:
            if e["name"] == name:
                return e
        raise KeyError(name)

    def res(self, f):
        if f["k"] != "meta":
            return f
        e = self.meta(f["ty"])
        if e.get("ref"):
            e = self.meta(e["ref"])
        g = dict(f)
        g.update(k=e["k"], ty=e["ty"], n=e["n"])
        return g

    def cls(self, name):
        c = self.classes.get(normname(name))
        if c is None:
            raise MemberMismatch("no class for packet %s" % name)
        return c

    # value tree -> native ---------------------------------------------------------------------
    def to_native(self, f, v):
        k = f["k"]
        if v["t"] == "n":
            return None
        if k in ("int", "len", "ck"):
            return int.from_bytes(bytes(v["b"]), "big", signed=f["ty"].startswith("i"))
        if k == "float":
            return struct.unpack(">f" if W[f["ty"]] == 4 else ">d", bytes(v["b"]))[0]
        if k == "char":
            return v["b"][0]           # the emitter carries a char as its code (one unsigned byte)
        if k in ("fix", "dyn"):
            return bytes(v["b"]).decode("utf-8")
        if k == "obj":
            return self.build(self.pkt(f["ty"])["name"], self.pkt(f["ty"])["fields"], v["fs"])
        if k == "inl":
            return self.build(f["name"], f["fs"], v["fs"])
        if k == "match":
            return self.build(v["pkt"], self.pkt(v["pkt"])["fields"], v["fs"])
        raise ValueError(k)

    def build(self, clsname, fields, vals):
        inst = self.cls(clsname)()
        members = list(vars(inst).keys())
        if len(members) != len(fields):
            raise MemberMismatch("class %s has %d members for %d declared fields" % (clsname, len(members), len(fields)))
        for m, f0, v in zip(members, fields, vals):
            f = self.res(f0)
            if f["rep"]:
                setattr(inst, m, [self.to_native(f, x) for x in v["xs"]])
            else:
                setattr(inst, m, self.to_native(f, v))
        return inst

    # native -> value tree ---------------------------------------------------------------------
    def from_native(self, f, x):
        k = f["k"]
        if x is None:
            return {"t": "n"}
        try:
            if k in ("int", "len", "ck"):
                return {"t": "b", "b": list(int(x).to_bytes(W[f["ty"]], "big", signed=f["ty"].startswith("i")))}
            if k == "float":
                return {"t": "b", "b": list(struct.pack(">f" if W[f["ty"]] == 4 else ">d", x))}
            if k == "char":
                return {"t": "b", "b": list(x.encode("utf-8") if isinstance(x, str) else bytes([x]))}
            if k in ("fix", "dyn"):
                return {"t": "b", "b": list(x.encode("utf-8"))}
        except Exception as e:  # wrong native type / out of range: report what was there
            return {"t": "x", "repr": repr(x)[:80], "err": type(e).__name__}
        if k == "obj":
            return {"t": "o", "fs": self.read(x, self.pkt(f["ty"])["fields"])}
        if k == "inl":
            return {"t": "o", "fs": self.read(x, f["fs"])}
        if k == "match":
            # dynamic type decides which packet's fields to read
            tn = normname(type(x).__name__)
            for p in self.prog["pkts"]:
                if normname(p["name"]) == tn:
                    return {"t": "m", "pkt": p["name"], "fs": self.read(x, p["fields"])}
            return {"t": "x", "repr": type(x).__name__}
        raise ValueError(k)

    def read(self, inst, fields):
        members = list(vars(inst).keys())
        if len(members) != len(fields):
            raise MemberMismatch("instance of %s has %d members for %d declared fields" % (type(inst).__name__, len(members), len(fields)))
        out = []
        for m, f0 in zip(members, fields):
            f = self.res(f0)
            x = getattr(inst, m)
            if f["rep"]:
                if x is None:
                    out.append({"t": "l", "xs": []})
                else:
                    out.append({"t": "l", "xs": [self.from_native(f, e) for e in x]})
            else:
                out.append(self.from_native(f, x))
        return out


def errinfo(e):
    return "%s: %s" % (type(e).__name__, str(e)[:200])


def main():
    outdir, casefile = sys.argv[1], sys.argv[2]
    here = os.path.dirname(os.path.abspath(__file__))
    sys.path.insert(0, here)
    sys.path.insert(0, outdir)
    case = json.load(open(casefile))
    real_stdout = sys.stdout
    sys.stdout = io.StringIO()       # emitted code must not disturb the event stream

    def emit(o):
        real_stdout.write(json.dumps(o) + "\n")
    mods = [f[:-3] for f in sorted(os.listdir(outdir)) if f.endswith(".py") and not f.endswith("_test.py")]
    try:
        if len(mods) != 1:
            raise ImportError("expected one emitted module, found %s" % mods)
        mod = importlib.import_module(mods[0])
    except BaseException as e:
        emit({"ev": "load", "ok": False, "err": errinfo(e), "trace": traceback.format_exc()[-600:]})
        return 0
    emit({"ev": "load", "ok": True})
    import bytebuf
    from bytebuf import ByteBuf
    ctx = Ctx(case["prog"], mod)
    last = {}
    for op in case["ops"]:
        del bytebuf.TRACE[:]
        kind = op["op"]
        pk = ctx.pkt(op["pkt"])
        if kind in ("enc", "encinto"):
            # encinto: the output buffer is USED: it already holds the bytes `pre`, the first `rd` of them consumed
            pre, rd = bytes(op.get("pre", [])), int(op.get("rd", 0))
            ev = {"ev": kind, "id": op["id"]}
            if kind == "encinto":
                ev.update(pre=len(pre), rd=rd)
            try:
                inst = ctx.build(pk["name"], pk["fields"], op["val"]["fs"])
            except MemberMismatch as e:
                ev.update(ok=False, cls="member-missing", err=str(e))
                emit(ev)
                continue
            except BaseException as e:
                ev.update(ok=False, cls="build-raises", err=errinfo(e))
                emit(ev)
                continue
            try:
                buf = ByteBuf()
                if pre:
                    buf.write_bytes(pre)
                    buf.read_bytes(rd)
                del bytebuf.TRACE[:]
                inst.encode(buf)
                ev.update(ok=True, bytes=list(buf.to_bytes()[buf.read_index:]),
                          prims=[[k, p, b] for (k, p, b) in bytebuf.TRACE if k != "calc"],
                          calcs=[[p, b] for (k, p, b) in bytebuf.TRACE if k == "calc"])
            except BaseException as e:
                ev.update(ok=False, cls="encode-raises", err=errinfo(e))
            emit(ev)
        elif kind in ("dec", "deckey"):
            ev = {"ev": kind, "id": op["id"], "tail": len(op.get("tail", []))}
            data = bytes(op["bytes"]) + bytes(op.get("tail", []))
            buf = ByteBuf(data)
            buf.write_index = len(data)
            try:
                # "reuse": decode into the object the previous dec op of this packet used (a receiver that is
                # read in a loop / taken from a pool), otherwise into a fresh one
                inst = last.get(pk["name"]) if op.get("reuse") else None
                if inst is None:
                    inst = ctx.cls(pk["name"])()
                last[pk["name"]] = inst
                inst.decode(buf)
            except MemberMismatch as e:
                ev.update(ok=False, cls="member-missing", err=str(e), consumed=buf.read_index)
                emit(ev)
                continue
            except BaseException as e:
                ev.update(ok=False, cls="decode-raises", err=errinfo(e), consumed=buf.read_index)
                emit(ev)
                continue
            ev.update(ok=True, consumed=buf.read_index)
            try:
                ev["val"] = {"t": "o", "fs": ctx.read(inst, pk["fields"])}
            except MemberMismatch as e:
                ev.update(ok=False, cls="member-missing", err=str(e))
                emit(ev)
                continue
            except BaseException as e:
                ev.update(ok=False, cls="read-raises", err=errinfo(e))
                emit(ev)
                continue
            if kind == "dec":
                try:
                    b2 = ByteBuf()
                    inst.encode(b2)
                    ev["reenc"] = list(b2.to_bytes())
                except BaseException as e:
                    ev["reenc_err"] = errinfo(e)
            emit(ev)
    return 0


if __name__ == "__main__":
    sys.exit(main())
