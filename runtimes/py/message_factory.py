"""Reference runtime (Python): message factory.  create() on an unknown key raises."""
from typing import Generic, TypeVar

K = TypeVar('K')
V = TypeVar('V')


class UnknownMessage(KeyError):
    pass


class MessageFactory(Generic[K, V]):
    def __init__(self):
        self._m = {}

    def register(self, k, cls):
        self._m[k] = cls

    def create(self, k):
        if k not in self._m:
            raise UnknownMessage("unknown message type %r" % (k,))
        return self._m[k]()
