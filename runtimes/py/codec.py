"""Reference runtime (Python): codec helpers with the meaning their names and arguments state."""


class BinaryCodec:
    def encode(self, buffer):
        raise NotImplementedError

    def decode(self, buffer):
        raise NotImplementedError


def _wl(buffer, n, t, le):
    getattr(buffer, 'write_%s%s' % (t, '_le' if le else ''))(n)


def _rl(buffer, t, le):
    return getattr(buffer, 'read_%s%s' % (t, '_le' if le else ''))()


def read_len(buffer, t):
    return _rl(buffer, t, False)


def read_len_le(buffer, t):
    return _rl(buffer, t, True)


def write_len(buffer, n, t):
    _wl(buffer, n, t, False)


def write_len_le(buffer, n, t):
    _wl(buffer, n, t, True)


def write_string(buffer, s, t):
    b = s.encode('utf-8')
    _wl(buffer, len(b), t, False)
    buffer.write_bytes(b)


def write_string_le(buffer, s, t):
    b = s.encode('utf-8')
    _wl(buffer, len(b), t, True)
    buffer.write_bytes(b)


def read_string(buffer, t):
    return buffer.read_bytes(_rl(buffer, t, False)).decode('utf-8')


def read_string_le(buffer, t):
    return buffer.read_bytes(_rl(buffer, t, True)).decode('utf-8')


def write_fixed_string(buffer, s, n, enc='utf-8', pad=' ', left=False):
    b = s.encode(enc)
    if len(b) > n:
        raise ValueError("fixed string longer than %d bytes" % n)
    p = pad.encode(enc) * (n - len(b))
    buffer.write_bytes(p + b if left else b + p)


def read_fixed_string(buffer, n, enc='utf-8', pad=' ', left=False):
    b = buffer.read_bytes(n)
    p = pad.encode(enc)
    b = b.lstrip(p) if left else b.rstrip(p)
    return b.decode(enc)
