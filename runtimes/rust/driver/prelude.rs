// Fixed part of the per-program Rust driver (harness/PROTOCOL.md).  harness/lang_rust.py appends the
// generated part: `build_<k>` (value tree -> native message), `read_<k>` (native -> value tree) for
// every emitted struct, and `dispatch(op)`.
//
// usage: driver <case.txt> [--skip k]        -> one JSON event per op on stdout, flushed after each
//
// case.txt (written by the plug-in, whitespace separated tokens, one op per line):
//   enc    <hex id> <hex pkt> <tree>
//   dec    <hex id> <hex pkt> <n> <byte>*n <t> <byte>*t
//   deckey <hex id> <hex pkt> <n> <byte>*n <t> <byte>*t
//   tree = b <n> <byte>*n | l <n> <tree>*n | o <n> <tree>*n | m <hex pkt> <n> <tree>*n | n | x
#![allow(dead_code, unused_variables, unused_mut, unused_imports, unreachable_code, unreachable_patterns, non_snake_case)]

use bytes::{Buf, Bytes, BytesMut};
use std::io::Write;
use std::panic::{catch_unwind, AssertUnwindSafe};
use std::sync::Mutex;

#[derive(Clone, Debug)]
pub enum V {
    B(Vec<u8>),
    L(Vec<V>),
    O(Vec<V>),
    M(String, Vec<V>),
    N,
    X(String),
}

pub enum E {
    Missing(String),
    Build(String),
}

#[derive(Clone, Copy, PartialEq)]
pub enum Kind {
    Enc,
    Dec,
    DecKey,
}

pub struct Op {
    pub kind: Kind,
    pub id: String,
    pub pkt: String,
    pub val: V,
    pub bytes: Vec<u8>,
    pub tail: Vec<u8>,
}

// ---------------------------------------------------------------------------------------------
// case file

struct Toks<'a> {
    it: std::str::SplitWhitespace<'a>,
}

impl<'a> Toks<'a> {
    fn next(&mut self) -> &'a str {
        self.it.next().expect("case file: unexpected end of line")
    }
    fn num(&mut self) -> usize {
        self.next().parse::<usize>().expect("case file: number expected")
    }
    fn hex(&mut self) -> String {
        let t = self.next();
        let t = &t[1..]; // leading 'h' keeps the token non-empty
        let mut out = Vec::new();
        let b = t.as_bytes();
        let mut i = 0;
        while i + 1 < b.len() {
            out.push(u8::from_str_radix(&t[i..i + 2], 16).expect("case file: hex expected"));
            i += 2;
        }
        String::from_utf8_lossy(&out).into_owned()
    }
    fn bytes(&mut self) -> Vec<u8> {
        let n = self.num();
        (0..n).map(|_| self.num() as u8).collect()
    }
    fn tree(&mut self) -> V {
        match self.next() {
            "b" => V::B(self.bytes()),
            "l" => {
                let n = self.num();
                V::L((0..n).map(|_| self.tree()).collect())
            }
            "o" => {
                let n = self.num();
                V::O((0..n).map(|_| self.tree()).collect())
            }
            "m" => {
                let p = self.hex();
                let n = self.num();
                V::M(p, (0..n).map(|_| self.tree()).collect())
            }
            "n" => V::N,
            _ => V::X(String::new()),
        }
    }
}

fn parse_ops(text: &str) -> Vec<Op> {
    let mut ops = Vec::new();
    for line in text.lines() {
        if line.trim().is_empty() {
            continue;
        }
        let mut t = Toks { it: line.split_whitespace() };
        let kind = match t.next() {
            "enc" => Kind::Enc,
            "dec" => Kind::Dec,
            _ => Kind::DecKey,
        };
        let id = t.hex();
        let pkt = t.hex();
        let mut op = Op { kind, id, pkt, val: V::N, bytes: vec![], tail: vec![] };
        if kind == Kind::Enc {
            op.val = t.tree();
        } else {
            op.bytes = t.bytes();
            op.tail = t.bytes();
        }
        ops.push(op);
    }
    ops
}

// ---------------------------------------------------------------------------------------------
// JSON output

pub fn jstr(s: &str) -> String {
    let mut o = String::with_capacity(s.len() + 2);
    o.push('"');
    for c in s.chars() {
        match c {
            '"' => o.push_str("\\\""),
            '\\' => o.push_str("\\\\"),
            '\n' => o.push_str("\\n"),
            '\r' => o.push_str("\\r"),
            '\t' => o.push_str("\\t"),
            c if (c as u32) < 0x20 => o.push_str(&format!("\\u{:04x}", c as u32)),
            c => o.push(c),
        }
    }
    o.push('"');
    o
}

pub fn jbytes(b: &[u8]) -> String {
    let mut o = String::from("[");
    for (i, x) in b.iter().enumerate() {
        if i > 0 {
            o.push(',');
        }
        o.push_str(&x.to_string());
    }
    o.push(']');
    o
}

fn jlist(xs: &[V]) -> String {
    let mut o = String::from("[");
    for (i, x) in xs.iter().enumerate() {
        if i > 0 {
            o.push(',');
        }
        o.push_str(&jtree(x));
    }
    o.push(']');
    o
}

pub fn jtree(v: &V) -> String {
    match v {
        V::B(b) => format!("{{\"t\":\"b\",\"b\":{}}}", jbytes(b)),
        V::L(xs) => format!("{{\"t\":\"l\",\"xs\":{}}}", jlist(xs)),
        V::O(fs) => format!("{{\"t\":\"o\",\"fs\":{}}}", jlist(fs)),
        V::M(p, fs) => format!("{{\"t\":\"m\",\"pkt\":{},\"fs\":{}}}", jstr(p), jlist(fs)),
        V::N => "{\"t\":\"n\"}".to_string(),
        V::X(r) => format!("{{\"t\":\"x\",\"repr\":{}}}", jstr(r)),
    }
}

fn kind_name(k: Kind) -> &'static str {
    match k {
        Kind::Enc => "enc",
        Kind::Dec => "dec",
        Kind::DecKey => "deckey",
    }
}

fn head(op: &Op) -> String {
    let mut s = format!("{{\"ev\":\"{}\",\"id\":{}", kind_name(op.kind), jstr(&op.id));
    if op.kind != Kind::Enc {
        s.push_str(&format!(",\"tail\":{}", op.tail.len()));
    }
    s
}

fn fail(op: &Op, cls: &str, err: &str, consumed: Option<usize>) -> String {
    let mut s = head(op);
    s.push_str(&format!(",\"ok\":false,\"cls\":{},\"err\":{}", jstr(cls), jstr(&clip(err))));
    if let Some(c) = consumed {
        s.push_str(&format!(",\"consumed\":{}", c));
    }
    s.push('}');
    s
}

fn clip(s: &str) -> String {
    s.chars().take(300).collect()
}

/// An op on a packet no emitted type exists for.
pub fn missing(op: &Op, why: &str) -> String {
    fail(op, "member-missing", why, if op.kind == Kind::Enc { None } else { Some(0) })
}

// ---------------------------------------------------------------------------------------------
// panics -> error text

static LAST_PANIC_AT: Mutex<String> = Mutex::new(String::new());

fn install_hook() {
    std::panic::set_hook(Box::new(|info| {
        let mut g = LAST_PANIC_AT.lock().unwrap_or_else(|e| e.into_inner());
        *g = match info.location() {
            Some(l) => format!(" at {}:{}", l.file(), l.line()),
            None => String::new(),
        };
    }));
}

fn guarded<R>(f: impl FnOnce() -> R) -> Result<R, String> {
    match catch_unwind(AssertUnwindSafe(f)) {
        Ok(r) => Ok(r),
        Err(p) => {
            let msg = if let Some(s) = p.downcast_ref::<&str>() {
                s.to_string()
            } else if let Some(s) = p.downcast_ref::<String>() {
                s.clone()
            } else {
                "panic with a non-string payload".to_string()
            };
            let at = LAST_PANIC_AT.lock().unwrap_or_else(|e| e.into_inner()).clone();
            Err(format!("panic: {}{}", msg, at))
        }
    }
}

// ---------------------------------------------------------------------------------------------
// executing one op on one emitted type

pub fn run_op<T>(
    op: &Op,
    build: &dyn Fn(&[V]) -> Result<T, E>,
    read: &dyn Fn(&T) -> Result<Vec<V>, E>,
    enc: &dyn Fn(&T, &mut BytesMut),
    dec: &dyn Fn(&mut Bytes) -> Option<T>,
) -> String {
    if op.kind == Kind::Enc {
        let fs = match &op.val {
            V::O(fs) => fs,
            _ => return fail(op, "build-raises", "the value is not an object tree", None),
        };
        let inst = match guarded(|| build(fs)) {
            Ok(Ok(x)) => x,
            Ok(Err(E::Missing(m))) => return fail(op, "member-missing", &m, None),
            Ok(Err(E::Build(m))) => return fail(op, "build-raises", &m, None),
            Err(m) => return fail(op, "build-raises", &m, None),
        };
        let _ = binary_codec::verif::drain_calcs();
        let mut buf = BytesMut::new();
        let r = guarded(|| enc(&inst, &mut buf));
        let calcs = binary_codec::verif::drain_calcs();
        return match r {
            Ok(()) => {
                let mut s = head(op);
                s.push_str(&format!(",\"ok\":true,\"bytes\":{},\"calcs\":[", jbytes(&buf[..])));
                for (i, (n, v)) in calcs.iter().enumerate() {
                    if i > 0 {
                        s.push(',');
                    }
                    s.push_str(&format!("[{},{}]", n, v));
                }
                s.push_str("]}");
                s
            }
            Err(m) => fail(op, "encode-raises", &m, None),
        };
    }
    let mut data = op.bytes.clone();
    data.extend_from_slice(&op.tail);
    let total = data.len();
    let mut b = Bytes::from(data);
    let r = guarded(|| dec(&mut b));
    let consumed = total.saturating_sub(b.remaining());
    let inst = match r {
        Ok(Some(x)) => x,
        Ok(None) => return fail(op, "decode-raises", "decode returned None", Some(consumed)),
        Err(m) => return fail(op, "decode-raises", &m, Some(consumed)),
    };
    let fs = match guarded(|| read(&inst)) {
        Ok(Ok(fs)) => fs,
        Ok(Err(E::Missing(m))) => return fail(op, "member-missing", &m, Some(consumed)),
        Ok(Err(E::Build(m))) => return fail(op, "read-raises", &m, Some(consumed)),
        Err(m) => return fail(op, "read-raises", &m, Some(consumed)),
    };
    let mut s = head(op);
    s.push_str(&format!(",\"ok\":true,\"consumed\":{},\"val\":{}", consumed, jtree(&V::O(fs))));
    if op.kind == Kind::Dec {
        let mut buf = BytesMut::new();
        let r = guarded(|| enc(&inst, &mut buf));
        let _ = binary_codec::verif::drain_calcs();
        match r {
            Ok(()) => s.push_str(&format!(",\"reenc\":{}", jbytes(&buf[..]))),
            Err(m) => s.push_str(&format!(",\"reenc_err\":{}", jstr(&clip(&m)))),
        }
    }
    s.push('}');
    s
}

// ---------------------------------------------------------------------------------------------
// conversions: value tree <-> native, following the DECLARED type (width, signedness) and the
// member's NATIVE type

pub trait NInt: Copy {
    fn from_i128(x: i128) -> Option<Self>;
    fn to_i128(self) -> Option<i128>;
}
macro_rules! nint {
    ($($t:ty),*) => {$(
        impl NInt for $t {
            fn from_i128(x: i128) -> Option<Self> { <$t>::try_from(x).ok() }
            fn to_i128(self) -> Option<i128> { i128::try_from(self).ok() }
        }
    )*};
}
nint!(u8, u16, u32, u64, u128, usize, i8, i16, i32, i64, i128, isize);

fn be_to_i128(b: &[u8], signed: bool) -> i128 {
    let mut x: i128 = 0;
    for y in b {
        x = (x << 8) | (*y as i128);
    }
    if signed && !b.is_empty() && b[0] & 0x80 != 0 {
        x -= 1i128 << (8 * b.len());
    }
    x
}

fn scalar_bytes<'a>(v: &'a V, w: usize, what: &str) -> Result<&'a [u8], E> {
    match v {
        V::B(b) if b.len() == w => Ok(&b[..]),
        V::B(b) => Err(E::Build(format!("{}: {} bytes given for a {}-byte scalar", what, b.len(), w))),
        V::N => Err(E::Build(format!("{}: null for a non-nullable native member", what))),
        _ => Err(E::Build(format!("{}: scalar tree expected", what))),
    }
}

pub fn b_int<N: NInt>(v: &V, w: usize, signed: bool) -> Result<N, E> {
    let b = scalar_bytes(v, w, "int")?;
    let x = be_to_i128(b, signed);
    N::from_i128(x).ok_or_else(|| E::Build(format!("native integer type cannot hold the declared value {}", x)))
}

pub fn r_int<N: NInt + std::fmt::Debug>(x: &N, w: usize, signed: bool) -> V {
    let bad = || V::X(format!("{:?}", x));
    let v = match x.to_i128() {
        Some(v) => v,
        None => return bad(),
    };
    let bits = 8 * w as u32;
    let (lo, hi) = if signed { (-(1i128 << (bits - 1)), (1i128 << (bits - 1)) - 1) } else { (0, (1i128 << bits) - 1) };
    if v < lo || v > hi {
        return bad();
    }
    let all = v.to_be_bytes();
    V::B(all[16 - w..].to_vec())
}

pub trait NFloat: Copy {
    fn from_be(b: &[u8]) -> Self;
    fn to_be(self, w: usize) -> Vec<u8>;
}
impl NFloat for f32 {
    fn from_be(b: &[u8]) -> Self {
        if b.len() == 4 {
            f32::from_bits(u32::from_be_bytes([b[0], b[1], b[2], b[3]]))
        } else {
            f64::from_be(b) as f32
        }
    }
    fn to_be(self, w: usize) -> Vec<u8> {
        if w == 4 {
            self.to_bits().to_be_bytes().to_vec()
        } else {
            (self as f64).to_bits().to_be_bytes().to_vec()
        }
    }
}
impl NFloat for f64 {
    fn from_be(b: &[u8]) -> Self {
        if b.len() == 8 {
            let mut a = [0u8; 8];
            a.copy_from_slice(b);
            f64::from_bits(u64::from_be_bytes(a))
        } else {
            f32::from_be(b) as f64
        }
    }
    fn to_be(self, w: usize) -> Vec<u8> {
        if w == 8 {
            self.to_bits().to_be_bytes().to_vec()
        } else {
            (self as f32).to_bits().to_be_bytes().to_vec()
        }
    }
}

pub fn b_float<N: NFloat>(v: &V, w: usize) -> Result<N, E> {
    Ok(N::from_be(scalar_bytes(v, w, "float")?))
}

pub fn r_float<N: NFloat>(x: &N, w: usize) -> V {
    V::B(x.to_be(w))
}

pub trait NChar: Copy {
    fn from_byte(b: u8) -> Self;
    fn to_byte(self) -> Option<u8>;
}
impl NChar for char {
    fn from_byte(b: u8) -> Self {
        b as char
    }
    fn to_byte(self) -> Option<u8> {
        u8::try_from(self as u32).ok()
    }
}
impl NChar for u8 {
    fn from_byte(b: u8) -> Self {
        b
    }
    fn to_byte(self) -> Option<u8> {
        Some(self)
    }
}
impl NChar for i8 {
    fn from_byte(b: u8) -> Self {
        b as i8
    }
    fn to_byte(self) -> Option<u8> {
        Some(self as u8)
    }
}

pub fn b_char<N: NChar>(v: &V) -> Result<N, E> {
    Ok(N::from_byte(scalar_bytes(v, 1, "char")?[0]))
}

pub fn r_char<N: NChar + std::fmt::Debug>(x: &N) -> V {
    match x.to_byte() {
        Some(b) => V::B(vec![b]),
        None => V::X(format!("{:?}", x)),
    }
}

pub fn b_str(v: &V) -> Result<String, E> {
    match v {
        V::B(b) => String::from_utf8(b.clone()).map_err(|_| E::Build("string value is not UTF-8".to_string())),
        V::N => Err(E::Build("null for a non-nullable native String".to_string())),
        _ => Err(E::Build("string tree expected".to_string())),
    }
}

pub fn r_str(x: &str) -> V {
    V::B(x.as_bytes().to_vec())
}

pub fn as_list(v: &V) -> Result<&[V], E> {
    match v {
        V::L(xs) => Ok(&xs[..]),
        V::N => Err(E::Build("null for a non-nullable native Vec".to_string())),
        _ => Err(E::Build("list tree expected".to_string())),
    }
}

pub fn as_obj(v: &V) -> Result<&[V], E> {
    match v {
        V::O(fs) => Ok(&fs[..]),
        V::N => Err(E::Build("null for a non-nullable native struct".to_string())),
        _ => Err(E::Build("object tree expected".to_string())),
    }
}

pub fn as_match(v: &V) -> Result<(&str, &[V]), E> {
    match v {
        V::M(p, fs) => Ok((p.as_str(), &fs[..])),
        V::N => Err(E::Build("null for a non-nullable native enum".to_string())),
        _ => Err(E::Build("match payload tree expected".to_string())),
    }
}

pub fn arity(v: &[V], n: usize, what: &str) -> Result<(), E> {
    if v.len() != n {
        return Err(E::Build(format!("{}: value tree has {} entries for {} declared fields", what, v.len(), n)));
    }
    Ok(())
}

// ---------------------------------------------------------------------------------------------

fn main() {
    let args: Vec<String> = std::env::args().collect();
    let mut skip = 0usize;
    let mut i = 2;
    while i < args.len() {
        if args[i] == "--skip" && i + 1 < args.len() {
            skip = args[i + 1].parse().expect("--skip k");
            i += 1;
        }
        i += 1;
    }
    let text = std::fs::read_to_string(&args[1]).expect("cannot read the case file");
    let ops = parse_ops(&text);
    install_hook();
    let out = std::io::stdout();
    for op in ops.iter().skip(skip) {
        let line = dispatch(op);
        let mut h = out.lock();
        let _ = h.write_all(line.as_bytes());
        let _ = h.write_all(b"\n");
        let _ = h.flush();
    }
}

// ---- generated part -------------------------------------------------------------------------
