//! Reference codec runtime (Rust) for the code emitted by fin-protoc's `rust_generator.go`.
//!
//! Trusted base of the verification framework (DESIGN 4.4, harness/PROTOCOL.md section 6): every helper
//! does exactly what its name and arguments state.
//!
//! * strings are UTF-8; a string length prefix counts BYTES, a list prefix counts ELEMENTS;
//!   prefixes are written with the prefix type `P` (u8/u16/u32/u64) in the byte order of the helper
//!   (`_le` suffix = little endian, no suffix = big endian);
//! * `put_char_array*` writes exactly `n` bytes (panics if the value is longer than `n` bytes),
//!   `get_char_array*` reads exactly `n` bytes and trims the pad byte on the padded side; the
//!   variants without a pad argument use space on the right;
//! * getters fail soft: truncated or malformed input gives `None`, never a panic;
//! * checksum services `VSUM8/16/32/64` (no other name is registered); every `calc` call is
//!   recorded and can be drained through `binary_codec::verif::drain_calcs()`.
//!
//! Scalars are not handled here: the emitted code calls the real `bytes` crate (`buf.put_u16_le`,
//! `buf.get_u16`) and `byteorder::{BigEndian, LittleEndian}::write_uNN` directly.
//!
//! Only names that belong to the API surface are exported at the crate root (the emitted files
//! glob-import `binary_codec::*`, `byteorder::*` and their sibling modules).

use bytes::{Buf, BufMut, Bytes, BytesMut};

// ------------------------------------------------------------------------------------------------
// the codec trait

pub trait BinaryCodec {
    fn encode(&self, buf: &mut BytesMut);
    fn decode(buf: &mut Bytes) -> Option<Self>
    where
        Self: Sized;
}

// ------------------------------------------------------------------------------------------------
// prefix types and list element types

/// Length / count prefix type: u8, u16, u32, u64.
pub trait PrefixLenType: Copy + 'static {
    const WIDTH: usize;
    /// Writes `n` with this width; panics if `n` does not fit.
    fn put_len(buf: &mut BytesMut, n: usize, le: bool);
    fn get_len(buf: &mut Bytes, le: bool) -> Option<usize>;
}

macro_rules! prefix_impl {
    ($t:ty, $w:expr) => {
        impl PrefixLenType for $t {
            const WIDTH: usize = $w;
            fn put_len(buf: &mut BytesMut, n: usize, le: bool) {
                let v: $t = match <$t>::try_from(n) {
                    Ok(v) => v,
                    Err(_) => panic!("length {} does not fit the {} prefix", n, stringify!($t)),
                };
                if le {
                    buf.put_slice(&v.to_le_bytes());
                } else {
                    buf.put_slice(&v.to_be_bytes());
                }
            }
            fn get_len(buf: &mut Bytes, le: bool) -> Option<usize> {
                if buf.remaining() < $w {
                    return None;
                }
                let mut a = [0u8; $w];
                buf.copy_to_slice(&mut a);
                let v = if le { <$t>::from_le_bytes(a) } else { <$t>::from_be_bytes(a) };
                usize::try_from(v).ok()
            }
        }
    };
}
prefix_impl!(u8, 1);
prefix_impl!(u16, 2);
prefix_impl!(u32, 4);
prefix_impl!(u64, 8);

/// Element type of `put_list` / `get_list`: the ten numeric types (and `char`, one byte).
pub trait BasicListType: Copy + 'static {
    const WIDTH: usize;
    fn put_basic(self, buf: &mut BytesMut, le: bool);
    fn get_basic(buf: &mut Bytes, le: bool) -> Option<Self>;
}

macro_rules! basic_impl {
    ($t:ty, $w:expr) => {
        impl BasicListType for $t {
            const WIDTH: usize = $w;
            fn put_basic(self, buf: &mut BytesMut, le: bool) {
                if le {
                    buf.put_slice(&self.to_le_bytes());
                } else {
                    buf.put_slice(&self.to_be_bytes());
                }
            }
            fn get_basic(buf: &mut Bytes, le: bool) -> Option<Self> {
                if buf.remaining() < $w {
                    return None;
                }
                let mut a = [0u8; $w];
                buf.copy_to_slice(&mut a);
                Some(if le { <$t>::from_le_bytes(a) } else { <$t>::from_be_bytes(a) })
            }
        }
    };
}
basic_impl!(u8, 1);
basic_impl!(u16, 2);
basic_impl!(u32, 4);
basic_impl!(u64, 8);
basic_impl!(i8, 1);
basic_impl!(i16, 2);
basic_impl!(i32, 4);
basic_impl!(i64, 8);
basic_impl!(f32, 4);
basic_impl!(f64, 8);

impl BasicListType for char {
    const WIDTH: usize = 1;
    fn put_basic(self, buf: &mut BytesMut, _le: bool) {
        put_char(buf, self);
    }
    fn get_basic(buf: &mut Bytes, _le: bool) -> Option<Self> {
        get_char(buf)
    }
}

fn pad_byte(pad: char) -> u8 {
    let c = pad as u32;
    if c > 0xFF {
        panic!("pad char {:?} is not a single byte", pad);
    }
    c as u8
}

fn take(buf: &mut Bytes, n: usize) -> Option<Vec<u8>> {
    if buf.remaining() < n {
        return None;
    }
    let mut v = vec![0u8; n];
    buf.copy_to_slice(&mut v);
    Some(v)
}

// ------------------------------------------------------------------------------------------------
// char (one byte)

pub fn put_char(buf: &mut BytesMut, c: char) {
    let v = c as u32;
    if v > 0xFF {
        panic!("char {:?} does not fit one byte", c);
    }
    buf.put_u8(v as u8);
}

pub fn get_char(buf: &mut Bytes) -> Option<char> {
    if buf.remaining() < 1 {
        return None;
    }
    Some(buf.get_u8() as char)
}

// ------------------------------------------------------------------------------------------------
// length-prefixed strings

fn put_string_impl<P: PrefixLenType>(buf: &mut BytesMut, s: &str, le: bool) {
    let b = s.as_bytes();
    P::put_len(buf, b.len(), le);
    buf.put_slice(b);
}

fn get_string_impl<P: PrefixLenType>(buf: &mut Bytes, le: bool) -> Option<String> {
    let n = P::get_len(buf, le)?;
    let v = take(buf, n)?;
    String::from_utf8(v).ok()
}

pub fn put_string<P: PrefixLenType>(buf: &mut BytesMut, s: &str) {
    put_string_impl::<P>(buf, s, false)
}

pub fn put_string_le<P: PrefixLenType>(buf: &mut BytesMut, s: &str) {
    put_string_impl::<P>(buf, s, true)
}

pub fn get_string<P: PrefixLenType>(buf: &mut Bytes) -> Option<String> {
    get_string_impl::<P>(buf, false)
}

pub fn get_string_le<P: PrefixLenType>(buf: &mut Bytes) -> Option<String> {
    get_string_impl::<P>(buf, true)
}

// ------------------------------------------------------------------------------------------------
// fixed-length strings ("char arrays")

/// Writes exactly `n` bytes: the UTF-8 bytes of `s` padded with `pad` on the left (`pad_left`)
/// or on the right.  Panics if `s` is longer than `n` bytes.
pub fn put_char_array_with_pad_char(buf: &mut BytesMut, s: &str, n: usize, pad: char, pad_left: bool) {
    let b = s.as_bytes();
    if b.len() > n {
        panic!("fixed string of {} bytes does not fit char[{}]", b.len(), n);
    }
    let p = pad_byte(pad);
    if pad_left {
        buf.put_bytes(p, n - b.len());
        buf.put_slice(b);
    } else {
        buf.put_slice(b);
        buf.put_bytes(p, n - b.len());
    }
}

/// Space on the right.
pub fn put_char_array(buf: &mut BytesMut, s: &str, n: usize) {
    put_char_array_with_pad_char(buf, s, n, ' ', false)
}

/// Reads exactly `n` bytes and trims `pad` on the left (`pad_left`) or on the right.
pub fn get_char_array_trim_pad_char(buf: &mut Bytes, n: usize, pad: char, pad_left: bool) -> Option<String> {
    let v = take(buf, n)?;
    let c = pad as u32;
    if c > 0xFF {
        // a pad char that is not a byte cannot occur in the data: nothing to trim
        return String::from_utf8(v).ok();
    }
    let p = c as u8;
    let mut lo = 0usize;
    let mut hi = v.len();
    if pad_left {
        while lo < hi && v[lo] == p {
            lo += 1;
        }
    } else {
        while hi > lo && v[hi - 1] == p {
            hi -= 1;
        }
    }
    String::from_utf8(v[lo..hi].to_vec()).ok()
}

/// Trims space on the right.
pub fn get_char_array(buf: &mut Bytes, n: usize) -> Option<String> {
    get_char_array_trim_pad_char(buf, n, ' ', false)
}

// ------------------------------------------------------------------------------------------------
// lists of basic types   (generic order: <T, P>)

fn put_list_impl<T: BasicListType, P: PrefixLenType>(buf: &mut BytesMut, v: &[T], le: bool) {
    P::put_len(buf, v.len(), le);
    for x in v {
        x.put_basic(buf, le);
    }
}

fn get_list_impl<T: BasicListType, P: PrefixLenType>(buf: &mut Bytes, le: bool) -> Option<Vec<T>> {
    let n = P::get_len(buf, le)?;
    match n.checked_mul(T::WIDTH) {
        Some(need) if need <= buf.remaining() => {}
        _ => return None,
    }
    let mut v = Vec::with_capacity(n);
    for _ in 0..n {
        v.push(T::get_basic(buf, le)?);
    }
    Some(v)
}

pub fn put_list<T: BasicListType, P: PrefixLenType>(buf: &mut BytesMut, v: &[T]) {
    put_list_impl::<T, P>(buf, v, false)
}

pub fn put_list_le<T: BasicListType, P: PrefixLenType>(buf: &mut BytesMut, v: &[T]) {
    put_list_impl::<T, P>(buf, v, true)
}

pub fn get_list<T: BasicListType, P: PrefixLenType>(buf: &mut Bytes) -> Option<Vec<T>> {
    get_list_impl::<T, P>(buf, false)
}

pub fn get_list_le<T: BasicListType, P: PrefixLenType>(buf: &mut Bytes) -> Option<Vec<T>> {
    get_list_impl::<T, P>(buf, true)
}

// ------------------------------------------------------------------------------------------------
// lists of chars   (generic order: <P>)

pub fn put_char_list<P: PrefixLenType>(buf: &mut BytesMut, v: &[char]) {
    put_list_impl::<char, P>(buf, v, false)
}

pub fn put_char_list_le<P: PrefixLenType>(buf: &mut BytesMut, v: &[char]) {
    put_list_impl::<char, P>(buf, v, true)
}

pub fn get_char_list<P: PrefixLenType>(buf: &mut Bytes) -> Option<Vec<char>> {
    get_list_impl::<char, P>(buf, false)
}

pub fn get_char_list_le<P: PrefixLenType>(buf: &mut Bytes) -> Option<Vec<char>> {
    get_list_impl::<char, P>(buf, true)
}

// ------------------------------------------------------------------------------------------------
// lists of length-prefixed strings   (generic order: <P = list prefix, S = string prefix>)

fn put_string_list_impl<P: PrefixLenType, S: PrefixLenType, X: AsRef<str>>(buf: &mut BytesMut, v: &[X], le: bool) {
    P::put_len(buf, v.len(), le);
    for x in v {
        put_string_impl::<S>(buf, x.as_ref(), le);
    }
}

fn get_string_list_impl<P: PrefixLenType, S: PrefixLenType>(buf: &mut Bytes, le: bool) -> Option<Vec<String>> {
    let n = P::get_len(buf, le)?;
    match n.checked_mul(S::WIDTH) {
        Some(need) if need <= buf.remaining() => {}
        _ => return None,
    }
    let mut v = Vec::new();
    for _ in 0..n {
        v.push(get_string_impl::<S>(buf, le)?);
    }
    Some(v)
}

pub fn put_string_list<P: PrefixLenType, S: PrefixLenType>(buf: &mut BytesMut, v: &[String]) {
    put_string_list_impl::<P, S, String>(buf, v, false)
}

pub fn put_string_list_le<P: PrefixLenType, S: PrefixLenType>(buf: &mut BytesMut, v: &[String]) {
    put_string_list_impl::<P, S, String>(buf, v, true)
}

pub fn get_string_list<P: PrefixLenType, S: PrefixLenType>(buf: &mut Bytes) -> Option<Vec<String>> {
    get_string_list_impl::<P, S>(buf, false)
}

pub fn get_string_list_le<P: PrefixLenType, S: PrefixLenType>(buf: &mut Bytes) -> Option<Vec<String>> {
    get_string_list_impl::<P, S>(buf, true)
}

// ------------------------------------------------------------------------------------------------
// lists of fixed-length strings   (generic order: <P>)

fn put_fixed_string_list_impl<P: PrefixLenType>(buf: &mut BytesMut, v: &[String], n: usize, pad: char, pad_left: bool, le: bool) {
    P::put_len(buf, v.len(), le);
    for x in v {
        put_char_array_with_pad_char(buf, x, n, pad, pad_left);
    }
}

fn get_fixed_string_list_impl<P: PrefixLenType>(buf: &mut Bytes, n: usize, pad: char, pad_left: bool, le: bool) -> Option<Vec<String>> {
    let cnt = P::get_len(buf, le)?;
    match cnt.checked_mul(n) {
        Some(need) if need <= buf.remaining() => {}
        _ => return None,
    }
    let mut v = Vec::new();
    for _ in 0..cnt {
        v.push(get_char_array_trim_pad_char(buf, n, pad, pad_left)?);
    }
    Some(v)
}

pub fn put_fixed_string_list<P: PrefixLenType>(buf: &mut BytesMut, v: &[String], n: usize) {
    put_fixed_string_list_impl::<P>(buf, v, n, ' ', false, false)
}

pub fn put_fixed_string_list_le<P: PrefixLenType>(buf: &mut BytesMut, v: &[String], n: usize) {
    put_fixed_string_list_impl::<P>(buf, v, n, ' ', false, true)
}

pub fn put_fixed_string_list_with_pad_char<P: PrefixLenType>(buf: &mut BytesMut, v: &[String], n: usize, pad: char, pad_left: bool) {
    put_fixed_string_list_impl::<P>(buf, v, n, pad, pad_left, false)
}

pub fn put_fixed_string_list_with_pad_char_le<P: PrefixLenType>(buf: &mut BytesMut, v: &[String], n: usize, pad: char, pad_left: bool) {
    put_fixed_string_list_impl::<P>(buf, v, n, pad, pad_left, true)
}

pub fn get_fixed_string_list<P: PrefixLenType>(buf: &mut Bytes, n: usize) -> Option<Vec<String>> {
    get_fixed_string_list_impl::<P>(buf, n, ' ', false, false)
}

pub fn get_fixed_string_list_le<P: PrefixLenType>(buf: &mut Bytes, n: usize) -> Option<Vec<String>> {
    get_fixed_string_list_impl::<P>(buf, n, ' ', false, true)
}

pub fn get_fixed_string_list_trim_pad_char<P: PrefixLenType>(buf: &mut Bytes, n: usize, pad: char, pad_left: bool) -> Option<Vec<String>> {
    get_fixed_string_list_impl::<P>(buf, n, pad, pad_left, false)
}

pub fn get_fixed_string_list_trim_pad_char_le<P: PrefixLenType>(buf: &mut Bytes, n: usize, pad: char, pad_left: bool) -> Option<Vec<String>> {
    get_fixed_string_list_impl::<P>(buf, n, pad, pad_left, true)
}

// ------------------------------------------------------------------------------------------------
// lists of objects   (generic order: <T, P>)

fn put_object_list_impl<T: BinaryCodec, P: PrefixLenType>(buf: &mut BytesMut, v: &[T], le: bool) {
    P::put_len(buf, v.len(), le);
    for x in v {
        x.encode(buf);
    }
}

fn get_object_list_impl<T: BinaryCodec, P: PrefixLenType>(buf: &mut Bytes, le: bool) -> Option<Vec<T>> {
    let n = P::get_len(buf, le)?;
    let mut v = Vec::new();
    for _ in 0..n {
        v.push(T::decode(buf)?);
    }
    Some(v)
}

pub fn put_object_list<T: BinaryCodec, P: PrefixLenType>(buf: &mut BytesMut, v: &[T]) {
    put_object_list_impl::<T, P>(buf, v, false)
}

pub fn put_object_list_le<T: BinaryCodec, P: PrefixLenType>(buf: &mut BytesMut, v: &[T]) {
    put_object_list_impl::<T, P>(buf, v, true)
}

pub fn get_object_list<T: BinaryCodec, P: PrefixLenType>(buf: &mut Bytes) -> Option<Vec<T>> {
    get_object_list_impl::<T, P>(buf, false)
}

pub fn get_object_list_le<T: BinaryCodec, P: PrefixLenType>(buf: &mut Bytes) -> Option<Vec<T>> {
    get_object_list_impl::<T, P>(buf, true)
}

// ------------------------------------------------------------------------------------------------
// checksum services

#[derive(Debug, Clone, Copy, PartialEq)]
pub enum Checksum {
    U8(u8),
    U16(u16),
    U32(u32),
    U64(u64),
    I8(i8),
    I16(i16),
    I32(i32),
    I64(i64),
}

pub trait ChecksumService: Send + Sync {
    /// Checksum over exactly the bytes of `data` (pass the buffer: `&BytesMut`, `&mut BytesMut`
    /// and `&Bytes` all coerce to `&[u8]`).
    fn calc(&self, data: &[u8]) -> Checksum;
}

/// `Alg(bs) = ((sum over i >= 1 of i * bs[i]) + 7 * len(bs)) mod 65521`, additionally `mod 256`
/// for the one-byte service (spec/Wire.tla!Alg).
pub struct VSumService {
    width: usize,
}

impl VSumService {
    pub fn alg(data: &[u8]) -> u64 {
        let mut s: u64 = 0;
        for (i, b) in data.iter().enumerate() {
            s = (s + ((i as u64 + 1) % 65521) * (*b as u64)) % 65521;
        }
        (s + (7 * (data.len() as u64 % 65521)) % 65521) % 65521
    }
}

impl ChecksumService for VSumService {
    fn calc(&self, data: &[u8]) -> Checksum {
        let mut a = VSumService::alg(data);
        if self.width == 1 {
            a %= 256;
        }
        verif::record_calc(data.len(), a);
        match self.width {
            1 => Checksum::U8(a as u8),
            2 => Checksum::U16(a as u16),
            4 => Checksum::U32(a as u32),
            _ => Checksum::U64(a),
        }
    }
}

static VSUM8: VSumService = VSumService { width: 1 };
static VSUM16: VSumService = VSumService { width: 2 };
static VSUM32: VSumService = VSumService { width: 4 };
static VSUM64: VSumService = VSumService { width: 8 };

pub struct ChecksumServiceContext {
    _private: (),
}

impl ChecksumServiceContext {
    /// The service registered under `name`, `None` for every other name.
    pub fn get<K: AsRef<str>>(&self, name: K) -> Option<&'static dyn ChecksumService> {
        match name.as_ref() {
            "VSUM8" => Some(&VSUM8),
            "VSUM16" => Some(&VSUM16),
            "VSUM32" => Some(&VSUM32),
            "VSUM64" => Some(&VSUM64),
            _ => None,
        }
    }
}

pub static CHECKSUM_SERVICE_CONTEXT: ChecksumServiceContext = ChecksumServiceContext { _private: () };

// ------------------------------------------------------------------------------------------------
// observation hooks for the driver (not part of the emitted code's API surface; not glob-exported
// at the root on purpose)

pub mod verif {
    use std::sync::Mutex;

    static CALCS: Mutex<Vec<(usize, u64)>> = Mutex::new(Vec::new());

    pub(crate) fn record_calc(covered: usize, value: u64) {
        let mut g = CALCS.lock().unwrap_or_else(|e| e.into_inner());
        g.push((covered, value));
    }

    /// Every `calc` call since the previous drain: (number of bytes covered, value returned).
    pub fn drain_calcs() -> Vec<(usize, u64)> {
        let mut g = CALCS.lock().unwrap_or_else(|e| e.into_inner());
        std::mem::take(&mut *g)
    }
}

// ------------------------------------------------------------------------------------------------

#[cfg(test)]
mod tests {
    use super::*;

    #[test]
    fn strings_and_prefixes() {
        let mut b = BytesMut::new();
        put_string::<u16>(&mut b, "AB");
        put_string_le::<u32>(&mut b, &"C".to_string());
        assert_eq!(&b[..], &[0, 2, 65, 66, 1, 0, 0, 0, 67]);
        let mut r = b.freeze();
        assert_eq!(get_string::<u16>(&mut r), Some("AB".to_string()));
        assert_eq!(get_string_le::<u32>(&mut r), Some("C".to_string()));
        assert_eq!(get_string::<u8>(&mut r), None);
        let mut t = Bytes::from_static(&[0, 5, 65]);
        assert_eq!(get_string::<u16>(&mut t), None);
    }

    #[test]
    fn char_arrays() {
        let mut b = BytesMut::new();
        put_char_array(&mut b, "ab", 4);
        put_char_array_with_pad_char(&mut b, &"7".to_string(), 3, '0', true);
        put_char_array_with_pad_char(&mut b, "x", 2, '\0', false);
        assert_eq!(&b[..], b"ab  007x\0");
        let mut r = b.freeze();
        assert_eq!(get_char_array(&mut r, 4), Some("ab".to_string()));
        assert_eq!(get_char_array_trim_pad_char(&mut r, 3, '0', true), Some("7".to_string()));
        assert_eq!(get_char_array_trim_pad_char(&mut r, 2, '\0', false), Some("x".to_string()));
        assert_eq!(get_char_array(&mut r, 1), None);
    }

    #[test]
    #[should_panic]
    fn char_array_too_long() {
        let mut b = BytesMut::new();
        put_char_array(&mut b, "abcde", 4);
    }

    #[test]
    fn lists() {
        let mut b = BytesMut::new();
        put_list::<u16, u8>(&mut b, &vec![1u16, 2]);
        put_list_le::<i32, u16>(&mut b, &[-1i32]);
        put_string_list::<u8, u16>(&mut b, &vec!["a".to_string()]);
        put_fixed_string_list_with_pad_char_le::<u16>(&mut b, &vec!["q".to_string()], 2, '0', true);
        put_char_list::<u8>(&mut b, &vec!['x', 'y']);
        assert_eq!(&b[..], &[2, 0, 1, 0, 2, 1, 0, 255, 255, 255, 255, 1, 0, 1, 97, 1, 0, 48, 113, 2, 120, 121]);
        let mut r = b.freeze();
        assert_eq!(get_list::<u16, u8>(&mut r), Some(vec![1u16, 2]));
        assert_eq!(get_list_le::<i32, u16>(&mut r), Some(vec![-1i32]));
        assert_eq!(get_string_list::<u8, u16>(&mut r), Some(vec!["a".to_string()]));
        assert_eq!(get_fixed_string_list_trim_pad_char_le::<u16>(&mut r, 2, '0', true), Some(vec!["q".to_string()]));
        assert_eq!(get_char_list::<u8>(&mut r), Some(vec!['x', 'y']));
        let mut t = Bytes::from_static(&[255, 255, 255, 255, 1]);
        assert_eq!(get_list::<u64, u32>(&mut t), None);
    }

    #[test]
    fn checksum() {
        let mut b = BytesMut::new();
        b.put_slice(&[1, 2, 3]);
        let buf = &mut b;
        let _ = verif::drain_calcs();
        let v = CHECKSUM_SERVICE_CONTEXT.get("VSUM32").and_then(|s| match s.calc(buf) {
            Checksum::U32(v) => Some(v),
            _ => None,
        });
        assert_eq!(v, Some(1 + 4 + 9 + 21));
        assert!(CHECKSUM_SERVICE_CONTEXT.get("NONE").is_none());
        assert!(CHECKSUM_SERVICE_CONTEXT.get("CRC32").is_none());
        assert_eq!(verif::drain_calcs(), vec![(3usize, 35u64)]);
        match CHECKSUM_SERVICE_CONTEXT.get("VSUM8".to_string()).unwrap().calc(&[255u8; 300]) {
            Checksum::U8(_) => {}
            other => panic!("{:?}", other),
        }
    }
}
