package org.junit.jupiter.api;

import java.lang.annotation.ElementType;
import java.lang.annotation.Retention;
import java.lang.annotation.RetentionPolicy;
import java.lang.annotation.Target;

/** Stand-in for JUnit 5's @BeforeAll (see verif.TestRunner). */
@Retention(RetentionPolicy.RUNTIME)
@Target(ElementType.METHOD)
public @interface BeforeAll {
}
