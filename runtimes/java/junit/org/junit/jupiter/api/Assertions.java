package org.junit.jupiter.api;

import java.util.Arrays;
import java.util.Objects;

/** Stand-in for JUnit 5's Assertions (message last): failures throw AssertionError. */
public class Assertions {
    protected Assertions() {
    }

    private static String fmt(String message, Object expected, Object actual) {
        String m = message == null || message.isEmpty() ? "" : message + " ==> ";
        return m + "expected: <" + expected + "> but was: <" + actual + ">";
    }

    public static <V> V fail() {
        throw new AssertionError();
    }

    public static <V> V fail(String message) {
        throw new AssertionError(message);
    }

    public static void assertTrue(boolean condition) {
        assertTrue(condition, null);
    }

    public static void assertTrue(boolean condition, String message) {
        if (!condition) {
            fail(message);
        }
    }

    public static void assertFalse(boolean condition) {
        assertTrue(!condition, null);
    }

    public static void assertFalse(boolean condition, String message) {
        assertTrue(!condition, message);
    }

    public static void assertEquals(Object expected, Object actual) {
        assertEquals(expected, actual, null);
    }

    public static void assertEquals(Object expected, Object actual, String message) {
        if (!Objects.equals(expected, actual)) {
            fail(fmt(message, expected, actual));
        }
    }

    public static void assertEquals(long expected, long actual) {
        if (expected != actual) {
            fail(fmt(null, expected, actual));
        }
    }

    public static void assertEquals(int expected, int actual) {
        if (expected != actual) {
            fail(fmt(null, expected, actual));
        }
    }

    public static void assertEquals(short expected, short actual) {
        if (expected != actual) {
            fail(fmt(null, expected, actual));
        }
    }

    public static void assertEquals(byte expected, byte actual) {
        if (expected != actual) {
            fail(fmt(null, expected, actual));
        }
    }

    public static void assertEquals(double expected, double actual) {
        if (Double.compare(expected, actual) != 0) {
            fail(fmt(null, expected, actual));
        }
    }

    public static void assertEquals(float expected, float actual) {
        if (Float.compare(expected, actual) != 0) {
            fail(fmt(null, expected, actual));
        }
    }

    public static void assertEquals(double expected, double actual, double delta) {
        if (Double.compare(expected, actual) != 0 && !(Math.abs(expected - actual) <= delta)) {
            fail(fmt(null, expected, actual));
        }
    }

    public static void assertNotEquals(Object unexpected, Object actual) {
        if (Objects.equals(unexpected, actual)) {
            fail("expected: not equal but was: <" + actual + ">");
        }
    }

    public static void assertArrayEquals(byte[] expected, byte[] actual) {
        if (!Arrays.equals(expected, actual)) {
            fail(fmt(null, Arrays.toString(expected), Arrays.toString(actual)));
        }
    }

    public static void assertArrayEquals(Object[] expected, Object[] actual) {
        if (!Arrays.deepEquals(expected, actual)) {
            fail(fmt(null, Arrays.deepToString(expected), Arrays.deepToString(actual)));
        }
    }

    public static void assertNotNull(Object actual) {
        assertTrue(actual != null, "expected: not <null>");
    }

    public static void assertNull(Object actual) {
        assertTrue(actual == null, "expected: <null> but was: <" + actual + ">");
    }

    public static void assertSame(Object expected, Object actual) {
        assertTrue(expected == actual, "expected same");
    }
}
