package org.junit;

import java.lang.annotation.ElementType;
import java.lang.annotation.Retention;
import java.lang.annotation.RetentionPolicy;
import java.lang.annotation.Target;

/** Stand-in for JUnit 4's @BeforeClass (see verif.TestRunner). */
@Retention(RetentionPolicy.RUNTIME)
@Target(ElementType.METHOD)
public @interface BeforeClass {
}
