package org.junit;

import java.util.Arrays;
import java.util.Objects;

/** Stand-in for JUnit 4's Assert: failures throw AssertionError. */
public class Assert {
    protected Assert() {
    }

    private static String fmt(String message, Object expected, Object actual) {
        String m = message == null || message.isEmpty() ? "" : message + " ";
        return m + "expected:<" + expected + "> but was:<" + actual + ">";
    }

    public static void fail() {
        throw new AssertionError();
    }

    public static void fail(String message) {
        throw new AssertionError(message);
    }

    public static void assertTrue(String message, boolean condition) {
        if (!condition) {
            fail(message);
        }
    }

    public static void assertTrue(boolean condition) {
        assertTrue(null, condition);
    }

    public static void assertFalse(String message, boolean condition) {
        assertTrue(message, !condition);
    }

    public static void assertFalse(boolean condition) {
        assertFalse(null, condition);
    }

    public static void assertEquals(String message, Object expected, Object actual) {
        if (!Objects.equals(expected, actual)) {
            fail(fmt(message, expected, actual));
        }
    }

    public static void assertEquals(Object expected, Object actual) {
        assertEquals(null, expected, actual);
    }

    public static void assertEquals(String message, long expected, long actual) {
        if (expected != actual) {
            fail(fmt(message, expected, actual));
        }
    }

    public static void assertEquals(long expected, long actual) {
        assertEquals(null, expected, actual);
    }

    public static void assertEquals(String message, double expected, double actual, double delta) {
        if (Double.compare(expected, actual) != 0 && !(Math.abs(expected - actual) <= delta)) {
            fail(fmt(message, expected, actual));
        }
    }

    public static void assertEquals(double expected, double actual, double delta) {
        assertEquals(null, expected, actual, delta);
    }

    public static void assertEquals(String message, float expected, float actual, float delta) {
        if (Float.compare(expected, actual) != 0 && !(Math.abs(expected - actual) <= delta)) {
            fail(fmt(message, expected, actual));
        }
    }

    public static void assertEquals(float expected, float actual, float delta) {
        assertEquals(null, expected, actual, delta);
    }

    public static void assertNotEquals(String message, Object unexpected, Object actual) {
        if (Objects.equals(unexpected, actual)) {
            fail((message == null ? "" : message + " ") + "Values should be different. Actual: " + actual);
        }
    }

    public static void assertNotEquals(Object unexpected, Object actual) {
        assertNotEquals(null, unexpected, actual);
    }

    public static void assertNotEquals(long unexpected, long actual) {
        if (unexpected == actual) {
            fail("Values should be different. Actual: " + actual);
        }
    }

    public static void assertArrayEquals(String message, byte[] expected, byte[] actual) {
        if (!Arrays.equals(expected, actual)) {
            fail(fmt(message, Arrays.toString(expected), Arrays.toString(actual)));
        }
    }

    public static void assertArrayEquals(byte[] expected, byte[] actual) {
        assertArrayEquals(null, expected, actual);
    }

    public static void assertArrayEquals(String message, Object[] expected, Object[] actual) {
        if (!Arrays.deepEquals(expected, actual)) {
            fail(fmt(message, Arrays.deepToString(expected), Arrays.deepToString(actual)));
        }
    }

    public static void assertArrayEquals(Object[] expected, Object[] actual) {
        assertArrayEquals(null, expected, actual);
    }

    public static void assertArrayEquals(int[] expected, int[] actual) {
        if (!Arrays.equals(expected, actual)) {
            fail(fmt(null, Arrays.toString(expected), Arrays.toString(actual)));
        }
    }

    public static void assertArrayEquals(long[] expected, long[] actual) {
        if (!Arrays.equals(expected, actual)) {
            fail(fmt(null, Arrays.toString(expected), Arrays.toString(actual)));
        }
    }

    public static void assertArrayEquals(short[] expected, short[] actual) {
        if (!Arrays.equals(expected, actual)) {
            fail(fmt(null, Arrays.toString(expected), Arrays.toString(actual)));
        }
    }

    public static void assertArrayEquals(char[] expected, char[] actual) {
        if (!Arrays.equals(expected, actual)) {
            fail(fmt(null, Arrays.toString(expected), Arrays.toString(actual)));
        }
    }

    public static void assertNotNull(String message, Object object) {
        assertTrue(message, object != null);
    }

    public static void assertNotNull(Object object) {
        assertNotNull(null, object);
    }

    public static void assertNull(String message, Object object) {
        if (object != null) {
            fail((message == null ? "" : message + " ") + "expected null, but was:<" + object + ">");
        }
    }

    public static void assertNull(Object object) {
        assertNull(null, object);
    }

    public static void assertSame(String message, Object expected, Object actual) {
        if (expected != actual) {
            fail((message == null ? "" : message + " ") + "expected same:<" + expected + "> was not:<" + actual + ">");
        }
    }

    public static void assertSame(Object expected, Object actual) {
        assertSame(null, expected, actual);
    }

    public static void assertNotSame(Object unexpected, Object actual) {
        if (unexpected == actual) {
            fail("expected not same");
        }
    }
}
