package verif;

import io.netty.buffer.ByteBuf;
import io.netty.buffer.Unpooled;
import java.io.FileOutputStream;
import java.io.IOException;
import java.io.OutputStream;
import java.io.PrintStream;
import java.lang.reflect.Array;
import java.lang.reflect.Constructor;
import java.lang.reflect.Field;
import java.lang.reflect.InvocationTargetException;
import java.lang.reflect.Method;
import java.lang.reflect.Modifier;
import java.lang.reflect.ParameterizedType;
import java.lang.reflect.Type;
import java.lang.reflect.WildcardType;
import java.math.BigInteger;
import java.nio.charset.StandardCharsets;
import java.nio.file.Files;
import java.nio.file.Path;
import java.nio.file.Paths;
import java.util.ArrayList;
import java.util.Collection;
import java.util.LinkedHashMap;
import java.util.List;
import java.util.Map;
import java.util.stream.Collectors;
import java.util.stream.Stream;

/**
 * Generic driver for the emitted Java codec (see harness/PROTOCOL.md).
 *
 * usage: java -cp <driver classes>:<runtime classes>:<emitted classes> verif.Driver <emitted classes dir> <case.json> [--skip k]
 *        -> ndjson events on stdout, one per op, flushed after each
 *
 * Classes are found by NORMALISED simple name (lower-case, '_' dropped) among the classes compiled from the
 * emitted main sources (for an inline object the classes nested in the enclosing emitted class are searched
 * first); members are discovered POSITIONALLY: getDeclaredFields() in declaration order without static /
 * synthetic fields.  The emitter's case conversions are not re-implemented; members are read and written
 * through reflection, never through getters / setters.
 *
 * Conversions follow the DECLARED type of the program (width, signedness, float) and the member's Java
 * type: a member of the declared width carries the two's-complement bit pattern (Java has no unsigned
 * types: u8 200 lives in a byte as -56); a wider member carries the numeric value; whatever a member holds
 * that is not a value of the declared type is reported as {"t":"x"}.
 */
public final class Driver {
    static final class MemberMismatch extends RuntimeException {
        private static final long serialVersionUID = 1L;

        MemberMismatch(String m) {
            super(m);
        }
    }

    static final class Unrepresentable extends RuntimeException {
        private static final long serialVersionUID = 1L;

        Unrepresentable(String m) {
            super(m);
        }
    }

    private final Map<String, Object> prog;
    private final List<Class<?>> emitted = new ArrayList<>();
    private final Map<String, Class<?>> topLevel = new LinkedHashMap<>();
    private final Map<String, Class<?>> anyLevel = new LinkedHashMap<>();

    Driver(Map<String, Object> prog, Path classesDir) throws IOException {
        this.prog = prog;
        List<String> names;
        try (Stream<Path> st = Files.walk(classesDir)) {
            names = st.filter(p -> p.toString().endsWith(".class"))
                    .map(p -> classesDir.relativize(p).toString())
                    .map(n -> n.substring(0, n.length() - ".class".length()).replace('/', '.').replace('\\', '.'))
                    .sorted().collect(Collectors.toList());
        }
        ClassLoader cl = Driver.class.getClassLoader();
        for (String n : names) {
            Class<?> c;
            try {
                c = Class.forName(n, false, cl);
            } catch (Throwable t) {
                continue;
            }
            if (c.isInterface() || c.isEnum() || c.isAnnotation() || c.isAnonymousClass() || c.isSynthetic() || c.isLocalClass()) {
                continue;
            }
            emitted.add(c);
            String key = norm(c.getSimpleName());
            if (c.getEnclosingClass() == null) {
                topLevel.putIfAbsent(key, c);
            }
            anyLevel.putIfAbsent(key, c);
        }
    }

    static String norm(String s) {
        return s.replace("_", "").toLowerCase(java.util.Locale.ROOT);
    }

    // ----------------------------------------------------------------------------------------------
    // program access

    @SuppressWarnings("unchecked")
    static Map<String, Object> obj(Object o) {
        return (Map<String, Object>) o;
    }

    @SuppressWarnings("unchecked")
    static List<Object> arr(Object o) {
        return o == null ? new ArrayList<>() : (List<Object>) o;
    }

    static String str(Map<String, Object> m, String k) {
        Object v = m.get(k);
        return v == null ? "" : String.valueOf(v);
    }

    static boolean bool(Map<String, Object> m, String k) {
        return Boolean.TRUE.equals(m.get(k));
    }

    Map<String, Object> pkt(String name) {
        for (Object p : arr(prog.get("pkts"))) {
            if (name.equals(obj(p).get("name"))) {
                return obj(p);
            }
        }
        throw new IllegalArgumentException("no packet " + name + " in the program");
    }

    Map<String, Object> meta(String name) {
        for (Object e : arr(prog.get("metas"))) {
            if (name.equals(obj(e).get("name"))) {
                return obj(e);
            }
        }
        throw new IllegalArgumentException("no MetaData entry " + name + " in the program");
    }

    /** "meta" fields take kind / type / n from the MetaData entry (one level of ref) */
    Map<String, Object> res(Map<String, Object> f) {
        if (!"meta".equals(f.get("k"))) {
            return f;
        }
        Map<String, Object> e = meta(str(f, "ty"));
        if (!str(e, "ref").isEmpty()) {
            e = meta(str(e, "ref"));
        }
        Map<String, Object> g = new LinkedHashMap<>(f);
        g.put("k", e.get("k"));
        g.put("ty", e.get("ty"));
        g.put("n", e.get("n"));
        return g;
    }

    static int width(String ty) {
        switch (ty) {
            case "u8": case "i8": case "char": return 1;
            case "u16": case "i16": return 2;
            case "u32": case "i32": case "f32": return 4;
            case "u64": case "i64": case "f64": return 8;
            default: throw new IllegalArgumentException("unknown scalar type " + ty);
        }
    }

    // ----------------------------------------------------------------------------------------------
    // emitted classes and members

    private static boolean candidate(Class<?> c) {
        return !(c.isInterface() || c.isEnum() || c.isAnnotation() || c.isSynthetic());
    }

    /** the emitted class of a packet / inline object, by normalised name */
    Class<?> cls(String name, Class<?> enclosing) {
        String key = norm(name);
        for (Class<?> e = enclosing; e != null; e = e.getEnclosingClass()) {
            for (Class<?> n : e.getDeclaredClasses()) {
                if (candidate(n) && norm(n.getSimpleName()).equals(key)) {
                    return n;
                }
            }
        }
        Class<?> c = topLevel.get(key);
        if (c == null) {
            c = anyLevel.get(key);
        }
        if (c == null) {
            throw new MemberMismatch("no class for packet " + name);
        }
        return c;
    }

    static List<Field> members(Class<?> c) {
        List<Field> out = new ArrayList<>();
        for (Field f : c.getDeclaredFields()) {
            if (Modifier.isStatic(f.getModifiers()) || f.isSynthetic()) {
                continue;
            }
            f.setAccessible(true);
            out.add(f);
        }
        return out;
    }

    static Object newInstance(Class<?> c) throws Throwable {
        try {
            Constructor<?> k = c.getDeclaredConstructor();
            k.setAccessible(true);
            return k.newInstance();
        } catch (InvocationTargetException e) {
            throw e.getCause();
        }
    }

    static void call(Object inst, String method, ByteBuf buf) throws Throwable {
        if (inst instanceof com.finproto.codec.BinaryCodec) {
            if (method.equals("encode")) {
                ((com.finproto.codec.BinaryCodec) inst).encode(buf);
            } else {
                ((com.finproto.codec.BinaryCodec) inst).decode(buf);
            }
            return;
        }
        for (Method m : inst.getClass().getMethods()) {
            if (m.getName().equals(method) && m.getParameterCount() == 1 && m.getParameterTypes()[0].isAssignableFrom(ByteBuf.class)) {
                try {
                    m.setAccessible(true);
                    m.invoke(inst, buf);
                } catch (InvocationTargetException e) {
                    throw e.getCause();
                }
                return;
            }
        }
        throw new NoSuchMethodException(inst.getClass().getName() + "." + method + "(ByteBuf)");
    }

    static Class<?> box(Class<?> c) {
        if (!c.isPrimitive()) {
            return c;
        }
        if (c == byte.class) return Byte.class;
        if (c == short.class) return Short.class;
        if (c == int.class) return Integer.class;
        if (c == long.class) return Long.class;
        if (c == float.class) return Float.class;
        if (c == double.class) return Double.class;
        if (c == char.class) return Character.class;
        if (c == boolean.class) return Boolean.class;
        return c;
    }

    /** element class of a List<E> / E[] member (Object when unknown) */
    static Class<?> elementType(Field m) {
        if (m.getType().isArray()) {
            return m.getType().getComponentType();
        }
        Type g = m.getGenericType();
        if (g instanceof ParameterizedType) {
            Type[] as = ((ParameterizedType) g).getActualTypeArguments();
            if (as.length == 1) {
                Type a = as[0];
                if (a instanceof WildcardType && ((WildcardType) a).getUpperBounds().length == 1) {
                    a = ((WildcardType) a).getUpperBounds()[0];
                }
                if (a instanceof Class) {
                    return (Class<?>) a;
                }
                if (a instanceof ParameterizedType && ((ParameterizedType) a).getRawType() instanceof Class) {
                    return (Class<?>) ((ParameterizedType) a).getRawType();
                }
            }
        }
        return Object.class;
    }

    static int intWidth(Class<?> boxed) {
        if (boxed == Byte.class) return 1;
        if (boxed == Short.class) return 2;
        if (boxed == Integer.class) return 4;
        if (boxed == Long.class) return 8;
        return 0;
    }

    static byte[] bytesOf(Object tree) {
        List<Object> bs = arr(obj(tree).get("b"));
        byte[] out = new byte[bs.size()];
        for (int i = 0; i < out.length; i++) {
            out[i] = (byte) ((Number) bs.get(i)).intValue();
        }
        return out;
    }

    // ----------------------------------------------------------------------------------------------
    // value tree -> native

    Object toNative(Map<String, Object> f, Map<String, Object> v, Class<?> target, Class<?> owner) throws Throwable {
        String k = str(f, "k");
        if ("n".equals(v.get("t"))) {
            return null;
        }
        Class<?> t = box(target);
        switch (k) {
            case "int": case "len": case "ck": case "char": {
                String ty = k.equals("char") ? "char" : str(f, "ty");
                int w = width(ty);
                byte[] be = bytesOf(v);
                BigInteger val = ty.startsWith("i") ? new BigInteger(be) : new BigInteger(1, be);
                if (t == Object.class || t == Number.class || t == java.io.Serializable.class || t == Comparable.class) {
                    t = w == 1 ? Byte.class : w == 2 ? Short.class : w == 4 ? Integer.class : Long.class;
                }
                int wm = intWidth(t);
                if (wm > 0) {
                    if (wm < w && val.bitLength() > 8 * wm - 1) {
                        throw new Unrepresentable(ty + " value " + val + " does not fit member type " + target.getSimpleName());
                    }
                    long lv = val.longValue();     // low 64 bits: the two's-complement pattern when wm == w
                    if (t == Byte.class) return (byte) lv;
                    if (t == Short.class) return (short) lv;
                    if (t == Integer.class) return (int) lv;
                    return lv;
                }
                if (t == Character.class) {
                    if (val.signum() < 0 || val.bitLength() > 16) {
                        throw new Unrepresentable(ty + " value " + val + " does not fit member type char");
                    }
                    return (char) val.intValue();
                }
                if (t == BigInteger.class) {
                    return val;
                }
                if (k.equals("char") && (t == String.class || t == CharSequence.class)) {
                    return new String(be, StandardCharsets.ISO_8859_1);
                }
                throw new Unrepresentable("member type " + target.getName() + " cannot carry " + ty);
            }
            case "float": {
                int w = width(str(f, "ty"));
                byte[] be = bytesOf(v);
                long bits = new BigInteger(1, be).longValue();
                if (t == Object.class || t == Number.class) {
                    t = w == 4 ? Float.class : Double.class;
                }
                if (t == Float.class) {
                    if (w == 4) {
                        return Float.intBitsToFloat((int) bits);
                    }
                    double d = Double.longBitsToDouble(bits);
                    if ((double) (float) d != d && !Double.isNaN(d)) {
                        throw new Unrepresentable("f64 value " + d + " does not fit member type float");
                    }
                    return (float) d;
                }
                if (t == Double.class) {
                    return w == 4 ? (double) Float.intBitsToFloat((int) bits) : Double.longBitsToDouble(bits);
                }
                throw new Unrepresentable("member type " + target.getName() + " cannot carry " + str(f, "ty"));
            }
            case "fix": case "dyn": {
                byte[] b = bytesOf(v);
                if (t == byte[].class) {
                    return b;
                }
                if (t.isAssignableFrom(String.class)) {
                    return new String(b, StandardCharsets.UTF_8);
                }
                if (t == char[].class) {
                    return new String(b, StandardCharsets.UTF_8).toCharArray();
                }
                throw new Unrepresentable("member type " + target.getName() + " cannot carry a string");
            }
            case "obj":
                return build(cls(str(f, "ty"), null), arr(pkt(str(f, "ty")).get("fields")), arr(v.get("fs")));
            case "inl":
                return build(cls(str(f, "name"), owner), arr(f.get("fs")), arr(v.get("fs")));
            case "match":
                return build(cls(str(v, "pkt"), null), arr(pkt(str(v, "pkt")).get("fields")), arr(v.get("fs")));
            default:
                throw new IllegalArgumentException("unknown field kind " + k);
        }
    }

    Object build(Class<?> c, List<Object> fields, List<Object> vals) throws Throwable {
        Object inst = newInstance(c);
        List<Field> ms = members(c);
        if (ms.size() != fields.size()) {
            throw new MemberMismatch("class " + c.getSimpleName() + " has " + ms.size() + " members for " + fields.size() + " declared fields");
        }
        for (int i = 0; i < ms.size(); i++) {
            Field m = ms.get(i);
            Map<String, Object> f = res(obj(fields.get(i)));
            Map<String, Object> v = obj(vals.get(i));
            Object x;
            if (bool(f, "rep") && !"n".equals(v.get("t"))) {
                List<Object> xs = arr(v.get("xs"));
                Class<?> et = elementType(m);
                if (m.getType().isArray()) {
                    x = Array.newInstance(et, xs.size());
                    for (int j = 0; j < xs.size(); j++) {
                        Array.set(x, j, toNative(f, obj(xs.get(j)), et, c));
                    }
                } else {
                    List<Object> l = new ArrayList<>();
                    for (Object e : xs) {
                        l.add(toNative(f, obj(e), et, c));
                    }
                    x = l;
                }
            } else {
                x = toNative(f, v, m.getType(), c);
            }
            if (x == null && m.getType().isPrimitive()) {
                throw new Unrepresentable("member " + m.getName() + " of primitive type " + m.getType() + " cannot be null");
            }
            m.set(inst, x);
        }
        return inst;
    }

    // ----------------------------------------------------------------------------------------------
    // native -> value tree

    static Map<String, Object> tree(String t) {
        Map<String, Object> m = new LinkedHashMap<>();
        m.put("t", t);
        return m;
    }

    static Map<String, Object> bytesTree(byte[] b) {
        Map<String, Object> m = tree("b");
        m.put("b", b);
        return m;
    }

    static Map<String, Object> xTree(Object x, String why) {
        Map<String, Object> m = tree("x");
        String r;
        try {
            r = x.getClass().getSimpleName() + ":" + x;
        } catch (Throwable t) {
            r = x.getClass().getName();
        }
        m.put("repr", r.length() > 80 ? r.substring(0, 80) : r);
        m.put("err", why);
        return m;
    }

    static byte[] be(long pattern, int w) {
        byte[] out = new byte[w];
        for (int i = 0; i < w; i++) {
            out[i] = (byte) (pattern >>> (8 * (w - 1 - i)));
        }
        return out;
    }

    Map<String, Object> fromNative(Map<String, Object> f, Object x) throws Throwable {
        String k = str(f, "k");
        if (x == null) {
            return tree("n");
        }
        switch (k) {
            case "int": case "len": case "ck": case "char": {
                String ty = k.equals("char") ? "char" : str(f, "ty");
                int w = width(ty);
                boolean signed = ty.startsWith("i");
                int wm = intWidth(x.getClass());
                BigInteger val;
                if (wm > 0) {
                    long lv = ((Number) x).longValue();
                    if (wm == w) {
                        return bytesTree(be(lv, w));        // same width: the bit pattern is the value
                    }
                    val = BigInteger.valueOf(lv);
                } else if (x instanceof Character) {
                    val = BigInteger.valueOf((char) (Character) x);
                } else if (x instanceof BigInteger) {
                    val = (BigInteger) x;
                } else if (k.equals("char") && x instanceof CharSequence) {
                    byte[] b = x.toString().getBytes(StandardCharsets.UTF_8);
                    return bytesTree(b);
                } else {
                    return xTree(x, "not an integer");
                }
                BigInteger lo = signed ? BigInteger.ONE.shiftLeft(8 * w - 1).negate() : BigInteger.ZERO;
                BigInteger hi = signed ? BigInteger.ONE.shiftLeft(8 * w - 1) : BigInteger.ONE.shiftLeft(8 * w);
                if (val.compareTo(lo) < 0 || val.compareTo(hi) >= 0) {
                    return xTree(x, "outside the range of " + ty);
                }
                return bytesTree(be(val.longValue(), w));
            }
            case "float": {
                int w = width(str(f, "ty"));
                if (x instanceof Float) {
                    float fl = (Float) x;
                    return w == 4 ? bytesTree(be(Float.floatToRawIntBits(fl) & 0xFFFFFFFFL, 4)) : bytesTree(be(Double.doubleToRawLongBits((double) fl), 8));
                }
                if (x instanceof Double) {
                    double d = (Double) x;
                    if (w == 8) {
                        return bytesTree(be(Double.doubleToRawLongBits(d), 8));
                    }
                    if ((double) (float) d != d && !Double.isNaN(d)) {
                        return xTree(x, "not an f32 value");
                    }
                    return bytesTree(be(Float.floatToRawIntBits((float) d) & 0xFFFFFFFFL, 4));
                }
                return xTree(x, "not a float");
            }
            case "fix": case "dyn": {
                if (x instanceof CharSequence) {
                    return bytesTree(x.toString().getBytes(StandardCharsets.UTF_8));
                }
                if (x instanceof byte[]) {
                    return bytesTree((byte[]) x);
                }
                if (x instanceof char[]) {
                    return bytesTree(new String((char[]) x).getBytes(StandardCharsets.UTF_8));
                }
                return xTree(x, "not a string");
            }
            case "obj": {
                Map<String, Object> m = tree("o");
                m.put("fs", read(x, arr(pkt(str(f, "ty")).get("fields"))));
                return m;
            }
            case "inl": {
                Map<String, Object> m = tree("o");
                m.put("fs", read(x, arr(f.get("fs"))));
                return m;
            }
            case "match": {
                // the dynamic type decides which packet's fields to read
                String tn = norm(x.getClass().getSimpleName());
                if (emitted.contains(x.getClass())) {
                    for (Object p : arr(prog.get("pkts"))) {
                        if (norm(str(obj(p), "name")).equals(tn)) {
                            Map<String, Object> m = tree("m");
                            m.put("pkt", obj(p).get("name"));
                            m.put("fs", read(x, arr(obj(p).get("fields"))));
                            return m;
                        }
                    }
                }
                return xTree(x, "not an emitted packet type");
            }
            default:
                throw new IllegalArgumentException("unknown field kind " + k);
        }
    }

    List<Object> read(Object inst, List<Object> fields) throws Throwable {
        List<Field> ms = members(inst.getClass());
        if (ms.size() != fields.size()) {
            throw new MemberMismatch("instance of " + inst.getClass().getSimpleName() + " has " + ms.size() + " members for " + fields.size() + " declared fields");
        }
        List<Object> out = new ArrayList<>();
        for (int i = 0; i < ms.size(); i++) {
            Map<String, Object> f = res(obj(fields.get(i)));
            Object x = ms.get(i).get(inst);
            if (bool(f, "rep")) {
                if (x == null) {
                    out.add(tree("n"));
                    continue;
                }
                List<Object> xs = new ArrayList<>();
                if (x instanceof Collection) {
                    for (Object e : (Collection<?>) x) {
                        xs.add(fromNative(f, e));
                    }
                } else if (x.getClass().isArray()) {
                    for (int j = 0; j < Array.getLength(x); j++) {
                        xs.add(fromNative(f, Array.get(x, j)));
                    }
                } else {
                    out.add(xTree(x, "not a list"));
                    continue;
                }
                Map<String, Object> m = tree("l");
                m.put("xs", xs);
                out.add(m);
            } else {
                out.add(fromNative(f, x));
            }
        }
        return out;
    }

    // ----------------------------------------------------------------------------------------------
    // operations

    static String errinfo(Throwable e) {
        String m;
        try {
            m = String.valueOf(e.getMessage());
        } catch (Throwable t) {
            m = "?";
        }
        return e.getClass().getName() + ": " + (m.length() > 200 ? m.substring(0, 200) : m);
    }

    static void fail(Map<String, Object> ev, String cls, String err) {
        ev.put("ok", false);
        ev.put("cls", cls);
        ev.put("err", err);
    }

    static boolean isEnc(String kind) {
        return kind.equals("enc") || kind.equals("encinto");
    }

    /**
     * enc / encinto.  encinto: the output buffer is USED: it already holds the bytes `pre`, the first `rd` of
     * them consumed (readerIndex = rd); the event reports the readable bytes [readerIndex, writerIndex).
     */
    Map<String, Object> enc(Map<String, Object> op, String kind) {
        boolean into = kind.equals("encinto");
        Map<String, Object> ev = new LinkedHashMap<>();
        ev.put("ev", kind);
        ev.put("id", op.get("id"));
        byte[] pre = new byte[0];
        int rd = 0;
        if (into) {
            List<Object> ps = arr(op.get("pre"));
            pre = new byte[ps.size()];
            for (int i = 0; i < pre.length; i++) {
                pre[i] = (byte) ((Number) ps.get(i)).intValue();
            }
            rd = op.get("rd") == null ? 0 : ((Number) op.get("rd")).intValue();
            ev.put("pre", pre.length);
            ev.put("rd", rd);
        }
        Object inst;
        try {
            Map<String, Object> pk = pkt(str(op, "pkt"));
            inst = build(cls(str(pk, "name"), null), arr(pk.get("fields")), arr(obj(op.get("val")).get("fs")));
        } catch (MemberMismatch e) {
            fail(ev, "member-missing", e.getMessage());
            return ev;
        } catch (Throwable e) {
            fail(ev, "build-raises", errinfo(e));
            return ev;
        }
        try {
            ByteBuf buf = Unpooled.buffer();
            if (pre.length > 0) {
                buf.writeBytes(pre);
                buf.skipBytes(rd);
            }
            ByteBuf.TRACE.clear();
            call(inst, "encode", buf);
            byte[] bytes;
            if (into) {
                bytes = new byte[buf.readableBytes()];
                buf.getBytes(buf.readerIndex(), bytes);
            } else {
                bytes = buf.written();
            }
            List<Object> prims = new ArrayList<>();
            List<Object> calcs = new ArrayList<>();
            for (Object[] t : ByteBuf.TRACE) {
                if ("calc".equals(t[0])) {
                    calcs.add(new Object[] {t[1], t[2]});
                } else {
                    prims.add(t);
                }
            }
            ev.put("ok", true);
            ev.put("bytes", bytes);
            ev.put("prims", prims);
            ev.put("calcs", calcs);
        } catch (Throwable e) {
            ev.keySet().retainAll(java.util.Arrays.asList("ev", "id", "pre", "rd"));
            fail(ev, "encode-raises", errinfo(e));
        }
        return ev;
    }

    static final Map<String, Object> LAST = new java.util.HashMap<>();

    Map<String, Object> dec(Map<String, Object> op, String kind) {
        Map<String, Object> ev = new LinkedHashMap<>();
        ev.put("ev", kind);
        ev.put("id", op.get("id"));
        List<Object> tail = arr(op.get("tail"));
        ev.put("tail", tail.size());
        List<Object> all = new ArrayList<>(arr(op.get("bytes")));
        all.addAll(tail);
        byte[] data = new byte[all.size()];
        for (int i = 0; i < data.length; i++) {
            data[i] = (byte) ((Number) all.get(i)).intValue();
        }
        ByteBuf buf = Unpooled.wrappedBuffer(data);
        Object inst;
        Map<String, Object> pk;
        try {
            pk = pkt(str(op, "pkt"));
            // "reuse": decode into the object the previous dec op of this packet used, otherwise into a fresh one
            Object prev = LAST.get(str(pk, "name"));
            inst = (Boolean.TRUE.equals(op.get("reuse")) && prev != null) ? prev : newInstance(cls(str(pk, "name"), null));
            LAST.put(str(pk, "name"), inst);
            ByteBuf.TRACE.clear();
            call(inst, "decode", buf);
        } catch (MemberMismatch e) {
            fail(ev, "member-missing", e.getMessage());
            ev.put("consumed", buf.readerIndex());
            return ev;
        } catch (Throwable e) {
            fail(ev, "decode-raises", errinfo(e));
            ev.put("consumed", buf.readerIndex());
            return ev;
        }
        ev.put("ok", true);
        ev.put("consumed", buf.readerIndex());
        try {
            Map<String, Object> val = tree("o");
            val.put("fs", read(inst, arr(pk.get("fields"))));
            ev.put("val", val);
        } catch (MemberMismatch e) {
            fail(ev, "member-missing", e.getMessage());
            return ev;
        } catch (Throwable e) {
            fail(ev, "read-raises", errinfo(e));
            return ev;
        }
        if (kind.equals("dec")) {
            try {
                ByteBuf.TRACE.clear();
                ByteBuf b2 = Unpooled.buffer();
                call(inst, "encode", b2);
                ev.put("reenc", b2.written());
            } catch (Throwable e) {
                ev.put("reenc_err", errinfo(e));
            }
        }
        return ev;
    }

    /** {"ev", "id"} (+ "pre" = length, "rd" for encinto): the head of an event written for an op that blew up */
    static Map<String, Object> bare(Map<String, Object> op, String kind) {
        Map<String, Object> ev = new LinkedHashMap<>();
        ev.put("ev", kind);
        ev.put("id", op.get("id"));
        if (kind.equals("encinto")) {
            ev.put("pre", arr(op.get("pre")).size());
            ev.put("rd", op.get("rd") == null ? 0 : op.get("rd"));
        }
        return ev;
    }

    public static void main(String[] args) throws Exception {
        PrintStream real = new PrintStream(new FileOutputStream(java.io.FileDescriptor.out), false, "US-ASCII");
        // emitted code must not disturb the event stream
        System.setOut(new PrintStream(new OutputStream() {
            @Override
            public void write(int b) {
            }
        }));
        Path classesDir = Paths.get(args[0]);
        String text = new String(Files.readAllBytes(Paths.get(args[1])), StandardCharsets.UTF_8);
        int skip = 0;
        for (int i = 2; i + 1 < args.length; i++) {
            if (args[i].equals("--skip")) {
                skip = Integer.parseInt(args[i + 1]);
            }
        }
        Map<String, Object> cs = obj(Json.parse(text));
        Driver d = new Driver(obj(cs.get("prog")), classesDir);
        List<Object> ops = arr(cs.get("ops"));
        for (int i = skip; i < ops.size(); i++) {
            Map<String, Object> op = obj(ops.get(i));
            String kind = str(op, "op");
            Map<String, Object> ev;
            try {
                ev = isEnc(kind) ? d.enc(op, kind) : d.dec(op, kind);
            } catch (Throwable t) {           // e.g. a second StackOverflowError / OutOfMemoryError while reporting
                ev = bare(op, kind);
                fail(ev, isEnc(kind) ? "encode-raises" : "decode-raises", errinfo(t));
            }
            String line;
            try {
                line = Json.print(ev);
            } catch (Throwable t) {
                Map<String, Object> e2 = bare(op, kind);
                fail(e2, isEnc(kind) ? "encode-raises" : "read-raises", errinfo(t));
                line = Json.print(e2);
            }
            real.println(line);
            real.flush();
        }
        real.flush();
        System.exit(0);
    }
}
