package verif;

import java.util.ArrayList;
import java.util.LinkedHashMap;
import java.util.List;
import java.util.Map;

/**
 * Minimal JSON reader / printer (no third-party jars are available).
 * objects -> LinkedHashMap<String,Object>, arrays -> ArrayList<Object>, integers -> Long, other numbers ->
 * Double, strings, Boolean, null.  The printer also accepts int[] / byte[] (bytes print as 0..255).
 */
public final class Json {
    private final String s;
    private int i;

    private Json(String s) {
        this.s = s;
    }

    public static Object parse(String text) {
        Json p = new Json(text);
        p.ws();
        Object v = p.value();
        p.ws();
        if (p.i != p.s.length()) {
            throw p.err("trailing characters");
        }
        return v;
    }

    private IllegalArgumentException err(String m) {
        return new IllegalArgumentException("JSON: " + m + " at offset " + i);
    }

    private void ws() {
        while (i < s.length()) {
            char c = s.charAt(i);
            if (c == ' ' || c == '\n' || c == '\r' || c == '\t') {
                i++;
            } else {
                break;
            }
        }
    }

    private Object value() {
        if (i >= s.length()) {
            throw err("unexpected end");
        }
        char c = s.charAt(i);
        switch (c) {
            case '{': {
                i++;
                Map<String, Object> m = new LinkedHashMap<>();
                ws();
                if (s.charAt(i) == '}') {
                    i++;
                    return m;
                }
                while (true) {
                    ws();
                    if (s.charAt(i) != '"') {
                        throw err("expected string key");
                    }
                    String k = string();
                    ws();
                    if (s.charAt(i) != ':') {
                        throw err("expected ':'");
                    }
                    i++;
                    ws();
                    m.put(k, value());
                    ws();
                    char d = s.charAt(i++);
                    if (d == '}') {
                        return m;
                    }
                    if (d != ',') {
                        throw err("expected ',' or '}'");
                    }
                }
            }
            case '[': {
                i++;
                List<Object> a = new ArrayList<>();
                ws();
                if (s.charAt(i) == ']') {
                    i++;
                    return a;
                }
                while (true) {
                    ws();
                    a.add(value());
                    ws();
                    char d = s.charAt(i++);
                    if (d == ']') {
                        return a;
                    }
                    if (d != ',') {
                        throw err("expected ',' or ']'");
                    }
                }
            }
            case '"':
                return string();
            case 't':
                expect("true");
                return Boolean.TRUE;
            case 'f':
                expect("false");
                return Boolean.FALSE;
            case 'n':
                expect("null");
                return null;
            default:
                return number();
        }
    }

    private void expect(String w) {
        if (!s.startsWith(w, i)) {
            throw err("expected " + w);
        }
        i += w.length();
    }

    private Object number() {
        int st = i;
        boolean integral = true;
        while (i < s.length()) {
            char c = s.charAt(i);
            if ((c >= '0' && c <= '9') || c == '-' || c == '+') {
                i++;
            } else if (c == '.' || c == 'e' || c == 'E') {
                integral = false;
                i++;
            } else {
                break;
            }
        }
        String t = s.substring(st, i);
        if (t.isEmpty()) {
            throw err("unexpected character '" + s.charAt(i) + "'");
        }
        try {
            if (integral) {
                return Long.parseLong(t);
            }
            return Double.parseDouble(t);
        } catch (NumberFormatException e) {
            throw err("bad number " + t);
        }
    }

    private String string() {
        StringBuilder sb = new StringBuilder();
        i++; // opening quote
        while (true) {
            if (i >= s.length()) {
                throw err("unterminated string");
            }
            char c = s.charAt(i++);
            if (c == '"') {
                return sb.toString();
            }
            if (c != '\\') {
                sb.append(c);
                continue;
            }
            char e = s.charAt(i++);
            switch (e) {
                case '"': sb.append('"'); break;
                case '\\': sb.append('\\'); break;
                case '/': sb.append('/'); break;
                case 'b': sb.append('\b'); break;
                case 'f': sb.append('\f'); break;
                case 'n': sb.append('\n'); break;
                case 'r': sb.append('\r'); break;
                case 't': sb.append('\t'); break;
                case 'u':
                    sb.append((char) Integer.parseInt(s.substring(i, i + 4), 16));
                    i += 4;
                    break;
                default:
                    throw err("bad escape \\" + e);
            }
        }
    }

    // ----------------------------------------------------------------------------------------------
    // printer (ASCII only: everything else is \\u-escaped)

    public static String print(Object v) {
        StringBuilder sb = new StringBuilder();
        print(sb, v);
        return sb.toString();
    }

    private static void print(StringBuilder sb, Object v) {
        if (v == null) {
            sb.append("null");
        } else if (v instanceof String) {
            quote(sb, (String) v);
        } else if (v instanceof Boolean || v instanceof Long || v instanceof Integer || v instanceof Short || v instanceof Byte) {
            sb.append(v);
        } else if (v instanceof Number) {
            double d = ((Number) v).doubleValue();
            if (Double.isNaN(d) || Double.isInfinite(d)) {
                sb.append("null");
            } else {
                sb.append(d);
            }
        } else if (v instanceof Map) {
            sb.append('{');
            boolean first = true;
            for (Map.Entry<?, ?> e : ((Map<?, ?>) v).entrySet()) {
                if (!first) {
                    sb.append(',');
                }
                first = false;
                quote(sb, String.valueOf(e.getKey()));
                sb.append(':');
                print(sb, e.getValue());
            }
            sb.append('}');
        } else if (v instanceof Iterable) {
            sb.append('[');
            boolean first = true;
            for (Object x : (Iterable<?>) v) {
                if (!first) {
                    sb.append(',');
                }
                first = false;
                print(sb, x);
            }
            sb.append(']');
        } else if (v instanceof byte[]) {
            byte[] b = (byte[]) v;
            sb.append('[');
            for (int k = 0; k < b.length; k++) {
                if (k > 0) {
                    sb.append(',');
                }
                sb.append(b[k] & 0xFF);
            }
            sb.append(']');
        } else if (v instanceof int[]) {
            int[] b = (int[]) v;
            sb.append('[');
            for (int k = 0; k < b.length; k++) {
                if (k > 0) {
                    sb.append(',');
                }
                sb.append(b[k]);
            }
            sb.append(']');
        } else if (v instanceof Object[]) {
            sb.append('[');
            Object[] a = (Object[]) v;
            for (int k = 0; k < a.length; k++) {
                if (k > 0) {
                    sb.append(',');
                }
                print(sb, a[k]);
            }
            sb.append(']');
        } else {
            quote(sb, String.valueOf(v));
        }
    }

    private static void quote(StringBuilder sb, String s) {
        sb.append('"');
        for (int k = 0; k < s.length(); k++) {
            char c = s.charAt(k);
            if (c == '"' || c == '\\') {
                sb.append('\\').append(c);
            } else if (c == '\n') {
                sb.append("\\n");
            } else if (c == '\r') {
                sb.append("\\r");
            } else if (c == '\t') {
                sb.append("\\t");
            } else if (c < 0x20 || c > 0x7E) {
                sb.append(String.format("\\u%04x", (int) c));
            } else {
                sb.append(c);
            }
        }
        sb.append('"');
    }
}
