package verif;

import java.io.FileOutputStream;
import java.io.OutputStream;
import java.io.PrintStream;
import java.lang.annotation.Annotation;
import java.lang.reflect.Constructor;
import java.lang.reflect.InvocationTargetException;
import java.lang.reflect.Method;
import java.lang.reflect.Modifier;
import java.nio.file.Files;
import java.nio.file.Path;
import java.nio.file.Paths;
import java.util.ArrayList;
import java.util.Arrays;
import java.util.Comparator;
import java.util.LinkedHashMap;
import java.util.List;
import java.util.Map;
import java.util.stream.Collectors;
import java.util.stream.Stream;

/**
 * Tiny stand-in test runner (C17): loads every class under the given directory, runs each method annotated
 * with org.junit.Test or org.junit.jupiter.api.Test on a fresh instance (with @Before/@BeforeEach and
 * @After/@AfterEach methods around it), counts passed / failed.
 *
 * usage: java -cp ... verif.TestRunner <classes dir>
 *        -> one JSON line {"ran","passed","failed","failures":[{"test","err"}..]} on stdout
 */
public final class TestRunner {
    private static final List<String> TEST = Arrays.asList("org.junit.Test", "org.junit.jupiter.api.Test");
    private static final List<String> BEFORE = Arrays.asList("org.junit.Before", "org.junit.jupiter.api.BeforeEach");
    private static final List<String> AFTER = Arrays.asList("org.junit.After", "org.junit.jupiter.api.AfterEach");
    private static final List<String> BEFORE_ALL = Arrays.asList("org.junit.BeforeClass", "org.junit.jupiter.api.BeforeAll");
    private static final List<String> AFTER_ALL = Arrays.asList("org.junit.AfterClass", "org.junit.jupiter.api.AfterAll");
    private static final List<String> IGNORE = Arrays.asList("org.junit.Ignore", "org.junit.jupiter.api.Disabled");

    private TestRunner() {
    }

    private static boolean has(java.lang.reflect.AnnotatedElement e, List<String> names) {
        for (Annotation a : e.getAnnotations()) {
            if (names.contains(a.annotationType().getName())) {
                return true;
            }
        }
        return false;
    }

    private static List<Method> methods(Class<?> c, List<String> anns) {
        List<Method> out = new ArrayList<>();
        for (Method m : c.getDeclaredMethods()) {
            if (has(m, anns) && m.getParameterCount() == 0) {
                m.setAccessible(true);
                out.add(m);
            }
        }
        out.sort(Comparator.comparing(Method::getName));
        return out;
    }

    private static Class<? extends Throwable> expected(Method m) {
        org.junit.Test t = m.getAnnotation(org.junit.Test.class);
        if (t != null && t.expected() != org.junit.Test.None.class) {
            return t.expected();
        }
        return null;
    }

    private static String describe(Throwable t) {
        String m = String.valueOf(t.getMessage());
        return t.getClass().getName() + ": " + (m.length() > 300 ? m.substring(0, 300) : m);
    }

    private static void invoke(Method m, Object inst) throws Throwable {
        try {
            m.invoke(Modifier.isStatic(m.getModifiers()) ? null : inst);
        } catch (InvocationTargetException e) {
            throw e.getCause();
        }
    }

    public static void main(String[] args) throws Exception {
        PrintStream real = new PrintStream(new FileOutputStream(java.io.FileDescriptor.out), false, "US-ASCII");
        System.setOut(new PrintStream(new OutputStream() {
            @Override
            public void write(int b) {
            }
        }));
        Path dir = Paths.get(args[0]);
        List<String> names;
        try (Stream<Path> st = Files.walk(dir)) {
            names = st.filter(p -> p.toString().endsWith(".class"))
                    .map(p -> dir.relativize(p).toString())
                    .map(n -> n.substring(0, n.length() - ".class".length()).replace('/', '.').replace('\\', '.'))
                    .sorted().collect(Collectors.toList());
        }
        int ran = 0;
        int passed = 0;
        int failed = 0;
        List<Object> failures = new ArrayList<>();
        for (String n : names) {
            Class<?> c;
            try {
                c = Class.forName(n, false, TestRunner.class.getClassLoader());
            } catch (Throwable t) {
                continue;
            }
            List<Method> tests;
            try {
                tests = methods(c, TEST);
            } catch (Throwable t) {
                continue;
            }
            if (tests.isEmpty() || Modifier.isAbstract(c.getModifiers()) || has(c, IGNORE)) {
                continue;
            }
            Throwable classFailure = null;
            try {
                for (Method m : methods(c, BEFORE_ALL)) {
                    invoke(m, null);
                }
            } catch (Throwable t) {
                classFailure = t;
            }
            for (Method m : tests) {
                if (has(m, IGNORE)) {
                    continue;
                }
                ran++;
                Throwable err = classFailure;
                if (err == null) {
                    try {
                        Constructor<?> k = c.getDeclaredConstructor();
                        k.setAccessible(true);
                        Object inst;
                        try {
                            inst = k.newInstance();
                        } catch (InvocationTargetException e) {
                            throw e.getCause();
                        }
                        try {
                            for (Method b : methods(c, BEFORE)) {
                                invoke(b, inst);
                            }
                            Class<? extends Throwable> exp = expected(m);
                            try {
                                invoke(m, inst);
                                if (exp != null) {
                                    throw new AssertionError("Expected exception: " + exp.getName());
                                }
                            } catch (Throwable t) {
                                if (exp == null || !exp.isInstance(t)) {
                                    throw t;
                                }
                            }
                        } finally {
                            for (Method a : methods(c, AFTER)) {
                                invoke(a, inst);
                            }
                        }
                    } catch (Throwable t) {
                        err = t;
                    }
                }
                if (err == null) {
                    passed++;
                } else {
                    failed++;
                    Map<String, Object> f = new LinkedHashMap<>();
                    f.put("test", c.getName() + "." + m.getName());
                    f.put("err", describe(err));
                    failures.add(f);
                }
            }
            try {
                for (Method m : methods(c, AFTER_ALL)) {
                    invoke(m, null);
                }
            } catch (Throwable t) {
                // ignored: counted tests already have their outcome
            }
        }
        Map<String, Object> out = new LinkedHashMap<>();
        out.put("ran", ran);
        out.put("passed", passed);
        out.put("failed", failed);
        out.put("failures", failures);
        real.println(Json.print(out));
        real.flush();
        System.exit(0);
    }
}
