package com.finproto.codec;

/**
 * Reference runtime (Java): a checksum service over a buffer of type B with a result of type T
 * (the emitter declares ChecksumService<ByteBuf, Integer>).
 */
public interface ChecksumService<B, T> {
    /** checksum over exactly the bytes currently written to the buffer: [0, writerIndex) */
    T calc(B buffer);

    default String algorithm() {
        return "";
    }
}
