package com.finproto.codec;

import io.netty.buffer.ByteBuf;
import java.nio.charset.Charset;
import java.nio.charset.StandardCharsets;

/**
 * Reference runtime (Java): the codec interface the emitted classes implement, with the inherited
 * helpers java_generator.go prints.  Meaning = what name and arguments state:
 * writeFixedString(buf, s, n, pad, left) writes exactly n bytes (UTF-8 of s, padded with `pad` on the left
 * when `left`, otherwise on the right; IllegalArgumentException if s needs more than n bytes);
 * readFixedString(buf, n, pad, left) reads exactly n bytes and trims `pad` on that side.
 * The variants without pad use space on the right.  A null string is written like the empty string
 * (Java message objects start with null members).
 */
public interface BinaryCodec {
    void encode(ByteBuf byteBuf);

    void decode(ByteBuf byteBuf);

    default void writeFixedString(ByteBuf buf, String s, int n) {
        Fixed.write(buf, s, n, (byte) ' ', false, StandardCharsets.UTF_8);
    }

    default void writeFixedString(ByteBuf buf, String s, int n, char pad, boolean left) {
        Fixed.write(buf, s, n, Fixed.padByte(pad), left, StandardCharsets.UTF_8);
    }

    default void writeFixedString(ByteBuf buf, String s, int n, byte pad, boolean left) {
        Fixed.write(buf, s, n, pad, left, StandardCharsets.UTF_8);
    }

    default void writeFixedString(ByteBuf buf, String s, int n, Charset cs) {
        Fixed.write(buf, s, n, (byte) ' ', false, cs);
    }

    default void writeFixedString(ByteBuf buf, String s, int n, Charset cs, char pad, boolean left) {
        Fixed.write(buf, s, n, Fixed.padByte(pad), left, cs);
    }

    default String readFixedString(ByteBuf buf, int n) {
        return Fixed.read(buf, n, (byte) ' ', false, StandardCharsets.UTF_8);
    }

    default String readFixedString(ByteBuf buf, int n, char pad, boolean left) {
        return Fixed.read(buf, n, Fixed.padByte(pad), left, StandardCharsets.UTF_8);
    }

    default String readFixedString(ByteBuf buf, int n, byte pad, boolean left) {
        return Fixed.read(buf, n, pad, left, StandardCharsets.UTF_8);
    }

    default String readFixedString(ByteBuf buf, int n, Charset cs) {
        return Fixed.read(buf, n, (byte) ' ', false, cs);
    }

    default String readFixedString(ByteBuf buf, int n, Charset cs, char pad, boolean left) {
        return Fixed.read(buf, n, Fixed.padByte(pad), left, cs);
    }

    /** implementation of the fixed-string helpers */
    final class Fixed {
        private Fixed() {
        }

        static byte padByte(char pad) {
            if (pad > 0xFF) {
                throw new IllegalArgumentException("pad character U+" + Integer.toHexString(pad) + " is not a single byte");
            }
            return (byte) pad;
        }

        public static void write(ByteBuf buf, String s, int n, byte pad, boolean left, Charset cs) {
            if (n < 0) {
                throw new IllegalArgumentException("fixed string length " + n);
            }
            byte[] b = s == null ? new byte[0] : s.getBytes(cs);
            if (b.length > n) {
                throw new IllegalArgumentException("fixed string of " + b.length + " bytes is longer than " + n + " bytes");
            }
            byte[] out = new byte[n];
            java.util.Arrays.fill(out, pad);
            System.arraycopy(b, 0, out, left ? n - b.length : 0, b.length);
            buf.writeBytes(out);
        }

        public static String read(ByteBuf buf, int n, byte pad, boolean left, Charset cs) {
            if (n < 0) {
                throw new IllegalArgumentException("fixed string length " + n);
            }
            byte[] b = new byte[n];
            buf.readBytes(b);
            int from = 0;
            int to = n;
            if (left) {
                while (from < to && b[from] == pad) {
                    from++;
                }
            } else {
                while (to > from && b[to - 1] == pad) {
                    to--;
                }
            }
            return new String(b, from, to - from, cs);
        }
    }
}
