package com.finproto.codec;

import io.netty.buffer.ByteBuf;
import java.util.HashMap;
import java.util.Map;

/**
 * Reference runtime (Java): registry of checksum services.  Registered names: VSUM8 VSUM16 VSUM32 VSUM64,
 * no other.  Alg_w(bs) = ((sum i*bs[i], i 1-based) + 7*len(bs)) mod 65521, additionally mod 256 for
 * w = 1 (spec/Wire.tla!Alg), over exactly the bytes currently written to the buffer.
 *
 * The result type is Integer for every width, as java_generator.go declares it
 * (ChecksumService<ByteBuf, Integer>); every value is below 65521.  getChecksumService returns null
 * for an unregistered name (the emitted code tests the result against null).
 * Every calc call is recorded in ByteBuf.TRACE as {"calc", coveredLen, value}.
 */
public final class ChecksumServiceFactory {
    private static final ChecksumServiceFactory INSTANCE = new ChecksumServiceFactory();

    private final Map<String, ChecksumService<ByteBuf, Integer>> services = new HashMap<>();

    private ChecksumServiceFactory() {
        services.put("VSUM8", new VSum("VSUM8", 1));
        services.put("VSUM16", new VSum("VSUM16", 2));
        services.put("VSUM32", new VSum("VSUM32", 4));
        services.put("VSUM64", new VSum("VSUM64", 8));
    }

    public static ChecksumServiceFactory getInstance() {
        return INSTANCE;
    }

    @SuppressWarnings("unchecked")
    public <B, T> ChecksumService<B, T> getChecksumService(String name) {
        return (ChecksumService<B, T>) services.get(name);
    }

    public static final class VSum implements ChecksumService<ByteBuf, Integer> {
        private final String name;
        private final int width;

        VSum(String name, int width) {
            this.name = name;
            this.width = width;
        }

        @Override
        public Integer calc(ByteBuf buffer) {
            byte[] d = buffer.written();
            long s = 0;
            for (int i = 0; i < d.length; i++) {
                s = (s + (long) (i + 1) * (d[i] & 0xFF)) % 65521;
            }
            long a = (s + 7L * d.length) % 65521;
            if (width == 1) {
                a %= 256;
            }
            ByteBuf.TRACE.add(new Object[] {"calc", d.length, (int) a});
            return (int) a;
        }

        @Override
        public String algorithm() {
            return name;
        }
    }
}
