package io.netty.buffer;

import java.nio.charset.Charset;
import java.util.ArrayList;

/**
 * Reference runtime (Java): stand-in for netty's io.netty.buffer.ByteBuf.
 *
 * API surface = what java_generator.go can print ({read,write,set}{Byte,Short,Int,Long,Float,Double}[LE],
 * writerIndex(), writeBytes(byte[]), readCharSequence(n, charset)) plus the plausible neighbours of the
 * same family (get*, unsigned reads, Medium, Char, Boolean, index management), with netty's signatures:
 * writeByte/Short/Int take an int, set* take (int index, value), lengths are ints.
 * Semantics are netty's: big-endian by default, *LE little-endian, reads beyond writerIndex and sets beyond
 * the capacity throw IndexOutOfBoundsException, writes grow the buffer.
 * Indices are netty's too: 0 <= readerIndex <= writerIndex <= capacity; consumed bytes [0, readerIndex) STAY in
 * the buffer (skipBytes / reads only move readerIndex), readableBytes() = writerIndex - readerIndex, and the
 * absolute set*(index, v) / get*(index) take PHYSICAL indices (index 0 = first byte of the backing array, not
 * the first readable byte).  TRACE positions are physical as well.
 *
 * Every mutation is logged in TRACE as {"append"|"set", position, bytes}; checksum services add
 * {"calc", coveredLen, value}.  The driver drains TRACE per operation.
 */
public class ByteBuf implements Comparable<ByteBuf> {
    public static final ArrayList<Object[]> TRACE = new ArrayList<>();
    public static boolean TRACING = true;

    private byte[] data;
    private int rd;
    private int wr;
    private int markedRd;
    private int markedWr;
    private final int maxCapacity;

    public ByteBuf() {
        this(256, Integer.MAX_VALUE);
    }

    public ByteBuf(int initialCapacity, int maxCapacity) {
        if (initialCapacity < 0 || initialCapacity > maxCapacity) {
            throw new IllegalArgumentException("initialCapacity: " + initialCapacity + " maxCapacity: " + maxCapacity);
        }
        this.data = new byte[initialCapacity];
        this.maxCapacity = maxCapacity;
    }

    /** wraps (copies) the given bytes: readerIndex 0, writerIndex = length */
    public ByteBuf(byte[] bytes) {
        this.data = bytes.clone();
        this.wr = bytes.length;
        this.maxCapacity = Integer.MAX_VALUE;
    }

    // ------------------------------------------------------------------------------------------
    // helpers

    private static void log(String kind, int pos, byte[] b, int off, int len) {
        if (!TRACING) {
            return;
        }
        int[] bs = new int[len];
        for (int i = 0; i < len; i++) {
            bs[i] = b[off + i] & 0xFF;
        }
        TRACE.add(new Object[] {kind, pos, bs});
    }

    private void ensure(int n) {
        if (n < 0) {
            throw new IllegalArgumentException("minWritableBytes : " + n + " (expected: >= 0)");
        }
        long need = (long) wr + n;
        if (need > maxCapacity) {
            throw new IndexOutOfBoundsException("writerIndex(" + wr + ") + minWritableBytes(" + n + ") exceeds maxCapacity(" + maxCapacity + ")");
        }
        if (need > data.length) {
            long cap = Math.max(64, data.length);
            while (cap < need) {
                cap <<= 1;
            }
            data = java.util.Arrays.copyOf(data, (int) Math.min(cap, maxCapacity));
        }
    }

    private void checkRead(int n) {
        if (n < 0) {
            throw new IllegalArgumentException("minimumReadableBytes : " + n + " (expected: >= 0)");
        }
        if (rd > wr - n) {
            throw new IndexOutOfBoundsException("readerIndex(" + rd + ") + length(" + n + ") exceeds writerIndex(" + wr + ")");
        }
    }

    private void checkIndex(int index, int n) {
        if (index < 0 || n < 0 || (long) index + n > data.length) {
            throw new IndexOutOfBoundsException("index: " + index + ", length: " + n + " (expected: range(0, " + data.length + "))");
        }
    }

    private void put(long v, int n, boolean le) {
        ensure(n);
        store(wr, v, n, le);
        log("append", wr, data, wr, n);
        wr += n;
    }

    private void store(int pos, long v, int n, boolean le) {
        for (int i = 0; i < n; i++) {
            int shift = le ? 8 * i : 8 * (n - 1 - i);
            data[pos + i] = (byte) (v >>> shift);
        }
    }

    private void setAt(int index, long v, int n, boolean le) {
        checkIndex(index, n);
        store(index, v, n, le);
        log("set", index, data, index, n);
    }

    /** unsigned value of n bytes at pos (n <= 8) */
    private long load(int pos, int n, boolean le) {
        long v = 0;
        for (int i = 0; i < n; i++) {
            int b = data[pos + (le ? n - 1 - i : i)] & 0xFF;
            v = (v << 8) | b;
        }
        return v;
    }

    private long take(int n, boolean le) {
        checkRead(n);
        long v = load(rd, n, le);
        rd += n;
        return v;
    }

    private long peek(int index, int n, boolean le) {
        checkIndex(index, n);
        return load(index, n, le);
    }

    // ------------------------------------------------------------------------------------------
    // indices

    public int capacity() { return data.length; }
    public int maxCapacity() { return maxCapacity; }
    public int readerIndex() { return rd; }
    public int writerIndex() { return wr; }

    public ByteBuf readerIndex(int i) {
        if (i < 0 || i > wr) {
            throw new IndexOutOfBoundsException("readerIndex: " + i + " (expected: 0 <= readerIndex <= writerIndex(" + wr + "))");
        }
        rd = i;
        return this;
    }

    public ByteBuf writerIndex(int i) {
        if (i < rd || i > data.length) {
            throw new IndexOutOfBoundsException("writerIndex: " + i + " (expected: readerIndex(" + rd + ") <= writerIndex <= capacity(" + data.length + "))");
        }
        wr = i;
        return this;
    }

    public ByteBuf setIndex(int r, int w) {
        if (r < 0 || r > w || w > data.length) {
            throw new IndexOutOfBoundsException("readerIndex: " + r + ", writerIndex: " + w);
        }
        rd = r;
        wr = w;
        return this;
    }

    public int readableBytes() { return wr - rd; }
    public int writableBytes() { return data.length - wr; }
    public int maxWritableBytes() { return maxCapacity - wr; }
    public boolean isReadable() { return wr > rd; }
    public boolean isReadable(int n) { return wr - rd >= n; }
    public boolean isWritable() { return data.length > wr; }
    public boolean isWritable(int n) { return data.length - wr >= n; }
    public ByteBuf clear() { rd = 0; wr = 0; return this; }
    public ByteBuf markReaderIndex() { markedRd = rd; return this; }
    public ByteBuf resetReaderIndex() { return readerIndex(markedRd); }
    public ByteBuf markWriterIndex() { markedWr = wr; return this; }
    public ByteBuf resetWriterIndex() { return writerIndex(markedWr); }
    public ByteBuf ensureWritable(int n) { ensure(n); return this; }

    public ByteBuf discardReadBytes() {
        System.arraycopy(data, rd, data, 0, wr - rd);
        wr -= rd;
        rd = 0;
        return this;
    }

    public ByteBuf skipBytes(int n) {
        checkRead(n);
        rd += n;
        return this;
    }

    // ------------------------------------------------------------------------------------------
    // sequential writes

    public ByteBuf writeBoolean(boolean v) { put(v ? 1 : 0, 1, false); return this; }
    public ByteBuf writeByte(int v) { put(v, 1, false); return this; }
    public ByteBuf writeByteLE(int v) { put(v, 1, true); return this; }
    public ByteBuf writeShort(int v) { put(v, 2, false); return this; }
    public ByteBuf writeShortLE(int v) { put(v, 2, true); return this; }
    public ByteBuf writeMedium(int v) { put(v, 3, false); return this; }
    public ByteBuf writeMediumLE(int v) { put(v, 3, true); return this; }
    public ByteBuf writeInt(int v) { put(v, 4, false); return this; }
    public ByteBuf writeIntLE(int v) { put(v, 4, true); return this; }
    public ByteBuf writeLong(long v) { put(v, 8, false); return this; }
    public ByteBuf writeLongLE(long v) { put(v, 8, true); return this; }
    public ByteBuf writeChar(int v) { put(v, 2, false); return this; }
    public ByteBuf writeFloat(float v) { put(Float.floatToRawIntBits(v), 4, false); return this; }
    public ByteBuf writeFloatLE(float v) { put(Float.floatToRawIntBits(v), 4, true); return this; }
    public ByteBuf writeDouble(double v) { put(Double.doubleToRawLongBits(v), 8, false); return this; }
    public ByteBuf writeDoubleLE(double v) { put(Double.doubleToRawLongBits(v), 8, true); return this; }

    public ByteBuf writeBytes(byte[] src) {
        return writeBytes(src, 0, src.length);
    }

    public ByteBuf writeBytes(byte[] src, int off, int len) {
        if (off < 0 || len < 0 || off + len > src.length) {
            throw new IndexOutOfBoundsException("srcIndex: " + off + ", length: " + len + " (expected: range(0, " + src.length + "))");
        }
        ensure(len);
        System.arraycopy(src, off, data, wr, len);
        log("append", wr, data, wr, len);
        wr += len;
        return this;
    }

    public ByteBuf writeBytes(ByteBuf src) {
        return writeBytes(src, src.readableBytes());
    }

    public ByteBuf writeBytes(ByteBuf src, int len) {
        src.checkRead(len);
        writeBytes(src.data, src.rd, len);
        src.rd += len;
        return this;
    }

    public ByteBuf writeBytes(java.nio.ByteBuffer src) {
        byte[] b = new byte[src.remaining()];
        src.get(b);
        return writeBytes(b);
    }

    public ByteBuf writeZero(int n) {
        return writeBytes(new byte[n]);
    }

    public int writeCharSequence(CharSequence s, Charset cs) {
        byte[] b = s.toString().getBytes(cs);
        writeBytes(b);
        return b.length;
    }

    // ------------------------------------------------------------------------------------------
    // sequential reads

    public boolean readBoolean() { return take(1, false) != 0; }
    public byte readByte() { return (byte) take(1, false); }
    public byte readByteLE() { return (byte) take(1, true); }
    public short readUnsignedByte() { return (short) take(1, false); }
    public short readUnsignedByteLE() { return (short) take(1, true); }
    public short readShort() { return (short) take(2, false); }
    public short readShortLE() { return (short) take(2, true); }
    public int readUnsignedShort() { return (int) take(2, false); }
    public int readUnsignedShortLE() { return (int) take(2, true); }
    public int readMedium() { int v = (int) take(3, false); return (v & 0x800000) != 0 ? v | 0xFF000000 : v; }
    public int readMediumLE() { int v = (int) take(3, true); return (v & 0x800000) != 0 ? v | 0xFF000000 : v; }
    public int readUnsignedMedium() { return (int) take(3, false); }
    public int readUnsignedMediumLE() { return (int) take(3, true); }
    public int readInt() { return (int) take(4, false); }
    public int readIntLE() { return (int) take(4, true); }
    public long readUnsignedInt() { return take(4, false); }
    public long readUnsignedIntLE() { return take(4, true); }
    public long readLong() { return take(8, false); }
    public long readLongLE() { return take(8, true); }
    public char readChar() { return (char) take(2, false); }
    public float readFloat() { return Float.intBitsToFloat((int) take(4, false)); }
    public float readFloatLE() { return Float.intBitsToFloat((int) take(4, true)); }
    public double readDouble() { return Double.longBitsToDouble(take(8, false)); }
    public double readDoubleLE() { return Double.longBitsToDouble(take(8, true)); }

    /** netty: a new buffer holding the next n bytes */
    public ByteBuf readBytes(int n) {
        checkRead(n);
        ByteBuf b = new ByteBuf(java.util.Arrays.copyOfRange(data, rd, rd + n));
        rd += n;
        return b;
    }

    public ByteBuf readSlice(int n) { return readBytes(n); }
    public ByteBuf readRetainedSlice(int n) { return readBytes(n); }

    public ByteBuf readBytes(byte[] dst) {
        return readBytes(dst, 0, dst.length);
    }

    public ByteBuf readBytes(byte[] dst, int off, int len) {
        checkRead(len);
        if (off < 0 || off + len > dst.length) {
            throw new IndexOutOfBoundsException("dstIndex: " + off + ", length: " + len + " (expected: range(0, " + dst.length + "))");
        }
        System.arraycopy(data, rd, dst, off, len);
        rd += len;
        return this;
    }

    public ByteBuf readBytes(ByteBuf dst) {
        return readBytes(dst, dst.writableBytes());
    }

    public ByteBuf readBytes(ByteBuf dst, int len) {
        checkRead(len);
        dst.writeBytes(data, rd, len);
        rd += len;
        return this;
    }

    public CharSequence readCharSequence(int length, Charset cs) {
        checkRead(length);
        String s = new String(data, rd, length, cs);
        rd += length;
        return s;
    }

    // ------------------------------------------------------------------------------------------
    // absolute access

    public ByteBuf setBoolean(int i, boolean v) { setAt(i, v ? 1 : 0, 1, false); return this; }
    public ByteBuf setByte(int i, int v) { setAt(i, v, 1, false); return this; }
    public ByteBuf setByteLE(int i, int v) { setAt(i, v, 1, true); return this; }
    public ByteBuf setShort(int i, int v) { setAt(i, v, 2, false); return this; }
    public ByteBuf setShortLE(int i, int v) { setAt(i, v, 2, true); return this; }
    public ByteBuf setMedium(int i, int v) { setAt(i, v, 3, false); return this; }
    public ByteBuf setMediumLE(int i, int v) { setAt(i, v, 3, true); return this; }
    public ByteBuf setInt(int i, int v) { setAt(i, v, 4, false); return this; }
    public ByteBuf setIntLE(int i, int v) { setAt(i, v, 4, true); return this; }
    public ByteBuf setLong(int i, long v) { setAt(i, v, 8, false); return this; }
    public ByteBuf setLongLE(int i, long v) { setAt(i, v, 8, true); return this; }
    public ByteBuf setChar(int i, int v) { setAt(i, v, 2, false); return this; }
    public ByteBuf setFloat(int i, float v) { setAt(i, Float.floatToRawIntBits(v), 4, false); return this; }
    public ByteBuf setFloatLE(int i, float v) { setAt(i, Float.floatToRawIntBits(v), 4, true); return this; }
    public ByteBuf setDouble(int i, double v) { setAt(i, Double.doubleToRawLongBits(v), 8, false); return this; }
    public ByteBuf setDoubleLE(int i, double v) { setAt(i, Double.doubleToRawLongBits(v), 8, true); return this; }

    public ByteBuf setBytes(int i, byte[] src) {
        return setBytes(i, src, 0, src.length);
    }

    public ByteBuf setBytes(int i, byte[] src, int off, int len) {
        checkIndex(i, len);
        System.arraycopy(src, off, data, i, len);
        log("set", i, data, i, len);
        return this;
    }

    public ByteBuf setZero(int i, int len) {
        return setBytes(i, new byte[len]);
    }

    public boolean getBoolean(int i) { return peek(i, 1, false) != 0; }
    public byte getByte(int i) { return (byte) peek(i, 1, false); }
    public short getUnsignedByte(int i) { return (short) peek(i, 1, false); }
    public short getShort(int i) { return (short) peek(i, 2, false); }
    public short getShortLE(int i) { return (short) peek(i, 2, true); }
    public int getUnsignedShort(int i) { return (int) peek(i, 2, false); }
    public int getUnsignedShortLE(int i) { return (int) peek(i, 2, true); }
    public int getMedium(int i) { int v = (int) peek(i, 3, false); return (v & 0x800000) != 0 ? v | 0xFF000000 : v; }
    public int getMediumLE(int i) { int v = (int) peek(i, 3, true); return (v & 0x800000) != 0 ? v | 0xFF000000 : v; }
    public int getUnsignedMedium(int i) { return (int) peek(i, 3, false); }
    public int getUnsignedMediumLE(int i) { return (int) peek(i, 3, true); }
    public int getInt(int i) { return (int) peek(i, 4, false); }
    public int getIntLE(int i) { return (int) peek(i, 4, true); }
    public long getUnsignedInt(int i) { return peek(i, 4, false); }
    public long getUnsignedIntLE(int i) { return peek(i, 4, true); }
    public long getLong(int i) { return peek(i, 8, false); }
    public long getLongLE(int i) { return peek(i, 8, true); }
    public char getChar(int i) { return (char) peek(i, 2, false); }
    public float getFloat(int i) { return Float.intBitsToFloat((int) peek(i, 4, false)); }
    public float getFloatLE(int i) { return Float.intBitsToFloat((int) peek(i, 4, true)); }
    public double getDouble(int i) { return Double.longBitsToDouble(peek(i, 8, false)); }
    public double getDoubleLE(int i) { return Double.longBitsToDouble(peek(i, 8, true)); }

    public ByteBuf getBytes(int i, byte[] dst) {
        return getBytes(i, dst, 0, dst.length);
    }

    public ByteBuf getBytes(int i, byte[] dst, int off, int len) {
        checkIndex(i, len);
        System.arraycopy(data, i, dst, off, len);
        return this;
    }

    public CharSequence getCharSequence(int i, int length, Charset cs) {
        checkIndex(i, length);
        return new String(data, i, length, cs);
    }

    // ------------------------------------------------------------------------------------------
    // whole-buffer views

    public boolean hasArray() { return true; }
    public byte[] array() { return data; }
    public int arrayOffset() { return 0; }

    public ByteBuf copy() {
        return new ByteBuf(java.util.Arrays.copyOfRange(data, rd, wr));
    }

    public ByteBuf copy(int index, int length) {
        checkIndex(index, length);
        return new ByteBuf(java.util.Arrays.copyOfRange(data, index, index + length));
    }

    public ByteBuf slice() { return copy(); }
    public ByteBuf slice(int index, int length) { return copy(index, length); }
    public ByteBuf duplicate() {
        ByteBuf b = new ByteBuf(java.util.Arrays.copyOf(data, wr));
        b.rd = rd;
        return b;
    }

    public java.nio.ByteBuffer nioBuffer() {
        return java.nio.ByteBuffer.wrap(java.util.Arrays.copyOfRange(data, rd, wr));
    }

    /** reference counting is a no-op in the stand-in */
    public int refCnt() { return 1; }
    public ByteBuf retain() { return this; }
    public boolean release() { return true; }

    public String toString(Charset cs) {
        return new String(data, rd, wr - rd, cs);
    }

    public String toString(int index, int length, Charset cs) {
        checkIndex(index, length);
        return new String(data, index, length, cs);
    }

    /** bytes [0, writerIndex): what has been written (used by the driver and the checksum services) */
    public byte[] written() {
        return java.util.Arrays.copyOf(data, wr);
    }

    @Override
    public int compareTo(ByteBuf o) {
        return java.util.Arrays.compare(copy().written(), o.copy().written());
    }

    @Override
    public boolean equals(Object o) {
        return o instanceof ByteBuf && compareTo((ByteBuf) o) == 0;
    }

    @Override
    public int hashCode() {
        return java.util.Arrays.hashCode(copy().written());
    }

    @Override
    public String toString() {
        return "ByteBuf(ridx: " + rd + ", widx: " + wr + ", cap: " + data.length + ")";
    }
}
