package io.netty.buffer;

/** Reference runtime (Java): stand-in for netty's Unpooled factory. */
public final class Unpooled {
    private Unpooled() {
    }

    public static ByteBuf buffer() {
        return new ByteBuf(256, Integer.MAX_VALUE);
    }

    public static ByteBuf buffer(int initialCapacity) {
        return new ByteBuf(initialCapacity, Integer.MAX_VALUE);
    }

    public static ByteBuf buffer(int initialCapacity, int maxCapacity) {
        return new ByteBuf(initialCapacity, maxCapacity);
    }

    public static ByteBuf directBuffer() {
        return buffer();
    }

    public static ByteBuf directBuffer(int initialCapacity) {
        return buffer(initialCapacity);
    }

    public static ByteBuf wrappedBuffer(byte[] bytes) {
        return new ByteBuf(bytes);
    }

    public static ByteBuf copiedBuffer(byte[] bytes) {
        return new ByteBuf(bytes);
    }

    public static ByteBuf copiedBuffer(CharSequence s, java.nio.charset.Charset cs) {
        return new ByteBuf(s.toString().getBytes(cs));
    }
}
