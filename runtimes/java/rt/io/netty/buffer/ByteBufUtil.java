package io.netty.buffer;

/** Reference runtime (Java): the two ByteBufUtil helpers codec code plausibly uses. */
public final class ByteBufUtil {
    private ByteBufUtil() {
    }

    public static String hexDump(ByteBuf buf) {
        return hexDump(buf.copy().written());
    }

    public static String hexDump(byte[] bytes) {
        StringBuilder sb = new StringBuilder();
        for (byte b : bytes) {
            sb.append(String.format("%02x", b & 0xFF));
        }
        return sb.toString();
    }

    public static byte[] getBytes(ByteBuf buf) {
        return buf.copy().written();
    }
}
