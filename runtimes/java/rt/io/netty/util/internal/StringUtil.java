package io.netty.util.internal;

/** Reference runtime (Java): stand-in for netty's StringUtil (the emitter prints isNullOrEmpty only). */
public final class StringUtil {
    public static final String EMPTY_STRING = "";
    public static final String NEWLINE = System.lineSeparator();

    private StringUtil() {
    }

    public static boolean isNullOrEmpty(String s) {
        return s == null || s.isEmpty();
    }

    public static int length(String s) {
        return s == null ? 0 : s.length();
    }
}
