----------------------------- MODULE ReadMachine -----------------------------
(***************************************************************************)
(* The OPERATIONAL decoder: a cursor walking a work list over the bytes,   *)
(* filling a RECEIVER object -- the way the emitted decoders are built:    *)
(*   scalars / fixed strings are read and ASSIGNED to the member;          *)
(*   a string reads its length prefix, then its body (ReadPrefix, ReadBody)*)
(*   a repeated field reads its count, RESETS the member to an empty list  *)
(*   and appends one element per step;                                     *)
(*   an object member is replaced by a fresh instance and entered;         *)
(*   a match member looks the key up in the table (the key is the value    *)
(*   already decoded into the receiver), creates the payload and enters    *)
(*   it; a key that is not in the table stops the decoder without reading  *)
(*   a further byte.                                                       *)
(* The receiver is NOT assumed fresh: it may hold an earlier message of    *)
(* the same program (`prior`), which is how codecs are used on a stream    *)
(* (one object, decode called per frame).  What is handed back must not    *)
(* depend on it.                                                           *)
(*                                                                         *)
(* TLC checks for every program, message and prior receiver content of the *)
(* MCWire universe:                                                        *)
(*   RefinesDecode      at the end  recv = Wire!Norm(msg)  and the cursor  *)
(*                      stands behind the message (the tail is untouched)  *)
(*   CursorMonotone     the cursor never moves back and never passes the   *)
(*                      end of the input                                   *)
(*   UnknownKeyStops    an unknown key stops at the payload                *)
(* Deviation switches (all FALSE in the design; each is a defect that was  *)
(* found in an emitted decoder and repaired, see DESIGN 0.4):              *)
(*   AppendWithoutReset   a repeated member keeps what it held (Python)    *)
(*   KeepOnEmptyString    an empty string leaves the member as it was and  *)
(*                        an empty list element is dropped (Java)          *)
(*   SignedPrefix         a one-byte prefix >= 128 is read as negative and *)
(*                        treated as "nothing follows" (Java)              *)
(* With a switch on, TLC must find RefinesDecode violated.                 *)
(***************************************************************************)
EXTENDS MCWire

CONSTANTS AppendWithoutReset, KeepOnEmptyString, SignedPrefix,
          PriorMode          \* "fresh": only a new receiver; "any": every message of the program as earlier content

VARIABLES rtodo, rpos, recv, rphase, prior, rok
rvars == <<rtodo, rpos, recv, rphase, prior, rok>>
allrvars == <<vars, rvars>>

Input == buf \o Tail2

(* -------------------- the receiver: a tree with paths ------------------- *)
\* a path is a sequence of positions: a field index inside an object / payload, an element index inside a list
RECURSIVE GetAt(_, _), SetAt(_, _, _)
Kids(t) == IF t.t = "l" THEN t.xs ELSE t.fs
GetAt(t, path) == IF path = <<>> THEN t ELSE GetAt(Kids(t)[Head(path)], Tail(path))
SetAt(t, path, v) ==
  IF path = <<>> THEN v
  ELSE IF t.t = "l" THEN [t EXCEPT !.xs[Head(path)] = SetAt(@, Tail(path), v)]
       ELSE [t EXCEPT !.fs[Head(path)] = SetAt(@, Tail(path), v)]

\* what a constructor leaves in a member
RECURSIVE FreshFields(_, _)
FreshOf(P, f0) == LET f == Res(P, f0) IN
  IF f.rep THEN [t |-> "l", xs |-> <<>>]
  ELSE CASE f.k = "obj" -> [t |-> "o", fs |-> FreshFields(P, Pkt(P, f.ty).fields)]
         [] f.k = "inl" -> [t |-> "o", fs |-> FreshFields(P, f.fs)]
         [] f.k = "match" -> [t |-> "n"]
         [] OTHER -> [t |-> "b", b |-> <<>>]
FreshFields(P, fs) == [i \in 1..Len(fs) |-> FreshOf(P, fs[i])]
FreshRoot(P) == [t |-> "o", fs |-> FreshFields(P, RootOf(P))]

(* ------------------------------ work items ------------------------------ *)
\* decode field f (resolved, rep switched off for elements) into the member at `path`;
\* `scope` is the path of the enclosing object (where a match finds its key), `fs` its field list
Item(f, path, scope, fs) == [op |-> "f", f |-> f, path |-> path, scope |-> scope, fs |-> fs]
BodyItem(f, path, n) == [op |-> "body", f |-> f, path |-> path, n |-> n]
ElemItem(f, path, scope, fs) == [op |-> "elem", f |-> f, path |-> path, scope |-> scope, fs |-> fs]
ItemsOf(P, fs, scope) == [i \in 1..Len(fs) |-> Item(Res(P, fs[i]), Append(scope, i), scope, fs)]

RInit == /\ Init
         /\ rtodo = <<>> /\ rpos = 1 /\ recv = [t |-> "n"] /\ rphase = "idle" /\ prior = [t |-> "n"] /\ rok = TRUE
RPick == Pick /\ UNCHANGED rvars
\* the abstract Enc step produces the bytes; the decoder is then handed a receiver
REnc == /\ Enc
        /\ prior' \in {FreshRoot(prog)} \cup
                      (IF PriorMode = "any"
                       THEN {Norm(prog, "Root", [t |-> "o", fs |-> m]) : m \in {m \in MsgVals(prog, RootOf(prog)) : Consistent(prog, m)}}
                       ELSE {})
        /\ recv' = prior' /\ rtodo' = ItemsOf(prog, RootOf(prog), <<>>) /\ rpos' = 1 /\ rphase' = "run" /\ rok' = TRUE

\* a count / length as the decoder understands it
PrefixValue(bs, w) == LET n == BEInt(bs) IN IF SignedPrefix /\ w = 1 /\ n >= 128 THEN 0 ELSE n

RStep ==
  /\ rphase = "run" /\ rtodo # <<>> /\ rok
  /\ LET it == Head(rtodo) rest == Tail(rtodo) c == Cfg(prog) f == it.f IN
     CASE it.op = "body" ->                                       \* ReadBody
            /\ recv' = (IF it.n = 0 /\ KeepOnEmptyString THEN recv
                        ELSE SetAt(recv, it.path, [t |-> "b", b |-> Take(Input, rpos, it.n)]))
            /\ rpos' = rpos + it.n /\ rtodo' = rest /\ UNCHANGED rok
       [] it.op = "elem" ->                                       \* one list element: append a slot, then decode into it
            LET lst == GetAt(recv, it.path)
                slot == Append(it.path, Len(lst.xs) + 1)
                grown == SetAt(recv, it.path, [lst EXCEPT !.xs = Append(@, FreshOf(prog, [f EXCEPT !.rep = FALSE]))]) IN
            /\ recv' = grown
            /\ rtodo' = <<Item(f, slot, it.scope, it.fs)>> \o rest
            /\ UNCHANGED <<rpos, rok>>
       [] OTHER ->
            IF f.rep
            THEN \* ReadCount; reset the member; one element item per announced element
                 LET k == PrefixValue(Ord(c.le, Take(Input, rpos, c.ap)), c.ap)
                     e == [f EXCEPT !.rep = FALSE] IN
                 /\ recv' = (IF AppendWithoutReset THEN recv ELSE SetAt(recv, it.path, [t |-> "l", xs |-> <<>>]))
                 /\ rpos' = rpos + c.ap
                 /\ rtodo' = [x \in 1..k |-> ElemItem(e, it.path, it.scope, it.fs)] \o rest
                 /\ UNCHANGED rok
            ELSE CASE f.k \in {"int", "float", "char", "len", "ck"} ->
                        /\ recv' = SetAt(recv, it.path, [t |-> "b", b |-> Ord(c.le, Take(Input, rpos, Width(f.ty)))])
                        /\ rpos' = rpos + Width(f.ty) /\ rtodo' = rest /\ UNCHANGED rok
                   [] f.k = "fix" ->
                        LET pd == PadOf(prog, f) IN
                        /\ recv' = SetAt(recv, it.path, [t |-> "b", b |-> Trim(Take(Input, rpos, f.n), pd.b, pd.left)])
                        /\ rpos' = rpos + f.n /\ rtodo' = rest /\ UNCHANGED rok
                   [] f.k = "dyn" ->                               \* ReadPrefix now, ReadBody next
                        LET n == PrefixValue(Ord(c.le, Take(Input, rpos, c.sp)), c.sp) IN
                        /\ rpos' = rpos + c.sp /\ rtodo' = <<BodyItem(f, it.path, n)>> \o rest
                        /\ UNCHANGED <<recv, rok>>
                   [] f.k \in {"obj", "inl"} ->                    \* EnterObj: a fresh instance replaces the member
                        LET sub == IF f.k = "obj" THEN Pkt(prog, f.ty).fields ELSE f.fs IN
                        /\ recv' = SetAt(recv, it.path, [t |-> "o", fs |-> FreshFields(prog, sub)])
                        /\ rtodo' = ItemsOf(prog, sub, it.path) \o rest
                        /\ UNCHANGED <<rpos, rok>>
                   [] OTHER ->                                      \* EnterMatch: the key is what was decoded into the receiver
                        LET kv == GetAt(recv, Append(it.scope, FieldIndex(it.fs, f.key))).b
                            target == Dispatch(f.pairs, kv) IN
                        IF target = ""
                        THEN /\ rok' = FALSE /\ recv' = SetAt(recv, it.path, [t |-> "n"]) /\ UNCHANGED <<rpos, rtodo>>
                        ELSE /\ recv' = SetAt(recv, it.path, [t |-> "m", pkt |-> target, fs |-> FreshFields(prog, Pkt(prog, target).fields)])
                             /\ rtodo' = ItemsOf(prog, Pkt(prog, target).fields, it.path) \o rest
                             /\ UNCHANGED <<rpos, rok>>
  /\ UNCHANGED <<vars, rphase, prior>>

RFinish == /\ rphase = "run" /\ (rtodo = <<>> \/ ~rok) /\ rphase' = "done"
           /\ UNCHANGED <<vars, rtodo, rpos, recv, prior, rok>>

RNext == RPick \/ REnc \/ RStep \/ RFinish
RSpec == RInit /\ [][RNext]_allrvars

\* substituted for MCWire!StrVals (cfg:  StrVals <- LongStrVals) when the SignedPrefix switch is exercised: a
\* string whose length does not fit seven bits
LongStrVals == {<<>>, Rep(120, 130)}

(* ------------------------------ properties ------------------------------ *)
RDone == rphase = "done"
\* C02 for histories: whatever the receiver held, the result is the message and the cursor is behind it
RefinesDecode == (RDone /\ Consistent(prog, msg)) =>
  /\ rok
  /\ recv = Norm(prog, "Root", M)
  /\ rpos = Len(buf) + 1
\* agreement with the declarative decoder in every case, including the unknown key
AgreesWithDecode == RDone =>
  LET r == Decode(prog, "Root", Input) IN rok = r.ok /\ rpos = r.pos /\ (rok => recv = r.v)
UnknownKeyStops == (RDone /\ UnknownKey(prog, msg)) => ~rok
CursorMonotone == [][rpos' >= rpos]_allrvars
CursorInside == rpos <= Len(Input) + 1
=============================================================================
