SPECIFICATION Spec
CONSTANTS
  DebugPrintArgc = FALSE
  MaxCalls = 2
  LibMemo = FALSE
INVARIANTS StdoutExact FileUntouchedOnError LibIsResult TreeExact Alive EmitCalls
CHECK_DEADLOCK FALSE
