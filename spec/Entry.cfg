SPECIFICATION Spec
CONSTANTS
  DebugPrintArgc = FALSE
  MaxCalls = 2
INVARIANTS StdoutExact FileUntouchedOnError LibIsResult TreeExact Alive EmitCalls
CHECK_DEADLOCK FALSE
