SPECIFICATION DSpec
CONSTANTS
  MaxFields = 1
  Shapes = {"S1", "S2"}
  OutOfDomain = FALSE
  DropOffsetAfterObject = FALSE
  DropOffsetAfterMatch = FALSE
  OneByteSubtree = FALSE
INVARIANTS AttributesSegments EndsAtMessageEnd RangesInside
PROPERTY OffsetMonotone
CHECK_DEADLOCK FALSE
