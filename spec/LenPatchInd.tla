---------------------------- MODULE LenPatchInd ----------------------------
(***************************************************************************)
(* The back-patch discipline of WireMachine.tla abstracted to COUNTS, for  *)
(* an UNBOUNDED statement: whatever the number of bytes written before the *)
(* length field, between it and its target, inside the target and after    *)
(* it, the value patched into the placeholder is the number of bytes the   *)
(* target occupies.  TLC checks WireMachine on concrete bytes for a        *)
(* bounded universe; here Apalache discharges an INDUCTIVE invariant:      *)
(*   IndInit => IndInv          (length 0)                                 *)
(*   IndInv /\ Next => IndInv'  (length 1)                                 *)
(*   IndInv => LenIsTargetBytes                                            *)
(* for all integers.  `Gap` is the step the deviation switch               *)
(* MeasureFromPlaceholder gets wrong: with the switch on, the third        *)
(* obligation fails.                                                       *)
(***************************************************************************)
EXTENDS Integers

CONSTANT
  \* @type: Bool;
  MeasureFromPlaceholder

VARIABLES
  \* @type: Int;
  n,          \* bytes written so far
  \* @type: Int;
  lenPos,     \* offset of the placeholder
  \* @type: Int;
  w,          \* width of the placeholder
  \* @type: Int;
  tgtStart,   \* bytes written when the target began
  \* @type: Int;
  tgtEnd,     \* bytes written when the target ended
  \* @type: Int;
  val,        \* what stands in the placeholder
  \* @type: Str;
  pc          \* "before" | "gap" | "target" | "after" | "done"

Widths == {1, 2, 4, 8}

Init == n = 0 /\ lenPos = 0 /\ w = 0 /\ tgtStart = 0 /\ tgtEnd = 0 /\ val = 0 /\ pc = "before"

\* any number of bytes at once: the statement does not depend on how the writes are cut
WriteBefore == pc = "before" /\ \E k \in Nat : n' = n + k /\ UNCHANGED <<lenPos, w, tgtStart, tgtEnd, val, pc>>
Placeholder == pc = "before" /\ \E ww \in Widths : w' = ww /\ lenPos' = n /\ n' = n + ww /\ val' = 0 /\ pc' = "gap"
                                                   /\ UNCHANGED <<tgtStart, tgtEnd>>
Gap         == pc = "gap" /\ \E k \in Nat : n' = n + k /\ UNCHANGED <<lenPos, w, tgtStart, tgtEnd, val, pc>>
BeginTarget == pc = "gap" /\ tgtStart' = n /\ pc' = "target" /\ UNCHANGED <<n, lenPos, w, tgtEnd, val>>
WriteTarget == pc = "target" /\ \E k \in Nat : n' = n + k /\ UNCHANGED <<lenPos, w, tgtStart, tgtEnd, val, pc>>
\* TargetEnd; Backpatch: the buffer does not grow, the placeholder gets its value
EndAndPatch == pc = "target" /\ tgtEnd' = n /\ pc' = "after"
               /\ val' = (IF MeasureFromPlaceholder THEN n - (lenPos + w) ELSE n - tgtStart)
               /\ UNCHANGED <<n, lenPos, w, tgtStart>>
WriteAfter  == pc = "after" /\ \E k \in Nat : n' = n + k /\ UNCHANGED <<lenPos, w, tgtStart, tgtEnd, val, pc>>
Finish      == pc = "after" /\ pc' = "done" /\ UNCHANGED <<n, lenPos, w, tgtStart, tgtEnd, val>>

Next == WriteBefore \/ Placeholder \/ Gap \/ BeginTarget \/ WriteTarget \/ EndAndPatch \/ WriteAfter \/ Finish

\* the property
LenIsTargetBytes == pc \in {"after", "done"} => val = tgtEnd - tgtStart

\* the inductive invariant: types, the order of the marks, and the property itself
IndInv ==
  /\ pc \in {"before", "gap", "target", "after", "done"}
  /\ n \in Nat /\ lenPos \in Nat /\ w \in Nat /\ tgtStart \in Nat /\ tgtEnd \in Nat /\ val \in Int
  /\ (pc = "before" => w = 0)
  /\ (pc # "before" => w \in Widths /\ lenPos + w <= n)
  /\ (pc \in {"target", "after", "done"} => lenPos + w <= tgtStart /\ tgtStart <= n)
  /\ (pc \in {"after", "done"} => tgtStart <= tgtEnd /\ tgtEnd <= n)
  /\ LenIsTargetBytes

\* an arbitrary state that satisfies the invariant (Apalache wants every variable assigned from a set first)
IndInit == /\ n \in Int /\ lenPos \in Int /\ w \in Int /\ tgtStart \in Int /\ tgtEnd \in Int /\ val \in Int
           /\ pc \in {"before", "gap", "target", "after", "done"}
           /\ IndInv
=============================================================================
