--------------------------- MODULE TraceLifecycle ---------------------------
(***************************************************************************)
(* Validation of the recorded build / self-test lifecycle of the code      *)
(* fin-protoc emitted (C07, C17) against the lifecycle of Pipeline.tla:    *)
(*   Validate -> RunGen(L) -> WriteFiles(L) -> Build(L) -> SelfTest(L)     *)
(*  program  id, npackets, accepted         compile outcome of one program *)
(*  target   lang, files, build, marker, inventory                         *)
(*           files written, did the emitted non-test code build against    *)
(*           the runtime, does any emitted file contain placeholder /      *)
(*           'unsupported' text, has every declared packet its type and    *)
(*           every declared field its member                               *)
(*  selftest lang, build, ran, passed, failed                              *)
(* Lifecycle invariant of the design: accepted => for every requested      *)
(* target: files written, build, no marker, inventory; and for the five    *)
(* codec targets: the emitted tests build, there is at least one test per  *)
(* declared packet, all pass.  rejected => no file.                        *)
(***************************************************************************)
EXTENDS Integers, Sequences, FiniteSets, TLC, Json

Trace == ndJsonDeserialize("trace.ndjson")
VARIABLES l, cur
vars == <<l, cur>>
Ev == Trace[l]
Is(e) == l <= Len(Trace) /\ Ev.ev = e
Report(fails) == IF fails = <<>> THEN TRUE ELSE PrintT(<<"VERDICT", ToJson([i |-> l, ev |-> Ev.ev, lang |-> Ev.lang, fails |-> fails])>>)

Init == l = 1 /\ cur = [id |-> "", npackets |-> 0, accepted |-> FALSE]
Program == Is("program") /\ cur' = [id |-> Ev.id, npackets |-> Ev.npackets, accepted |-> Ev.accepted] /\ l' = l + 1

Target == /\ Is("target")
          /\ Report(IF ~cur.accepted
                    THEN (IF Ev.files > 0 THEN <<[kind |-> "files-written-on-reject"]>> ELSE <<>>)
                    ELSE (IF Ev.files = 0 THEN <<[kind |-> "no-files"]>> ELSE <<>>)
                      \o (IF Ev.files > 0 /\ ~Ev.build THEN <<[kind |-> "build-fail"]>> ELSE <<>>)
                      \o (IF Ev.marker THEN <<[kind |-> "marker-text"]>> ELSE <<>>)
                      \o (IF Ev.build /\ ~Ev.inventory THEN <<[kind |-> "member-missing"]>> ELSE <<>>))
          /\ l' = l + 1 /\ UNCHANGED cur

SelfTest == /\ Is("selftest")
            /\ Report(IF ~cur.accepted THEN <<>>
                      ELSE IF ~Ev.build THEN <<[kind |-> "selftest-build-fail"]>>
                      ELSE (IF Ev.failed > 0 THEN <<[kind |-> "selftest-fails"]>> ELSE <<>>)
                        \o (IF Ev.ran < cur.npackets THEN <<[kind |-> "selftest-missing-packet"]>> ELSE <<>>))
            /\ l' = l + 1 /\ UNCHANGED cur

Next == Program \/ Target \/ SelfTest
Spec == Init /\ [][Next]_vars
Accepted == TLCGet("stats").diameter = Len(Trace) + 1
=============================================================================
