------------------------------- MODULE MCWire -------------------------------
(***************************************************************************)
(* Exhaustive check of Wire.tla on a bounded universe of programs, option  *)
(* settings and messages: the specification-level statements of C01, C02,  *)
(* C04, C05, C06 and the tiling lemma behind C15.                          *)
(* It also DERIVES the value domain under which C02 can hold at all (fixed *)
(* strings must not begin/end with the pad byte on the padded side, must   *)
(* not be all padding, must fit n; counts must fit the prefix width): a    *)
(* value outside it makes RoundTrip fail here, before any code is run.     *)
(***************************************************************************)
EXTENDS Wire

CONSTANTS MaxFields,        \* plain root fields in shape S1
          Shapes,           \* subset of {"S1", "S2"}
          OutOfDomain       \* TRUE adds values outside the derived domain: RoundTrip must then fail

F0 == [k |-> "", name |-> "", ty |-> "", rep |-> FALSE, n |-> 0, pad |-> "none", key |-> "",
       pairs |-> <<>>, tgt |-> "", alg |-> "", fs |-> <<>>]
IntF(name, ty)        == [F0 EXCEPT !.k = "int", !.name = name, !.ty = ty]
Dyn(name)            == [F0 EXCEPT !.k = "dyn", !.name = name]
Fix(name, n, pad)    == [F0 EXCEPT !.k = "fix", !.name = name, !.n = n, !.pad = pad]
Obj(name, ty)        == [F0 EXCEPT !.k = "obj", !.name = name, !.ty = ty]
Inl(name, fs)        == [F0 EXCEPT !.k = "inl", !.name = name, !.fs = fs]
MetaF(name, ty)      == [F0 EXCEPT !.k = "meta", !.name = name, !.ty = ty]
LenF(name, ty, tgt)  == [F0 EXCEPT !.k = "len", !.name = name, !.ty = ty, !.tgt = tgt]
CkF(name, ty, alg)   == [F0 EXCEPT !.k = "ck", !.name = name, !.ty = ty, !.alg = alg]
Repeat(f)            == [f EXCEPT !.rep = TRUE]

Table == << [keys |-> << <<1>> >>, lits |-> <<"1">>, pkt |-> "A"],
            [keys |-> << <<2>>, <<3>> >>, lits |-> <<"2", "3">>, pkt |-> "B"],
            [keys |-> << <<4>> >>, lits |-> <<"4">>, pkt |-> "E"] >>
MatchF == [F0 EXCEPT !.k = "match", !.name = "Body", !.key = "T", !.pairs = Table]

AuxPkts == << [name |-> "A", root |-> FALSE, fields |-> <<IntF("x", "u8")>>],
              [name |-> "B", root |-> FALSE, fields |-> <<IntF("y", "i16"), Dyn("s")>>],
              [name |-> "E", root |-> FALSE, fields |-> <<>>] >>
Metas == << [name |-> "Code", k |-> "fix", ty |-> "", n |-> 3, pad |-> "z", ref |-> ""],
            [name |-> "Alias", k |-> "", ty |-> "", n |-> 0, pad |-> "none", ref |-> "Code"] >>

Plain == { IntF("p", "u8"), IntF("p", "u32"), Dyn("p"), Obj("p", "B"), MetaF("p", "Alias"),
           Inl("p", <<IntF("q", "u16"), Dyn("r")>>) }
      \cup { Fix("p", 3, pad) : pad \in {"none", "z", "l0", "rsp", "lnul"} }
PlainR == Plain \cup { Repeat(f) : f \in Plain }
Rename(f, i) == [f EXCEPT !.name = <<"p1", "p2", "p3">>[i]]

S1Fields == UNION { { [i \in 1..n |-> Rename(g[i], i)] : g \in [1..n -> PlainR] } : n \in 1..MaxFields }
S2Fields == { <<IntF("T", "u8"), LenF("L", lw, "Body")>> \o mid \o <<MatchF>> \o ck :
                lw \in {"u8", "u16", "u32"},
                mid \in {<<>>} \cup { <<Rename(g, 1)>> : g \in {Dyn("p"), Repeat(IntF("p", "u16")), Fix("p", 3, "l0")} },
                ck \in {<<>>, <<CkF("Ck", "u16", "VSUM16")>>, <<CkF("Ck", "u8", "VSUM8")>>, <<CkF("Ck", "u32", "NONE")>>} }
RootFields == (IF "S1" \in Shapes THEN S1Fields ELSE {}) \cup (IF "S2" \in Shapes THEN S2Fields ELSE {})

OptSets == { [le |-> le, sp |-> sp, ap |-> ap, padleft |-> pl, padchar |-> pc] :
               le \in {"", "true"}, sp \in {"", "u8"}, ap \in {"", "u8", "u32"},
               pl \in {"", "true"}, pc \in {"", "0"} }
Progs == { [opts |-> o, metas |-> Metas,
            pkts |-> <<[name |-> "Root", root |-> TRUE, fields |-> fs]>> \o AuxPkts] : o \in OptSets, fs \in RootFields }

(* ------------------------------ messages ------------------------------- *)
B(bs) == [t |-> "b", b |-> bs]
IntVals(w) == IF w = 1 THEN {<<0>>, <<255>>} ELSE IF w = 2 THEN {<<1, 2>>, <<255, 0>>} ELSE {<<1, 2, 3, 4>>}
StrVals == {<<>>, <<97, 195, 169>>}
FixVals == {<<>>, <<65>>, <<65, 66, 67>>}       \* never begins/ends with a pad byte, fits n
           \cup (IF OutOfDomain THEN {<<48, 65>>} ELSE {})
KeyVals == {<<1>>, <<2>>, <<3>>, <<4>>, <<9>>}   \* 9 is not in the table

RECURSIVE ElemVals(_, _), FieldVals(_, _), MsgVals(_, _)
ElemVals(P, f) ==
  CASE f.k = "int"   -> IF f.name = "T" THEN {B(v) : v \in KeyVals} ELSE {B(v) : v \in IntVals(Width(f.ty))}
    [] f.k = "dyn"   -> {B(v) : v \in StrVals}
    [] f.k = "fix"   -> {B(v) : v \in FixVals}
    [] f.k = "obj"   -> {[t |-> "o", fs |-> m] : m \in MsgVals(P, Pkt(P, f.ty).fields)}
    [] f.k = "inl"   -> {[t |-> "o", fs |-> m] : m \in MsgVals(P, f.fs)}
    [] f.k = "match" -> UNION { {[t |-> "m", pkt |-> q, fs |-> m] : m \in MsgVals(P, Pkt(P, q).fields)} : q \in {"A", "B", "E"} }
    [] f.k = "len"   -> {B(Rep(165, Width(f.ty)))}          \* whatever the caller stored
    [] f.k = "ck"    -> {B(Rep(90, Width(f.ty)))}
FieldVals(P, f0) == LET f == Res(P, f0) IN
  IF f.rep THEN {[t |-> "l", xs |-> <<>>]} \cup {[t |-> "l", xs |-> <<x, y>>] : x \in ElemVals(P, f), y \in ElemVals(P, f)}
  ELSE ElemVals(P, f)
MsgVals(P, fs) == IF fs = <<>> THEN {<<>>}
                  ELSE {<<v>> \o rest : v \in FieldVals(P, Head(fs)), rest \in MsgVals(P, Tail(fs))}

RootOf(P) == Pkt(P, "Root").fields
HasMatch(P) == \E i \in 1..Len(RootOf(P)) : RootOf(P)[i].k = "match"
KeyOf(P, m) == m[FieldIndex(RootOf(P), "T")].b
BodyOf(P, m) == m[FieldIndex(RootOf(P), "Body")]
\* caller-consistent: the payload is the packet the key maps to
Consistent(P, m) == ~HasMatch(P) \/ Dispatch(Table, KeyOf(P, m)) = BodyOf(P, m).pkt
UnknownKey(P, m) == HasMatch(P) /\ Dispatch(Table, KeyOf(P, m)) = ""

VARIABLES prog, msg, phase, buf
vars == <<prog, msg, phase, buf>>

Init == prog \in Progs /\ msg = <<>> /\ phase = "pick" /\ buf = <<>>
Pick == /\ phase = "pick"
        /\ msg' \in {m \in MsgVals(prog, RootOf(prog)) : Consistent(prog, m) \/ UnknownKey(prog, m)}
        /\ phase' = "enc" /\ UNCHANGED <<prog, buf>>
Enc  == /\ phase = "enc"
        /\ buf' = Layout(prog, "Root", [t |-> "o", fs |-> msg])
        /\ phase' = "done" /\ UNCHANGED <<prog, msg>>
Next == Pick \/ Enc
Spec == Init /\ [][Next]_vars

M == [t |-> "o", fs |-> msg]
Done == phase = "done"
Good == Done /\ Consistent(prog, msg)
Tail2 == <<9, 9>>
Segs == Segments(prog, "Root", M)
SegOf(name) == LET i == CHOOSE i \in 1..Len(Segs) : Segs[i].name = name IN Segs[i]
Bytes(sg) == SubSeq(buf, sg.off + 1, sg.off + sg.len)
HasField(name) == \E i \in 1..Len(RootOf(prog)) : RootOf(prog)[i].name = name
Computed(f) == f.k = "len" \/ (f.k = "ck" /\ Registered(f.alg, Width(f.ty)))

\* C02: decode inverts encode, consumes exactly the message, leaves the tail, re-encodes equal
RoundTrip == Good =>
  LET r == Decode(prog, "Root", buf \o Tail2) IN
    /\ r.ok
    /\ r.pos = Len(buf) + 1
    /\ \A i \in 1..Len(msg) : ~Computed(RootOf(prog)[i]) => r.v.fs[i] = msg[i]
    /\ Layout(prog, "Root", r.v) = buf
    /\ r.v = Norm(prog, "Root", M)
\* C04: the length field holds the byte length of the target's encoding, whatever the caller stored
LenOf == (Done /\ HasField("L")) =>
  LET f == RootOf(prog)[FieldIndex(RootOf(prog), "L")]
      b == SegOf("Body") IN
  \* Body may be empty (packet E): then it has no segment; its length is what lies between its
  \* neighbours.  Use the direct definition instead:
  Bytes(SegOf("L")) = Ord(Cfg(prog).le, IntBE(Len(EncFields(prog, Pkt(prog, BodyOf(prog, msg).pkt).fields, BodyOf(prog, msg).fs, <<>>)), Width(f.ty)))
\* C06: a registered checksum covers exactly the preceding bytes; an unregistered one is the caller's
Cksum == (Done /\ HasField("Ck")) =>
  LET f == RootOf(prog)[FieldIndex(RootOf(prog), "Ck")] sg == SegOf("Ck") w == Width(f.ty) IN
  Bytes(sg) = IF Registered(f.alg, w) THEN Ord(Cfg(prog).le, IntBE(Alg(SubSeq(buf, 1, sg.off), w), w))
              ELSE Ord(Cfg(prog).le, Rep(90, w))
\* C05: a key absent from the table makes decoding fail, at the payload, without reading on
UnknownKeyFails == (Done /\ UnknownKey(prog, msg)) =>
  LET r == Decode(prog, "Root", buf \o Tail2) IN ~r.ok
\* C15 lemma: the leaf segments tile the message
SegmentsTile == Done => Tiles(Segs, Len(buf))
\* C01 sanity: the layout is the concatenation of the segments' bytes
SegsAreLayout == Done => FoldLeft(LAMBDA acc, sg : acc \o Bytes(sg), <<>>, Segs) = buf
=============================================================================
