----------------------------- MODULE TraceModel -----------------------------
(***************************************************************************)
(* Conformance of the REAL front end (ANTLR parse + visitor + resolution)  *)
(* with Model.tla.  One event per program:                                 *)
(*   model   prog : the abstract program, lines : lines of the top-level   *)
(*           declarations in the text that was compiled, dump : the        *)
(*           projection of the BinaryModel the overlay driver printed      *)
(* The step is total; whatever differs from ModelOf(prog, lines) is        *)
(* printed as a VERDICT naming the components / packets / fields.          *)
(***************************************************************************)
EXTENDS Model, Json
Trace == ndJsonDeserialize("trace.ndjson")
VARIABLES l
Ev == Trace[l]
Init == l = 1
Check == /\ l <= Len(Trace)
         /\ LET want == ModelOf(Ev.prog, Ev.lines)
                got == DumpShape(Ev.dump)
                d == Diff(want, got) IN
            IF d = {} THEN TRUE
            ELSE PrintT(<<"VERDICT", ToJson([i |-> l, id |-> Ev.id, differs |-> d])>>)
         /\ l' = l + 1
Spec == Init /\ [][Check]_l
Accepted == TLCGet("stats").diameter = Len(Trace) + 1
=============================================================================
