SPECIFICATION GenSpec
CONSTANTS
  InPlaceNormalise = FALSE
  IterateMap = FALSE
  NPackets = 1
INVARIANTS EmitOrder Independent
CHECK_DEADLOCK FALSE
