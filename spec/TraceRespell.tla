---------------------------- MODULE TraceRespell ----------------------------
(***************************************************************************)
(* Validation of compilations of respelled texts (C08) against Respell.tla *)
(* (Meaning' = Meaning  =>  out' = out).                                   *)
(*  base     files : target -> (path -> sha)     outputs of the base text  *)
(*  respell  site, exit, files                   outputs of the text with  *)
(*                                               one site respelled        *)
(***************************************************************************)
EXTENDS Integers, Sequences, FiniteSets, TLC, Json
Trace == ndJsonDeserialize("trace.ndjson")
VARIABLES l, out
vars == <<l, out>>
Ev == Trace[l]
Is(e) == l <= Len(Trace) /\ Ev.ev = e
Init == l = 1 /\ out = [none |-> [none |-> ""]]
Base == Is("base") /\ out' = Ev.files /\ l' = l + 1
Respell == /\ Is("respell")
           /\ LET bad == IF Ev.exit # 0 THEN {"rejected"} ELSE {L \in DOMAIN out : L \notin DOMAIN Ev.files \/ Ev.files[L] # out[L]} IN
              IF bad = {} THEN TRUE ELSE PrintT(<<"VERDICT", ToJson([i |-> l, site |-> Ev.site, differs |-> bad])>>)
           /\ l' = l + 1 /\ UNCHANGED out
Next == Base \/ Respell
Spec == Init /\ [][Next]_vars
Accepted == TLCGet("stats").diameter = Len(Trace) + 1
=============================================================================
