-------------------------------- MODULE Wire --------------------------------
(***************************************************************************)
(* Declarative wire semantics of PacketDSL (the oracle of C01-C06, C15).   *)
(*                                                                         *)
(* A program is DATA (a record, see harness/PROTOCOL.md):                  *)
(*   [opts  : [le, sp, ap, padleft, padchar : STRING ("" = omitted)],      *)
(*    metas : Seq([name, k, ty, n, pad, ref]),                             *)
(*    pkts  : Seq([name, root, fields : Seq(Field)])]                      *)
(*   Field = [k, name, ty, rep, n, pad, key, pairs, tgt, alg, fs]          *)
(*     k \in int float char fix dyn obj inl match len ck meta              *)
(* A value is a tagged tree; NO wire value is ever a TLA+ integer:         *)
(*   [t |-> "b", b |-> bytes]   scalar (canonical big-endian) / string     *)
(*   [t |-> "l", xs |-> <<..>>] repeated field                             *)
(*   [t |-> "o", fs |-> <<..>>] object (one value per field, positional)   *)
(*   [t |-> "m", pkt |-> name, fs |-> <<..>>]  match payload               *)
(* Recursion is only over structural nesting; every data-length loop is a  *)
(* FoldLeft / function constructor.                                        *)
(***************************************************************************)
EXTENDS Integers, Sequences, FiniteSets, TLC, SequencesExt

(* ------------------------------- bytes -------------------------------- *)
RECURSIVE IntBE(_, _)
IntBE(n, w) == IF w = 0 THEN <<>> ELSE Append(IntBE(n \div 256, w - 1), n % 256)
BEInt(bs) == FoldLeft(LAMBDA acc, b : acc * 256 + b, 0, bs)     \* only for lengths / counts
Ord(le, bs) == IF le THEN Reverse(bs) ELSE bs
Rep(b, k) == [i \in 1..(IF k > 0 THEN k ELSE 0) |-> b]
Idx(s) == [i \in 1..Len(s) |-> i]

\* reference checksum: position weighted and length sensitive
WSum(bs) == FoldLeft(LAMBDA acc, i : (acc + i * bs[i]) % 65521, 0, Idx(bs))
Alg(bs, w) == LET a == (WSum(bs) + 7 * Len(bs)) % 65521 IN IF w = 1 THEN a % 256 ELSE a

Width(ty) == CASE ty \in {"u8", "i8", "char"} -> 1
               [] ty \in {"u16", "i16"} -> 2
               [] ty \in {"u32", "i32", "f32"} -> 4
               [] ty \in {"u64", "i64", "f64"} -> 8
               [] OTHER -> 0

(* ---------------------------- configuration --------------------------- *)
PadByte(c) == CASE c = "0" -> 48 [] c = "nul" -> 0 [] OTHER -> 32
Cfg(P) == [le   |-> P.opts.le = "true",
           sp   |-> IF P.opts.sp = "" THEN 2 ELSE Width(P.opts.sp),
           ap   |-> IF P.opts.ap = "" THEN 2 ELSE Width(P.opts.ap),
           padb |-> PadByte(P.opts.padchar),
           padl |-> P.opts.padleft = "true"]

\* registered checksum algorithms: the name encodes the width (VSUM8 .. VSUM64)
Registered(alg, w) == alg = "VSUM" \o (CASE w = 1 -> "8" [] w = 2 -> "16" [] w = 4 -> "32" [] OTHER -> "64")

(* ------------------------- resolution of spelling ---------------------- *)
Pkt(P, name) == LET i == CHOOSE i \in 1..Len(P.pkts) : P.pkts[i].name = name IN P.pkts[i]
HasPkt(P, name) == \E i \in 1..Len(P.pkts) : P.pkts[i].name = name
Meta(P, name) == LET i == CHOOSE i \in 1..Len(P.metas) : P.metas[i].name = name IN P.metas[i]
\* a reference entry (`MsgType Alias`) takes the type of the entry it names (one level)
MetaT(P, name) == LET e == Meta(P, name) IN IF e.ref = "" THEN e ELSE Meta(P, e.ref)

\* the field as the codec sees it: MetaData-typed fields take the entry's type; an attribute written
\* on the field itself wins over the entry's
Res(P, f) == IF f.k # "meta" THEN f
             ELSE LET e == MetaT(P, f.ty) IN
                  [f EXCEPT !.k = e.k, !.ty = e.ty, !.n = e.n, !.pad = IF f.pad # "none" THEN f.pad ELSE e.pad]

\* declared, else configured, else space on the right
PadOf(P, f) == CASE f.pad = "z"    -> [b |-> 0,  left |-> FALSE]
                 [] f.pad = "l0"   -> [b |-> 48, left |-> TRUE]
                 [] f.pad = "lsp"  -> [b |-> 32, left |-> TRUE]
                 [] f.pad = "lnul" -> [b |-> 0,  left |-> TRUE]
                 [] f.pad = "ldef" -> [b |-> 32, left |-> TRUE]
                 [] f.pad = "r0"   -> [b |-> 48, left |-> FALSE]
                 [] f.pad = "rsp"  -> [b |-> 32, left |-> FALSE]
                 [] f.pad = "rnul" -> [b |-> 0,  left |-> FALSE]
                 [] f.pad = "rdef" -> [b |-> 32, left |-> FALSE]
                 [] OTHER          -> [b |-> Cfg(P).padb, left |-> Cfg(P).padl]

FieldIndex(fs, name) == CHOOSE i \in 1..Len(fs) : fs[i].name = name

\* Dispatch(table, key): the packet a key value selects, "" when the key is not in the table.
\* pairs[i] = [keys : Seq(bytes), lits : Seq(STRING), pkt]; keys are the canonical bytes of the
\* literals (big-endian in the key field's width for integers, the characters for strings).
Dispatch(pairs, kv) ==
  LET hit == {i \in 1..Len(pairs) : \E j \in 1..Len(pairs[i].keys) : pairs[i].keys[j] = kv} IN
  IF hit = {} THEN "" ELSE pairs[CHOOSE i \in hit : \A j \in hit : i <= j].pkt

(* ------------------------------ encoding ------------------------------- *)
Padded(P, f, bs) == LET p == PadOf(P, f) fill == Rep(p.b, f.n - Len(bs)) IN
                    IF p.left THEN fill \o bs ELSE bs \o fill

RECURSIVE EncFields(_, _, _, _), EncElem(_, _, _, _, _), EncField(_, _, _, _, _)

\* one element of field f (resolved) with value v, appended to buf (the WHOLE message so far)
\* fs / vs: the enclosing field list and its values (for length-of)
EncElem(P, f, v, buf, ctx) ==
  LET c == Cfg(P) IN
  CASE f.k \in {"int", "float", "char"} -> buf \o Ord(c.le, v.b)
    [] f.k = "fix"   -> buf \o Padded(P, f, v.b)
    [] f.k = "dyn"   -> buf \o Ord(c.le, IntBE(Len(v.b), c.sp)) \o v.b
    [] f.k = "obj"   -> EncFields(P, Pkt(P, f.ty).fields, v.fs, buf)
    [] f.k = "inl"   -> EncFields(P, f.fs, v.fs, buf)
    [] f.k = "match" -> EncFields(P, Pkt(P, v.pkt).fields, v.fs, buf)
    [] f.k = "len"   -> LET j == FieldIndex(ctx.fs, f.tgt)
                            n == Len(EncField(P, ctx.fs, ctx.vs, j, <<>>)) IN
                        buf \o Ord(c.le, IntBE(n, Width(f.ty)))
    [] f.k = "ck"    -> IF Registered(f.alg, Width(f.ty))
                        THEN buf \o Ord(c.le, IntBE(Alg(buf, Width(f.ty)), Width(f.ty)))
                        ELSE buf \o Ord(c.le, v.b)

EncField(P, fs, vs, i, buf) ==
  LET f == Res(P, fs[i]) v == vs[i] ctx == [fs |-> fs, vs |-> vs] IN
  IF f.rep
  THEN FoldLeft(LAMBDA acc, x : EncElem(P, f, x, acc, ctx),
                buf \o Ord(Cfg(P).le, IntBE(Len(v.xs), Cfg(P).ap)), v.xs)
  ELSE EncElem(P, f, v, buf, ctx)

EncFields(P, fs, vs, buf) == FoldLeft(LAMBDA acc, i : EncField(P, fs, vs, i, acc), buf, Idx(fs))

\* the canonical encoding of message m (a "o" tree) of packet `name`
Layout(P, name, m) == EncFields(P, Pkt(P, name).fields, m.fs, <<>>)

(* ------------------------------ segments ------------------------------- *)
\* Segments(P, name, m): for every LEAF field occurrence (scalar, string, fixed string, length,
\* checksum; list elements individually) the byte range [off, len] of its value bytes, in wire
\* order, with the declared field name.  Prefixes are reported as separate parts.  Offsets are
\* 0-based.  This is what the Wireshark dissector must attribute (C15).
RECURSIVE SegFields(_, _, _, _), SegElem(_, _, _, _, _), SegField(_, _, _, _, _)
\* accumulators are records [buf, segs]
Leaf(acc, f, part, bytes) == [buf  |-> acc.buf \o bytes,
                              segs |-> Append(acc.segs, [name |-> f.name, k |-> f.k, part |-> part, off |-> Len(acc.buf), len |-> Len(bytes)])]
SegElem(P, f, v, acc, ctx) ==
  LET c == Cfg(P) IN
  CASE f.k \in {"int", "float", "char", "fix", "len", "ck"} ->
         LET nb == EncElem(P, f, v, acc.buf, ctx) IN Leaf(acc, f, "body", SubSeq(nb, Len(acc.buf) + 1, Len(nb)))
    [] f.k = "dyn"   -> Leaf(Leaf(acc, f, "prefix", Ord(c.le, IntBE(Len(v.b), c.sp))), f, "body", v.b)
    [] f.k = "obj"   -> SegFields(P, Pkt(P, f.ty).fields, v.fs, acc)
    [] f.k = "inl"   -> SegFields(P, f.fs, v.fs, acc)
    [] f.k = "match" -> SegFields(P, Pkt(P, v.pkt).fields, v.fs, acc)
SegField(P, fs, vs, i, acc) ==
  LET f == Res(P, fs[i]) v == vs[i] ctx == [fs |-> fs, vs |-> vs] IN
  IF f.rep
  THEN FoldLeft(LAMBDA a, x : SegElem(P, f, x, a, ctx),
                Leaf(acc, f, "count", Ord(Cfg(P).le, IntBE(Len(v.xs), Cfg(P).ap))), v.xs)
  ELSE SegElem(P, f, v, acc, ctx)
SegFields(P, fs, vs, acc) == FoldLeft(LAMBDA a, i : SegField(P, fs, vs, i, a), acc, Idx(fs))
Segments(P, name, m) == SegFields(P, Pkt(P, name).fields, m.fs, [buf |-> <<>>, segs |-> <<>>]).segs

\* the segments tile the message: contiguous, in order, covering every byte
Tiles(segs, total) ==
  /\ \A i \in 1..Len(segs) : segs[i].off = (IF i = 1 THEN 0 ELSE segs[i-1].off + segs[i-1].len)
  /\ (IF segs = <<>> THEN 0 ELSE segs[Len(segs)].off + segs[Len(segs)].len) = total

(* ------------------------------ decoding ------------------------------- *)
\* Dec returns [ok, v, pos]; pos is the 1-based index of the first unread byte.
\* ok = FALSE exactly when a match key is not in the table (no further byte is read).
Trim(bs, pb, left) ==
  LET keep == {i \in 1..Len(bs) : bs[i] # pb} IN
  IF keep = {} THEN <<>>
  ELSE IF left THEN SubSeq(bs, CHOOSE i \in keep : \A j \in keep : i <= j, Len(bs))
       ELSE SubSeq(bs, 1, CHOOSE i \in keep : \A j \in keep : i >= j)

Take(bs, p, n) == SubSeq(bs, p, p + n - 1)

RECURSIVE DecFields(_, _, _, _), DecElem(_, _, _, _, _), DecField(_, _, _, _, _)
\* acc: [ok, vs, pos]
DecElem(P, f, bs, acc, fs) ==
  LET c == Cfg(P) p == acc.pos IN
  CASE f.k \in {"int", "float", "char", "len", "ck"} ->
         [ok |-> TRUE, v |-> [t |-> "b", b |-> Ord(c.le, Take(bs, p, Width(f.ty)))], pos |-> p + Width(f.ty)]
    [] f.k = "fix" -> LET pd == PadOf(P, f) IN
         [ok |-> TRUE, v |-> [t |-> "b", b |-> Trim(Take(bs, p, f.n), pd.b, pd.left)], pos |-> p + f.n]
    [] f.k = "dyn" -> LET n == BEInt(Ord(c.le, Take(bs, p, c.sp))) IN
         [ok |-> TRUE, v |-> [t |-> "b", b |-> Take(bs, p + c.sp, n)], pos |-> p + c.sp + n]
    [] f.k = "obj" -> LET r == DecFields(P, Pkt(P, f.ty).fields, bs, p) IN
         [ok |-> r.ok, v |-> [t |-> "o", fs |-> r.vs], pos |-> r.pos]
    [] f.k = "inl" -> LET r == DecFields(P, f.fs, bs, p) IN
         [ok |-> r.ok, v |-> [t |-> "o", fs |-> r.vs], pos |-> r.pos]
    [] f.k = "match" ->
         LET ki == FieldIndex(fs, f.key)
             kv == acc.vs[ki].b
             target == Dispatch(f.pairs, kv) IN
         IF target = "" THEN [ok |-> FALSE, v |-> [t |-> "n"], pos |-> p]
         ELSE LET r == DecFields(P, Pkt(P, target).fields, bs, p) IN
              [ok |-> r.ok, v |-> [t |-> "m", pkt |-> target, fs |-> r.vs], pos |-> r.pos]

DecField(P, fs, i, bs, acc) ==
  LET f == Res(P, fs[i]) IN
  IF ~acc.ok THEN acc
  ELSE IF f.rep
       THEN LET k == BEInt(Ord(Cfg(P).le, Take(bs, acc.pos, Cfg(P).ap)))
                r == FoldLeft(LAMBDA a, x : IF ~a.ok THEN a
                                            ELSE LET e == DecElem(P, f, bs, [acc EXCEPT !.pos = a.pos], fs) IN
                                                 [ok |-> e.ok, xs |-> Append(a.xs, e.v), pos |-> e.pos],
                              [ok |-> TRUE, xs |-> <<>>, pos |-> acc.pos + Cfg(P).ap], [x \in 1..k |-> x]) IN
            [ok |-> r.ok, vs |-> Append(acc.vs, [t |-> "l", xs |-> r.xs]), pos |-> r.pos]
       ELSE LET e == DecElem(P, f, bs, acc, fs) IN
            [ok |-> e.ok, vs |-> Append(acc.vs, e.v), pos |-> e.pos]

DecFields(P, fs, bs, pos) ==
  FoldLeft(LAMBDA acc, i : DecField(P, fs, i, bs, acc), [ok |-> TRUE, vs |-> <<>>, pos |-> pos], Idx(fs))

Decode(P, name, bs) == LET r == DecFields(P, Pkt(P, name).fields, bs, 1) IN
                       [ok |-> r.ok, v |-> [t |-> "o", fs |-> r.vs], pos |-> r.pos]

(* --------------------- what a decoder must hand back -------------------- *)
\* Norm(P, name, m): the message as a decoder returns it: length-of fields hold the wire value,
\* registered checksum fields the computed value (fixed strings are carried unpadded already)
Norm(P, name, m) == Decode(P, name, Layout(P, name, m)).v
=============================================================================
