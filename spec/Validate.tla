------------------------------ MODULE Validate ------------------------------
(***************************************************************************)
(* Well-formedness of a PacketDSL program (C12), written twice:            *)
(*   IllFormed(p)   declaratively: the set of <<class, site>> offences      *)
(*   the Check machine  operationally: declarations consumed one per step  *)
(*                  in the compiler's pass order (MetaData, options,       *)
(*                  packets, resolve) accumulating symbol tables and diags *)
(* TLC checks  diags = IllFormed(p)  at the end of every run, for every    *)
(* base program and every single injected fault (class x site), and prints *)
(* each faulty program with its expected diagnostics as a TESTCASE.        *)
(* A site is the path of the offending declaration:                        *)
(*   <<"xopt", k>>  <<"meta", j>>  <<"pkt", j>>  <<"field", j, i>>          *)
(*   <<"pair", j, i, q>>                                                    *)
(* The harness turns sites into line numbers of the rendered text.         *)
(***************************************************************************)
EXTENDS Integers, Sequences, FiniteSets, TLC, Json, SequencesExt

F0 == [k |-> "", name |-> "", ty |-> "", rep |-> FALSE, n |-> 0, pad |-> "none", key |-> "",
       pairs |-> <<>>, tgt |-> "", alg |-> "", fs |-> <<>>]
Sc(name, ty) == [F0 EXCEPT !.k = "int", !.name = name, !.ty = ty]
Pair(l, b, pkt) == [keys |-> <<b>>, lits |-> <<l>>, pkt |-> pkt]

KnownOptions == {"StringPrefixLenType", "ArrayPrefixLenType", "LittleEndian", "JavaPackage", "GoPackage", "GoModule",
                 "FixedStringPadFromLeft", "FixedStringPadChar"}
Allowed(name) == CASE name \in {"StringPrefixLenType", "ArrayPrefixLenType"} -> {"u8", "u16", "u32", "u64"}
                   [] name \in {"LittleEndian", "FixedStringPadFromLeft"} -> {"true", "false"}
                   [] name = "FixedStringPadChar" -> {"'0'", "' '", "'\\x00'"}
                   [] OTHER -> {}                       \* free text
\* the options a program sets through its `opts` record (rendered before xopts, after the 3 package options)
StdOpts(p) == (IF p.opts.pkgs = "omit" THEN <<>> ELSE <<"GoPackage", "GoModule", "JavaPackage">>)
              \o (IF p.opts.le # "" THEN <<"LittleEndian">> ELSE <<>>)
              \o (IF p.opts.sp # "" THEN <<"StringPrefixLenType">> ELSE <<>>)
              \o (IF p.opts.ap # "" THEN <<"ArrayPrefixLenType">> ELSE <<>>)
              \o (IF p.opts.padleft # "" THEN <<"FixedStringPadFromLeft">> ELSE <<>>)
              \o (IF p.opts.padchar # "" THEN <<"FixedStringPadChar">> ELSE <<>>)

(* ------------------------------ declarative ----------------------------- *)
PktNames(p) == {p.pkts[j].name : j \in 1..Len(p.pkts)}
MetaNames(p) == {p.metas[j].name : j \in 1..Len(p.metas)}
FieldNames(pk) == {pk.fields[i].name : i \in 1..Len(pk.fields)}
\* a key is identified by its canonical bytes (010 and 10 are the same key), reported with the pair it stands in
PairLits(f) == FoldLeft(LAMBDA acc, q : acc \o [x \in 1..Len(f.pairs[q].lits) |-> [lit |-> f.pairs[q].keys[x], q |-> q]], <<>>, [q \in 1..Len(f.pairs) |-> q])

IllFormed(p) ==
     { <<"dupPacket", <<"pkt", j>>>> : j \in {j \in 1..Len(p.pkts) : \E h \in 1..(j-1) : p.pkts[h].name = p.pkts[j].name} }
\cup { <<"dupMeta", <<"meta", j>>>> : j \in {j \in 1..Len(p.metas) : \E h \in 1..(j-1) : p.metas[h].name = p.metas[j].name} }
\cup { <<"undeclaredMeta", <<"meta", j>>>> : j \in {j \in 1..Len(p.metas) : p.metas[j].ref # "" /\ ~\E h \in 1..(j-1) : p.metas[h].name = p.metas[j].ref} }
\cup { <<"multiRoot", <<"pkt", j>>>> : j \in {j \in 1..Len(p.pkts) : p.pkts[j].root /\ \E h \in 1..(j-1) : p.pkts[h].root
                                                                     /\ ~\E g \in 1..(j-1) : p.pkts[g].name = p.pkts[j].name} }
\cup { <<"unknownOption", <<"xopt", k>>>> : k \in {k \in 1..Len(p.xopts) : p.xopts[k][1] \notin KnownOptions} }
\cup { <<"illegalOptionValue", <<"xopt", k>>>> : k \in {k \in 1..Len(p.xopts) :
            p.xopts[k][1] \in KnownOptions /\ Allowed(p.xopts[k][1]) # {} /\ p.xopts[k][2] \notin Allowed(p.xopts[k][1])} }
\cup { <<"dupOption", <<"xopt", k>>>> : k \in {k \in 1..Len(p.xopts) : p.xopts[k][1] \in KnownOptions /\
            ((\E h \in 1..Len(StdOpts(p)) : StdOpts(p)[h] = p.xopts[k][1])
             \/ (\E g \in 1..(k-1) : p.xopts[g][1] = p.xopts[k][1]))} }
\cup UNION { LET pk == p.pkts[j] IN
       { <<"dupField", <<"field", j, i>>>> : i \in {i \in 1..Len(pk.fields) : \E h \in 1..(i-1) : pk.fields[h].name = pk.fields[i].name} }
  \cup { <<"lenofOutsideRoot", <<"field", j, i>>>> : i \in {i \in 1..Len(pk.fields) : pk.fields[i].k = "len" /\ ~pk.root} }
  \cup { <<"lenofTwice", <<"field", j, i>>>> : i \in {i \in 1..Len(pk.fields) : pk.fields[i].k = "len" /\ pk.root
                                                         /\ \E h \in 1..(i-1) : pk.fields[h].k = "len"} }
  \cup { <<"undeclaredLenTarget", <<"field", j, i>>>> : i \in {i \in 1..Len(pk.fields) : pk.fields[i].k = "len" /\ pk.fields[i].tgt \notin FieldNames(pk)} }
  \cup { <<"undeclaredKeyField", <<"field", j, i>>>> : i \in {i \in 1..Len(pk.fields) : pk.fields[i].k = "match" /\ pk.fields[i].key \notin FieldNames(pk)} }
  \* the encoders reserve the length field and fill it in after the target: the target must come later
  \cup { <<"lenofAfterTarget", <<"field", j, i>>>> : i \in {i \in 1..Len(pk.fields) : pk.fields[i].k = "len" /\ pk.root
                                                              /\ (\A h \in 1..(i-1) : pk.fields[h].k # "len")
                                                              /\ \E h \in 1..(i-1) : pk.fields[h].name = pk.fields[i].tgt} }
  \cup { <<"undeclaredPacket", <<"field", j, i>>>> : i \in {i \in 1..Len(pk.fields) : pk.fields[i].k = "obj" /\ pk.fields[i].ty \notin PktNames(p)} }
  \* one level down: a field of an INLINE object that refers to an undeclared packet (site: nested, packet, field, inner field)
  \cup UNION { { <<"undeclaredPacket", <<"nested", j, i, h>>>> :
                   h \in {h \in 1..Len(pk.fields[i].fs) : pk.fields[i].fs[h].k = "obj" /\ pk.fields[i].fs[h].ty \notin PktNames(p)} }
               : i \in {i \in 1..Len(pk.fields) : pk.fields[i].k = "inl"} }
  \cup UNION { LET f == pk.fields[i] ls == PairLits(f) IN
                 { <<"undeclaredPacket", <<"pair", j, i, q>>>> : q \in {q \in 1..Len(f.pairs) : f.pairs[q].pkt \notin PktNames(p)} }
            \cup { <<"dupMatchKey", <<"pair", j, i, ls[x].q>>>> : x \in {x \in 1..Len(ls) : \E h \in 1..(x-1) : ls[h].lit = ls[x].lit} }
             : i \in {i \in 1..Len(pk.fields) : pk.fields[i].k = "match"} }
     : j \in 1..Len(p.pkts) }
WellFormed(p) == IllFormed(p) = {}

(* ------------------------------ operational ----------------------------- *)
\* declarations in the compiler's pass order
Decls(p) == [j \in 1..Len(p.metas) |-> <<"meta", j>>]
         \o [k \in 1..Len(p.xopts) |-> <<"xopt", k>>]
         \o FoldLeft(LAMBDA acc, j : acc \o [i \in 1..Len(p.pkts[j].fields) |-> <<"field", j, i>>] \o << <<"pkt", j>> >>, <<>>,
                     [j \in 1..Len(p.pkts) |-> j])
         \o << <<"resolve">> >>

VARIABLES prog, pc, metas, optsSeen, pkts, root, fnames, lenSeen, diags, fault
vars == <<prog, pc, metas, optsSeen, pkts, root, fnames, lenSeen, diags, fault>>

D(class, site) == {<<class, site>>}

Step ==
  /\ pc <= Len(Decls(prog))
  /\ LET d == Decls(prog)[pc] IN
     CASE d[1] = "meta" ->
            LET nm == prog.metas[d[2]].name ref == prog.metas[d[2]].ref IN
            \* a reference entry takes over the attribute of an entry declared BEFORE it; without one it is dropped
            /\ diags' = diags \cup (IF ref # "" /\ ref \notin metas THEN D("undeclaredMeta", d)
                                    ELSE IF nm \in metas THEN D("dupMeta", d) ELSE {})
            /\ metas' = IF ref # "" /\ ref \notin metas THEN metas ELSE metas \cup {nm}
            /\ UNCHANGED <<optsSeen, pkts, root, fnames, lenSeen>>
       [] d[1] = "xopt" ->
            LET nm == prog.xopts[d[2]][1] val == prog.xopts[d[2]][2] IN
            /\ diags' = diags \cup (IF nm \notin KnownOptions THEN D("unknownOption", d)
                                    ELSE (IF Allowed(nm) # {} /\ val \notin Allowed(nm) THEN D("illegalOptionValue", d) ELSE {})
                                         \cup (IF nm \in optsSeen THEN D("dupOption", d) ELSE {}))
            /\ optsSeen' = IF nm \in KnownOptions THEN optsSeen \cup {nm} ELSE optsSeen
            /\ UNCHANGED <<metas, pkts, root, fnames, lenSeen>>
       [] d[1] = "field" ->
            LET pk == prog.pkts[d[2]] f == pk.fields[d[3]] ls == PairLits(f) IN
            /\ diags' = diags
                 \cup (IF f.name \in fnames THEN D("dupField", d) ELSE {})
                 \cup (IF f.k = "len" /\ ~pk.root THEN D("lenofOutsideRoot", d) ELSE {})
                 \cup (IF f.k = "len" /\ pk.root /\ lenSeen THEN D("lenofTwice", d) ELSE {})
                 \cup (IF f.k = "match" THEN { <<"dupMatchKey", <<"pair", d[2], d[3], ls[x].q>>>> :
                                                 x \in {x \in 1..Len(ls) : \E h \in 1..(x-1) : ls[h].lit = ls[x].lit} } ELSE {})
            /\ fnames' = fnames \cup {f.name}
            /\ lenSeen' = (lenSeen \/ (f.k = "len" /\ pk.root))
            /\ UNCHANGED <<metas, optsSeen, pkts, root>>
       [] d[1] = "pkt" ->      \* end of a packet: key field / length target are looked up in the packet's own fields
            LET pk == prog.pkts[d[2]] IN
            /\ diags' = diags
                 \cup (IF pk.name \in pkts THEN D("dupPacket", d) ELSE {})
                 \cup (IF pk.name \notin pkts /\ pk.root /\ root THEN D("multiRoot", d) ELSE {})
                 \cup { <<"undeclaredKeyField", <<"field", d[2], i>>>> : i \in {i \in 1..Len(pk.fields) : pk.fields[i].k = "match" /\ pk.fields[i].key \notin fnames} }
                 \cup { <<"undeclaredLenTarget", <<"field", d[2], i>>>> : i \in {i \in 1..Len(pk.fields) : pk.fields[i].k = "len" /\ pk.fields[i].tgt \notin fnames} }
                 \cup { <<"lenofAfterTarget", <<"field", d[2], i>>>> : i \in {i \in 1..Len(pk.fields) : pk.fields[i].k = "len" /\ pk.root
                                                                            /\ (\A h \in 1..(i-1) : pk.fields[h].k # "len")
                                                                            /\ \E h \in 1..(i-1) : pk.fields[h].name = pk.fields[i].tgt} }
            /\ pkts' = pkts \cup {pk.name}
            /\ root' = (root \/ pk.root)
            /\ fnames' = {} /\ lenSeen' = FALSE
            /\ UNCHANGED <<metas, optsSeen>>
       [] OTHER ->             \* resolve: references to packets, after all packets are known
            /\ diags' = diags \cup UNION { LET pk == prog.pkts[j] IN
                  { <<"undeclaredPacket", <<"field", j, i>>>> : i \in {i \in 1..Len(pk.fields) : pk.fields[i].k = "obj" /\ pk.fields[i].ty \notin pkts} }
                  \cup UNION { { <<"undeclaredPacket", <<"pair", j, i, q>>>> : q \in {q \in 1..Len(pk.fields[i].pairs) : pk.fields[i].pairs[q].pkt \notin pkts} }
                               : i \in {i \in 1..Len(pk.fields) : pk.fields[i].k = "match"} }
                  \* inline objects are packets of their own for the resolver: their object fields are looked up as well
                  \cup UNION { { <<"undeclaredPacket", <<"nested", j, i, h>>>> :
                                   h \in {h \in 1..Len(pk.fields[i].fs) : pk.fields[i].fs[h].k = "obj" /\ pk.fields[i].fs[h].ty \notin pkts} }
                               : i \in {i \in 1..Len(pk.fields) : pk.fields[i].k = "inl"} }
                  : j \in 1..Len(prog.pkts) }
            /\ UNCHANGED <<metas, optsSeen, pkts, root, fnames, lenSeen>>
  /\ pc' = pc + 1
  /\ UNCHANGED <<prog, fault>>

(* ------------------------------- bases ---------------------------------- *)
O(le, sp) == [le |-> le, sp |-> sp, ap |-> "", padleft |-> "", padchar |-> "", pkgs |-> "set"]
MetaE(name, k, ty, n, pad) == [name |-> name, k |-> k, ty |-> ty, n |-> n, pad |-> pad, ref |-> "", doc |-> "d"]
PA == [name |-> "A", root |-> FALSE, fields |-> <<Sc("x", "u8")>>]
PB == [name |-> "B", root |-> FALSE, fields |-> <<Sc("y", "i64"), [F0 EXCEPT !.k = "dyn", !.name = "s"]>>]
PSub == [name |-> "Sub", root |-> FALSE, fields |-> <<Sc("q", "u32")>>]
Base1 == [opts |-> O("true", "u8"), xopts |-> <<>>,
          metas |-> <<MetaE("Code", "fix", "", 6, "z"), MetaE("Qty", "int", "u32", 0, "none")>>,
          pkts |-> << [name |-> "Root", root |-> TRUE, fields |->
                        <<Sc("T", "u16"), [F0 EXCEPT !.k = "len", !.name = "L", !.ty = "u16", !.tgt = "Body"],
                          [F0 EXCEPT !.k = "meta", !.name = "Code", !.ty = "Code"],
                          [F0 EXCEPT !.k = "obj", !.name = "Sub", !.ty = "Sub"],
                          [F0 EXCEPT !.k = "match", !.name = "Body", !.key = "T",
                                     !.pairs = <<Pair("1", <<0, 1>>, "A"), [keys |-> << <<0, 2>>, <<0, 3>> >>, lits |-> <<"2", "3">>, pkt |-> "B"]>>]>>],
                      PA, PB, PSub >>]
Base2 == [opts |-> O("", ""), xopts |-> <<>>, metas |-> <<>>,
          pkts |-> << PSub,
                      [name |-> "Msg", root |-> TRUE, fields |->
                        <<Sc("a", "u8"), [F0 EXCEPT !.k = "dyn", !.name = "s"], [Sc("xs", "u16") EXCEPT !.rep = TRUE],
                          [F0 EXCEPT !.k = "obj", !.name = "Tail", !.ty = "Sub", !.rep = TRUE]>>] >>]
Base3 == [opts |-> O("false", "u32"), xopts |-> <<<<"ArrayPrefixLenType", "u8">>, <<"FixedStringPadChar", "'0'">>>>, metas |-> <<MetaE("Txt", "dyn", "", 0, "none")>>,
          pkts |-> << [name |-> "Hdr", root |-> TRUE, fields |->
                        <<[F0 EXCEPT !.k = "dyn", !.name = "Kind"],
                          [F0 EXCEPT !.k = "match", !.name = "Payload", !.key = "Kind",
                                     !.pairs = <<Pair("\"AB\"", <<65, 66>>, "A"), Pair("\"C\"", <<67>>, "PSub2")>>],
                          [F0 EXCEPT !.k = "ck", !.name = "Ck", !.ty = "u16", !.alg = "VSUM16"]>>],
                      PA, [PSub EXCEPT !.name = "PSub2"] >>]
\* two match fields over the same key field (the second one last), a repeated object, an inline object
Base4 == [opts |-> O("", ""), xopts |-> <<>>, metas |-> <<>>,
          pkts |-> << [name |-> "Frame", root |-> TRUE, fields |->
                        <<Sc("T", "u16"),
                          [F0 EXCEPT !.k = "match", !.name = "Body", !.key = "T", !.pairs = <<Pair("1", <<0, 1>>, "A"), Pair("2", <<0, 2>>, "B")>>],
                          [F0 EXCEPT !.k = "inl", !.name = "Inner", !.fs = <<Sc("p", "u8")>>],
                          [F0 EXCEPT !.k = "match", !.name = "Trailer", !.key = "T", !.pairs = <<Pair("1", <<0, 1>>, "B"), Pair("3", <<0, 3>>, "A")>>]>>],
                      PA, PB >>]
\* the package options written out by the author with their default (empty) value
Base5 == [opts |-> [O("", "") EXCEPT !.pkgs = "omit"],
          xopts |-> <<<<"GoPackage", "\"\"">>, <<"JavaPackage", "\"\"">>, <<"GoModule", "\"m\"">>>>, metas |-> <<>>,
          pkts |-> << [name |-> "Only", root |-> TRUE, fields |-> <<Sc("a", "u8")>>] >>]
\* two packets that each declare an inline object of the SAME name, one of them referring to a packet from inside
Base6 == [opts |-> O("", ""), xopts |-> <<>>, metas |-> <<>>,
          pkts |-> << [name |-> "Top", root |-> TRUE, fields |->
                        <<Sc("T", "u16"), [F0 EXCEPT !.k = "inl", !.name = "Trailer", !.fs = <<Sc("a", "u8")>>],
                          [F0 EXCEPT !.k = "obj", !.name = "Q", !.ty = "Q"]>>],
                      [name |-> "Q", root |-> FALSE, fields |->
                        <<[F0 EXCEPT !.k = "inl", !.name = "Trailer", !.fs = <<Sc("b", "u32"), [F0 EXCEPT !.k = "obj", !.name = "s", !.ty = "Sub"]>>]>>],
                      PSub >>]
Bases == <<Base1, Base2, Base3, Base4, Base5, Base6>>

(* ------------------------------- faults --------------------------------- *)
AppendField(p, j, f) == [p EXCEPT !.pkts[j].fields = Append(@, f)]
MatchIdx(pk) == {i \in 1..Len(pk.fields) : pk.fields[i].k = "match"}
Faults(p) ==
     { [class |-> "dupPacket", prog |-> [p EXCEPT !.pkts = Append(@, p.pkts[j])]] : j \in {j \in 1..Len(p.pkts) : ~p.pkts[j].root} }
\* a non-root packet declared BEFORE the root packet under the root's name: the root declaration is the duplicate
\cup { [class |-> "dupPacket", prog |-> [p EXCEPT !.pkts = <<[name |-> p.pkts[j].name, root |-> FALSE, fields |-> <<Sc("solo", "u8")>>]>> \o @]] :
         j \in {j \in 1..Len(p.pkts) : p.pkts[j].root} }
\cup { [class |-> "dupMeta", prog |-> [p EXCEPT !.metas = Append(@, p.metas[j])]] : j \in 1..Len(p.metas) }
\cup { [class |-> "dupMeta", prog |-> [p EXCEPT !.metas = Append(Append(@, [MetaE("Again", "", "", 0, "none") EXCEPT !.ref = p.metas[1].name]), MetaE("Again", "int", "u32", 0, "none"))]] :
         x \in IF p.metas = <<>> THEN {} ELSE {1} }
\cup { [class |-> "undeclaredMeta", prog |-> [p EXCEPT !.metas = Append(@, [MetaE("Ghost", "", "", 0, "none") EXCEPT !.ref = "Nowhere"])]] : x \in IF p.metas = <<>> THEN {} ELSE {1} }
\cup { [class |-> "multiRoot", prog |-> [p EXCEPT !.pkts[j].root = TRUE]] : j \in {j \in 1..Len(p.pkts) : ~p.pkts[j].root} }
\cup { [class |-> "unknownOption", prog |-> [p EXCEPT !.xopts = Append(@, x)]] : x \in {<<"Foo", "1">>, <<"littleEndian", "true">>} }
\cup { [class |-> "illegalOptionValue", prog |-> [p EXCEPT !.xopts = Append(@, x)]] :
         x \in { y \in {<<"ArrayPrefixLenType", "i8">>, <<"StringPrefixLenType", "f32">>, <<"FixedStringPadFromLeft", "1">>,
                         <<"FixedStringPadChar", "\"0\"">>, <<"LittleEndian", "1">>,
                         <<"ArrayPrefixLenType", "16">>, <<"StringPrefixLenType", "\"u\"">>, <<"FixedStringPadChar", "0">>,
                         <<"FixedStringPadFromLeft", "\"\"">>, <<"LittleEndian", "\"tru\"">>} :
                  /\ ~\E h \in 1..Len(StdOpts(p)) : StdOpts(p)[h] = y[1]
                  /\ ~\E h \in 1..Len(p.xopts) : p.xopts[h][1] = y[1] } }
\cup { [class |-> "dupOption", prog |-> [p EXCEPT !.xopts = Append(@, <<p.xopts[h][1], "\"again\"">>)]] :
         h \in {h \in 1..Len(p.xopts) : p.xopts[h][1] \in {"GoPackage", "JavaPackage", "GoModule"}} }
\cup { [class |-> "dupOption", prog |-> [p EXCEPT !.xopts = Append(@, <<StdOpts(p)[h], IF h <= 3 THEN "\"x\"" ELSE IF StdOpts(p)[h] = "LittleEndian" THEN "true" ELSE "u16">>)]] :
         h \in {h \in 1..Len(StdOpts(p)) : StdOpts(p)[h] \in {"GoPackage", "LittleEndian", "StringPrefixLenType"}} }
\cup UNION { { [class |-> "dupField", prog |-> AppendField(p, j, p.pkts[j].fields[i])] :
                  i \in {i \in 1..Len(p.pkts[j].fields) : p.pkts[j].fields[i].k \in {"int", "dyn", "obj", "meta", "match", "inl"}} }
             \cup { [class |-> "undeclaredPacket", prog |-> AppendField(p, j, [F0 EXCEPT !.k = "obj", !.name = "ghost", !.ty = "Nope"])] }
             \* the NAME of the field is a declared packet, its TYPE is not
             \cup { [class |-> "undeclaredPacket", prog |-> AppendField(p, j, [F0 EXCEPT !.k = "obj", !.name = nm, !.ty = "Nope"])] :
                      nm \in {nm \in PktNames(p) : nm # p.pkts[j].name /\ nm \notin FieldNames(p.pkts[j])} }
             \* ... and the same inside an inline object (appended to its fields / an existing reference made dangling)
             \cup { [class |-> "undeclaredPacket", prog |-> [p EXCEPT !.pkts[j].fields[i].fs = Append(@, [F0 EXCEPT !.k = "obj", !.name = "ghost", !.ty = "Nope"])]] :
                      i \in {i \in 1..Len(p.pkts[j].fields) : p.pkts[j].fields[i].k = "inl"} }
             \cup UNION { { [class |-> "undeclaredPacket", prog |-> [p EXCEPT !.pkts[j].fields[i].fs[h].ty = "Nope"]] :
                              h \in {h \in 1..Len(p.pkts[j].fields[i].fs) : p.pkts[j].fields[i].fs[h].k = "obj"} }
                          : i \in {i \in 1..Len(p.pkts[j].fields) : p.pkts[j].fields[i].k = "inl"} }
             \cup { [class |-> "lenofOutsideRoot", prog |-> AppendField(AppendField(p, j, [F0 EXCEPT !.k = "len", !.name = "xl", !.ty = "u16", !.tgt = "xt"]), j, [F0 EXCEPT !.k = "obj", !.name = "xt", !.ty = "A"])] :
                      x \in IF p.pkts[j].root \/ ~(\E h \in 1..Len(p.pkts) : p.pkts[h].name = "A") THEN {} ELSE {1} }
             \cup { [class |-> "lenofTwice", prog |-> AppendField(AppendField(p, j, [F0 EXCEPT !.k = "len", !.name = "xl", !.ty = "u16", !.tgt = "xt"]), j, [F0 EXCEPT !.k = "obj", !.name = "xt", !.ty = "A"])] :
                      x \in IF p.pkts[j].root /\ (\E i \in 1..Len(p.pkts[j].fields) : p.pkts[j].fields[i].k = "len") THEN {1} ELSE {} }
             \* the length field moved behind everything else of its packet
             \cup { [class |-> "lenofAfterTarget", prog |-> [p EXCEPT !.pkts[j].fields = SelectSeq(@, LAMBDA f : f.k # "len") \o SelectSeq(@, LAMBDA f : f.k = "len")]] :
                      x \in IF p.pkts[j].root /\ (\E i \in 1..Len(p.pkts[j].fields) : p.pkts[j].fields[i].k = "len") THEN {1} ELSE {} }
             \cup { [class |-> "undeclaredLenTarget", prog |-> [p EXCEPT !.pkts[j].fields[i].tgt = "nothing"]] :
                      i \in {i \in 1..Len(p.pkts[j].fields) : p.pkts[j].fields[i].k = "len"} }
             \cup { [class |-> "undeclaredKeyField", prog |-> [p EXCEPT !.pkts[j].fields[i].key = "nokey"]] : i \in MatchIdx(p.pkts[j]) }
             \cup { [class |-> "undeclaredPacket", prog |-> [p EXCEPT !.pkts[j].fields[i].pairs[1].pkt = "Nope"]] : i \in MatchIdx(p.pkts[j]) }
             \cup { [class |-> "dupMatchKey", prog |-> [p EXCEPT !.pkts[j].fields[i].pairs = Append(@, [@[1] EXCEPT !.pkt = @])]] : i \in MatchIdx(p.pkts[j]) }
             \* the same integer key again, spelled with a leading zero, inside a key LIST
             \cup { [class |-> "dupMatchKey", prog |-> [p EXCEPT !.pkts[j].fields[i].pairs =
                        Append(@, [keys |-> <<@[1].keys[1], <<250, 250>> >>, lits |-> <<"0" \o @[1].lits[1], "64250">>, pkt |-> @[1].pkt])]] :
                      i \in {i \in MatchIdx(p.pkts[j]) : p.pkts[j].fields[i].pairs[1].lits[1] \in {"1", "2", "3"}} }
             \cup { [class |-> "dupMatchKey", prog |-> [p EXCEPT !.pkts[j].fields[i].pairs[Len(p.pkts[j].fields[i].pairs)] =
                                                        [@ EXCEPT !.lits = Append(@, p.pkts[j].fields[i].pairs[1].lits[1]), !.keys = Append(@, p.pkts[j].fields[i].pairs[1].keys[1])]]] :
                      i \in {i \in MatchIdx(p.pkts[j]) : Len(p.pkts[j].fields[i].pairs) > 1} }
             : j \in 1..Len(p.pkts) }

\* every documented option value is accepted (readme: the options table)
DocumentedOptions == {<<"LittleEndian", "true">>, <<"LittleEndian", "false">>,
                      <<"FixedStringPadFromLeft", "true">>, <<"FixedStringPadFromLeft", "false">>,
                      <<"FixedStringPadChar", "'0'">>, <<"FixedStringPadChar", "' '">>, <<"FixedStringPadChar", "'\\x00'">>}
                     \cup { <<o, t>> : o \in {"StringPrefixLenType", "ArrayPrefixLenType"}, t \in {"u8", "u16", "u32", "u64"} }
Cases == UNION { {[class |-> "none", variant |-> "base", prog |-> Bases[b], base |-> b]}
                 \cup { [class |-> f.class, variant |-> "fault", prog |-> f.prog, base |-> b] : f \in Faults(Bases[b]) } : b \in 1..Len(Bases) }
         \cup { [class |-> "none", variant |-> x[1] \o "=" \o x[2], prog |-> [Base2 EXCEPT !.xopts = <<x>>], base |-> 2] : x \in DocumentedOptions }

Init == /\ \E c \in Cases : prog = c.prog /\ fault = [class |-> c.class, base |-> c.base, variant |-> c.variant]
        /\ pc = 1 /\ metas = {} /\ optsSeen = {x \in KnownOptions : \E h \in 1..Len(StdOpts(prog)) : StdOpts(prog)[h] = x}
        /\ pkts = {} /\ root = FALSE /\ fnames = {} /\ lenSeen = FALSE /\ diags = {}
Spec == Init /\ [][Step]_vars

Done == pc = Len(Decls(prog)) + 1
\* the two formulations agree
Agree == Done => diags = IllFormed(prog)
\* a base is well-formed; a single injected fault yields (at least) its own class, and only that class
BasesWellFormed == (Done /\ fault.class = "none") => diags = {}
FaultDetected == (Done /\ fault.class # "none") => /\ diags # {}
                                                    /\ \A d \in diags : d[1] = fault.class
Emit == Done => PrintT(<<"TESTCASE", ToJson([prog |-> prog, fault |-> fault, diags |-> SetToSeq(diags)])>>)
=============================================================================
