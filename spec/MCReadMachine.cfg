SPECIFICATION RSpec
CONSTANTS
  MaxFields = 1
  Shapes = {"S1", "S2"}
  OutOfDomain = FALSE
  AppendWithoutReset = FALSE
  KeepOnEmptyString = FALSE
  SignedPrefix = FALSE
  PriorMode = "fresh"
INVARIANTS RefinesDecode AgreesWithDecode UnknownKeyStops CursorInside
PROPERTY CursorMonotone
CHECK_DEADLOCK FALSE
