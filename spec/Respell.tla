------------------------------- MODULE Respell -------------------------------
(***************************************************************************)
(* C08: generated code depends on meaning, not spelling.                   *)
(* A program has SITES where the author can choose among spellings that    *)
(* mean the same.  Respell(site) flips one choice.  Meaning(p) is the      *)
(* normal form (MetaData-typed fields resolved, padding resolved to        *)
(* byte/side, options to the effective configuration); TLC checks the      *)
(* action property  Meaning' = Meaning  for every site of every base, so a *)
(* wrong rewrite in this generator cannot produce a false alarm, and       *)
(* prints every (base, site) for replay: both texts are compiled by the    *)
(* real CLI and the six outputs must be byte-identical.                    *)
(***************************************************************************)
EXTENDS DslGen

Pick(tag, i) == CHOOSE c \in Cells(i) : c.tag = tag
BaseCells == <<
  <<"scalar:u16", "fix:4:z", "fix:4:none", "dyn", "meta:Code", "meta:shared:l0", "match:u16:list", "ck:u32:REG">>,
  <<"len:u16:match:two", "scalar:f64:rep", "fix:4:r0:rep", "dyn:rep", "meta:Qty:rep", "obj:named", "inl:d1", "ck:u8:REG", "meta:sharedz:l0", "fix:4:none:rep">>,
  <<"scalar:i64", "fix:10:z", "meta:Alias", "meta:Txt", "match:string:list", "fix:4:rsp", "fix:4:ldef", "scalar:u8", "ck:u16:NONE", "match:u16z:list">> >>
BaseOpts == <<O("", "", "", "", ""), O("true", "u8", "u32", "", ""), O("", "", "", "true", "0")>>

MkProg(b) == LET cs == [i \in 1..Len(BaseCells[b]) |-> Pick(BaseCells[b][i], i)]
                 all == FoldLeft(LAMBDA acc, c : acc \o c.fs, <<>>, cs)
                 aux == UNION {cs[j].aux : j \in 1..Len(cs)}
                 names == SelectSeq(AuxNames, LAMBDA nm : nm \in aux) IN
  [opts |-> BaseOpts[b], metas |-> MetaDefs,
   pkts |-> <<[name |-> "Root", root |-> TRUE, fields |-> [j \in 1..Len(all) |-> FixAlg(all[j])]]>>
            \o [j \in 1..Len(names) |-> [name |-> names[j], root |-> FALSE, fields |-> AuxDefs[names[j]]]]]

(* ------------------------------- meaning -------------------------------- *)
NormField(P, f0) == LET f == Res(P, f0) IN
  [k |-> f.k, name |-> f.name, ty |-> f.ty, rep |-> f.rep, n |-> f.n,
   pad |-> IF f.k = "fix" THEN PadOf(P, f) ELSE [b |-> 0, left |-> FALSE],
   key |-> f.key, tgt |-> f.tgt, alg |-> f.alg,
   pairs |-> FoldLeft(LAMBDA acc, pr : acc \o [x \in 1..Len(pr.keys) |-> <<pr.keys[x], pr.pkt>>], <<>>, f.pairs),
   fs |-> f.fs]
Meaning(P) == [cfg |-> Cfg(P),
               pkts |-> [j \in 1..Len(P.pkts) |-> [name |-> P.pkts[j].name, root |-> P.pkts[j].root,
                                                    fields |-> [i \in 1..Len(P.pkts[j].fields) |-> NormField(P, P.pkts[j].fields[i])]]]]

(* -------------------------------- sites --------------------------------- *)
HasAlias(f) == f.k \in {"int", "float", "len", "ck"} /\ f.ty # "char"
FieldSites(P, j, i) == LET f == P.pkts[j].fields[i] IN
     (IF HasAlias(f) THEN {<<"long", j, i>>} ELSE {})
\cup (IF f.k = "dyn" THEN {<<"charbr", j, i>>} ELSE {})
\cup (IF f.k = "fix" /\ f.pad = "z" THEN {<<"zexplicit", j, i>>} ELSE {})
\cup (IF f.k = "fix" /\ f.pad = "none" /\ P.opts.padchar = "" /\ P.opts.padleft = "" THEN {<<"defpad", j, i>>} ELSE {})
\cup (IF f.k \in {"len", "ck"} THEN {<<"prefixattr", j, i>>} ELSE {})
\cup (IF f.k = "match" /\ \E q \in 1..Len(f.pairs) : Len(f.pairs[q].lits) > 1 THEN {<<"expand", j, i>>} ELSE {})
\cup (IF f.k = "match" THEN {<<"nopaircomma", j, i>>} ELSE {})
\cup (IF f.k = "meta" THEN {<<"inline", j, i>>} ELSE {})
\cup (IF f.k \in {"int", "float", "dyn", "fix", "len", "ck", "meta", "obj"} THEN {<<"doc", j, i>>} ELSE {})
Sites(P) == UNION { UNION { FieldSites(P, j, i) : i \in 1..Len(P.pkts[j].fields) } : j \in 1..Len(P.pkts) }
            \cup { <<"defopt1", 0, k>> : k \in 1..4 }
            \cup { <<"defopts", 0, 0>>, <<"nosemi", 0, 0>>, <<"comments", 0, 0>>, <<"relayout", 0, 0>>, <<"inlineall", 0, 0>>,
                   <<"metalast", 0, 0>> }      \* the MetaData block written below the packets that use it

\* the structural rewrites change the abstract program; the textual ones only its rendering
Inlined(P, f) == LET r == Res(P, f) IN [r EXCEPT !.pad = IF f.pad # "none" THEN f.pad ELSE r.pad]
Apply(P, s) ==
  IF s[1] = "inline" THEN [P EXCEPT !.pkts[s[2]].fields[s[3]] = Inlined(P, P.pkts[s[2]].fields[s[3]])]
  ELSE IF s[1] = "inlineall" THEN [P EXCEPT !.pkts = [j \in 1..Len(P.pkts) |-> [P.pkts[j] EXCEPT !.fields = [i \in 1..Len(P.pkts[j].fields) |-> Inlined(P, P.pkts[j].fields[i])]]]]
  ELSE P

VARIABLES base, prog0, prog, site
rvars == <<base, prog0, prog, site>>
RInit == /\ stage = "respell" /\ opts = O("", "", "", "", "") /\ cells = <<>>     \* DslGen's own variables are idle here
         /\ base \in 1..Len(BaseCells) /\ prog0 = MkProg(base) /\ prog = prog0 /\ site = <<"none", 0, 0>>
RespellStep == /\ site[1] = "none"
               /\ \E s \in Sites(prog0) : site' = s /\ prog' = Apply(prog0, s)
               /\ UNCHANGED <<base, prog0, stage, opts, cells>>
RSpec == RInit /\ [][RespellStep]_<<rvars, vars>>

MeaningPreserved == Meaning(prog) = Meaning(prog0)
REmit == site[1] # "none" => PrintT(<<"TESTCASE", ToJson([base |-> base, prog0 |-> prog0, prog |-> prog, site |-> site])>>)
=============================================================================
