---------------------------- MODULE TraceFormat ----------------------------
(***************************************************************************)
(* Validation of document histories replayed into the REAL formatter       *)
(* (library through the overlay driver, CLI format -d / -f, C library)     *)
(* and the real compiler against the actions of Format.tla.                *)
(*  doc      id, text, ems, valid      a document (start of a history)     *)
(*  relayout k, text, ems              Relayout(k) done by the harness:    *)
(*                                     ems must be unchanged (the harness  *)
(*                                     itself is checked here)             *)
(*  fmt      ok, text, ems, parses, panic   Format on the current text     *)
(*  compile  rc, digest                Compile of the current text         *)
(* ems is a sequence of [c |-> is-comment, x |-> text]; text / digest are  *)
(* sha-256 identities.                                                     *)
(***************************************************************************)
EXTENDS Integers, Sequences, FiniteSets, TLC, Json, SequencesExt

Trace == ndJsonDeserialize("trace.ndjson")
VARIABLES l, cur, curems, ems, valid, canon, digest, formatted
vars == <<l, cur, curems, ems, valid, canon, digest, formatted>>
Ev == Trace[l]
Is(e) == l <= Len(Trace) /\ Ev.ev = e

Report(fails) == IF fails = <<>> THEN TRUE ELSE PrintT(<<"VERDICT", ToJson([i |-> l, ev |-> Ev.ev, fails |-> fails])>>)

Init == l = 1 /\ cur = "" /\ curems = <<>> /\ ems = <<>> /\ valid = TRUE /\ canon = "" /\ digest = "" /\ formatted = FALSE

Doc == /\ Is("doc") /\ cur' = Ev.text /\ ems' = Ev.ems /\ curems' = Ev.ems /\ valid' = Ev.valid /\ canon' = "" /\ digest' = ""
       /\ formatted' = FALSE /\ l' = l + 1

\* a new history over the same document: the original text again; what was learned (canon, digest) stays
Restart == /\ Is("restart") /\ cur' = Ev.text /\ curems' = ems /\ formatted' = FALSE /\ l' = l + 1
           /\ UNCHANGED <<ems, valid, canon, digest>>

Relayout == /\ Is("relayout")
            /\ Report(IF Ev.ems = curems THEN <<>> ELSE <<[kind |-> "harness-relayout-changed-ems"]>>)
            /\ cur' = Ev.text /\ curems' = Ev.ems /\ formatted' = FALSE
            /\ l' = l + 1 /\ UNCHANGED <<ems, valid, canon, digest>>

Comments(s) == {s[i].x : i \in {i \in 1..Len(s) : s[i].c}}
Tokens(s) == {s[i].x : i \in {i \in 1..Len(s) : ~s[i].c}}
EmsFails(out) ==
  IF out = ems THEN <<>>
  ELSE (IF Comments(ems) \ Comments(out) # {} THEN <<[kind |-> "comment-lost"]>> ELSE <<>>)
    \o (IF Tokens(ems) \ Tokens(out) # {} THEN <<[kind |-> "token-lost"]>> ELSE <<>>)
    \o (IF (Tokens(out) \cup Comments(out)) \ (Tokens(ems) \cup Comments(ems)) # {} THEN <<[kind |-> "token-added"]>> ELSE <<>>)
    \o (IF Comments(ems) \ Comments(out) = {} /\ Tokens(ems) \ Tokens(out) = {}
           /\ (Tokens(out) \cup Comments(out)) \ (Tokens(ems) \cup Comments(ems)) = {}
        THEN <<[kind |-> "order-or-count-changed"]>> ELSE <<>>)

Fmt == /\ Is("fmt")
       /\ LET fails ==
            IF Ev.panic THEN <<[kind |-> "panic"]>>
            ELSE IF ~valid
            THEN (IF Ev.ok THEN <<[kind |-> "invalid-accepted"]>> ELSE <<>>)
                 \o (IF Ev.text # cur THEN <<[kind |-> "text-changed-on-error"]>> ELSE <<>>)
            ELSE IF ~Ev.ok THEN <<[kind |-> "valid-rejected"]>>
                                    \* formatting a text the formatter itself produced must return it unchanged
                                    \o (IF formatted THEN <<[kind |-> "not-idempotent"]>> ELSE <<>>)
            ELSE EmsFails(Ev.ems)
                 \o (IF Ev.parses THEN <<>> ELSE <<[kind |-> "output-does-not-parse"]>>)
                 \o (IF formatted /\ Ev.text # cur THEN <<[kind |-> "not-idempotent"]>> ELSE <<>>)
                 \o (IF ~formatted /\ canon # "" /\ Ev.text # canon /\ EmsFails(Ev.ems) = <<>> THEN <<[kind |-> "layout-dependent"]>> ELSE <<>>)
          IN Report(fails)
       /\ cur' = IF Ev.ok /\ ~Ev.panic THEN Ev.text ELSE cur
       /\ curems' = IF Ev.ok /\ ~Ev.panic THEN Ev.ems ELSE curems
       /\ formatted' = (Ev.ok /\ ~Ev.panic)
       /\ canon' = IF canon = "" /\ Ev.ok /\ ~Ev.panic THEN Ev.text ELSE canon
       /\ l' = l + 1 /\ UNCHANGED <<ems, valid, digest>>

Compile == /\ Is("compile")
           /\ Report(IF digest = "" \/ Ev.digest = digest THEN <<>> ELSE <<[kind |-> "digest-differ"]>>)
           /\ digest' = IF digest = "" THEN Ev.digest ELSE digest
           /\ l' = l + 1 /\ UNCHANGED <<cur, curems, ems, valid, canon, formatted>>

Next == Doc \/ Restart \/ Relayout \/ Fmt \/ Compile
Spec == Init /\ [][Next]_vars
Accepted == TLCGet("stats").diameter = Len(Trace) + 1
=============================================================================
