---------------------------- MODULE TracePipeline ----------------------------
(***************************************************************************)
(* Validation of histories recorded from the REAL generators (overlay      *)
(* driver: one parsed model, generators applied in a prescribed order; the *)
(* real CLI: subsets of output flags; K repetitions for determinism)       *)
(* against the actions of Pipeline.tla.                                    *)
(*                                                                         *)
(* Events (ndjson, trace.ndjson):                                          *)
(*  load   cells                 a program: the padding cells of the       *)
(*                               freshly parsed model (path -> form)       *)
(*  alone  l, files              RunGen(l) on a fresh parse, nothing else, *)
(*                               repeated: name -> sequence of the DISTINCT*)
(*                               digests seen (more than one only while    *)
(*                               C13 is violated for that file; C14 then   *)
(*                               accepts any of them, so that one defect   *)
(*                               is reported once, under C13)              *)
(*  parse  cells                 start of a history: fresh parse           *)
(*  gen    l, files, cells       RunGen(l) in the current history; cells   *)
(*                               are the model's cells AFTER the step      *)
(*  cli    langs, files          one CLI invocation with these targets;    *)
(*                               files: lang -> (name -> sha)              *)
(*  rep    l, k, perfile         k fresh parse+RunGen(l); perfile: name -> *)
(*                               sequence of DISTINCT digests observed     *)
(* Every event is consumed (trace actions are total); a step that is not a *)
(* step of the design prints one VERDICT line.                             *)
(***************************************************************************)
EXTENDS PipelineDefs, Json, SequencesExt

CONSTANTS InPlaceNormalise     \* FALSE = the design; TRUE = the code as it was found

Trace == ndJsonDeserialize("trace.ndjson")

VARIABLES l, cell0, cell, alone, nverd
vars == <<l, cell0, cell, alone, nverd>>

NoFiles == [none |-> <<"">>]
\* files: name -> digest ; ref: name -> sequence of admissible digests
Same(files, ref) == /\ DOMAIN files = DOMAIN ref
                    /\ \A f \in DOMAIN files : files[f] \in ToSet(ref[f])
Ev == Trace[l]
Is(e) == l <= Len(Trace) /\ Ev.ev = e

Verdict(ok, rec) == IF ok THEN TRUE ELSE PrintT(<<"VERDICT", ToJson(rec @@ [i |-> l])>>)
Bump(ok) == nverd' = IF ok THEN nverd ELSE nverd + 1

Init == /\ l = 1 /\ cell0 = [none |-> ""] /\ cell = [none |-> ""] /\ nverd = 0
        /\ alone = [L \in Langs |-> NoFiles]

Load == /\ Is("load")
        /\ cell0' = Ev.cells /\ cell' = Ev.cells
        /\ alone' = [L \in Langs |-> NoFiles]
        /\ l' = l + 1 /\ UNCHANGED nverd

Alone == /\ Is("alone")
         /\ alone' = [alone EXCEPT ![Ev.l] = Ev.files]
         /\ l' = l + 1 /\ UNCHANGED <<cell0, cell, nverd>>

\* a fresh parse of the same text yields the same model
Parse == /\ Is("parse")
         /\ LET ok == Ev.cells = cell0 IN
            /\ Verdict(ok, [kind |-> "parse-differs", lang |-> "-"])
            /\ Bump(ok)
         /\ cell' = Ev.cells
         /\ l' = l + 1 /\ UNCHANGED <<cell0, alone>>

ExpectedCells(L) == IF InPlaceNormalise
                    THEN [k \in DOMAIN cell |-> IF cell[k] \in Forms THEN Norm(L, cell[k]) ELSE cell[k]]
                    ELSE cell

\* Pipeline!RunGen(L): out'[L] = Alone(L), cell' = cell
Gen == /\ Is("gen")
       /\ LET okI == Same(Ev.files, alone[Ev.l])
              okM == Ev.cells = ExpectedCells(Ev.l) IN
          /\ Verdict(okI, [kind |-> "independent", lang |-> Ev.l])
          /\ Verdict(okM, [kind |-> "untouched", lang |-> Ev.l])
          /\ Bump(okI /\ okM)
       /\ cell' = Ev.cells                  \* follow the implementation so the rest is checked
       /\ l' = l + 1 /\ UNCHANGED <<cell0, alone>>

Cli == /\ Is("cli")
       /\ LET bad == {L \in (DOMAIN Ev.files) \cap Langs : ~Same(Ev.files[L], alone[L])} IN
          /\ Verdict(bad = {}, [kind |-> "independent-cli", lang |-> bad])
          /\ Bump(bad = {})
       /\ l' = l + 1 /\ UNCHANGED <<cell0, cell, alone>>

\* Pipeline!Deterministic: every repetition gives the output RunGen gives alone
Rep == /\ Is("rep")
       /\ LET bad == {f \in DOMAIN Ev.perfile : Len(Ev.perfile[f]) # 1} IN
          /\ Verdict(bad = {}, [kind |-> "nondeterministic", lang |-> Ev.l, files |-> bad])
          /\ Bump(bad = {})
       /\ l' = l + 1 /\ UNCHANGED <<cell0, cell, alone>>

Next == Load \/ Alone \/ Parse \/ Gen \/ Cli \/ Rep
Spec == Init /\ [][Next]_vars

AllConsumed == l = Len(Trace) + 1
Accepted == TLCGet("stats").diameter = Len(Trace) + 1
=============================================================================
