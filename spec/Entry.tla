-------------------------------- MODULE Entry --------------------------------
(***************************************************************************)
(* The entry points of fin-protoc as a small file-system / stdout / exit   *)
(* status machine (C16, C11).                                              *)
(*   FormatD(t)   `format -d <t>`      prints the formatter's result       *)
(*   FormatF(t)   `format -f <file>`   rewrites the file with the result   *)
(*   LibFormat(t) FormatPacketDslExport(t) in libpacketdsl.so              *)
(*   Compile(S, w) `[compile] -f file -X dir ...` for the target set S,    *)
(*                with (w) or without the subcommand word                  *)
(* Every call has an outcome in {result, diagnostic}; panic / abort / hang *)
(* are NOT outcomes of the specification (C11), so a recorded call with    *)
(* such an outcome is rejected by trace validation.                        *)
(* Deviation switch: DebugPrintArgc (the root command prints the number of *)
(* arguments as the first line of stdout).                                 *)
(* The LIBRARY stays loaded: the LibFormat calls of one history are calls  *)
(* into ONE process.  Its answer is a function of the text alone           *)
(* (LibIsResult holds after every call whatever was asked before).         *)
(* Deviation switch LibMemo: the exported function remembers its previous  *)
(* call (text -> what the formatter returned, stored BEFORE the error      *)
(* check) and answers a repeated text from that memo.                      *)
(***************************************************************************)
EXTENDS Integers, Sequences, FiniteSets, TLC, Json

CONSTANTS DebugPrintArgc, MaxCalls, LibMemo
Texts == {"valid1", "valid2", "invalid"}
Valid(t) == t # "invalid"
Langs == {"lua", "rust", "go", "java", "py", "cpp"}
Formatted == {"fmt:valid1", "fmt:valid2"}
Fmt(t) == IF t \in Formatted THEN t ELSE "fmt:" \o t     \* the library result for text t (idempotent)
FileSet(t, L) == <<"files", t, L>>           \* the generator's file map for target L

VARIABLES file, stdout, exit, ret, tree, alive, calls, memo
vars == <<file, stdout, exit, ret, tree, alive, calls, memo>>

Init == /\ file \in Texts /\ stdout = <<>> /\ exit = 0 /\ ret = <<>> /\ tree = {} /\ alive = TRUE /\ calls = <<>> /\ memo = <<>>

Prefix == IF DebugPrintArgc THEN << <<"argc">> >> ELSE <<>>
More == Len(calls) < MaxCalls

FormatD(t) == /\ More
              /\ IF Valid(t) THEN stdout' = Prefix \o <<Fmt(t), "\n">> /\ exit' = 0
                             ELSE stdout' = Prefix \o <<"Error">> /\ exit' = 1
              /\ calls' = Append(calls, [op |-> "format-d", text |-> t, langs |-> {}])
              /\ UNCHANGED <<file, ret, tree, alive, memo>>
FormatF == /\ More
           /\ IF Valid(file) THEN file' = Fmt(file) /\ exit' = 0 /\ stdout' = Prefix
                             ELSE file' = file /\ exit' = 1 /\ stdout' = Prefix \o <<"Error">>
           /\ calls' = Append(calls, [op |-> "format-f", text |-> file, langs |-> {}])
           /\ UNCHANGED <<ret, tree, alive, memo>>
LibFormat(t) == /\ More
                /\ ret' = IF LibMemo /\ memo # <<>> /\ memo[1] = t THEN memo[2]
                          ELSE IF Valid(t) THEN Fmt(t) ELSE <<"Error:", t>>
                \* what the formatter hands back next to its error is the input text
                /\ memo' = IF LibMemo THEN <<t, IF Valid(t) THEN Fmt(t) ELSE <<"unformatted", t>> >> ELSE memo
                /\ calls' = Append(calls, [op |-> "lib", text |-> t, langs |-> {}])
                /\ UNCHANGED <<file, stdout, exit, tree, alive>>
Compile(S, w) == /\ More
                 /\ IF Valid(file) THEN tree' = tree \cup {FileSet(file, L) : L \in S} /\ exit' = 0
                                   ELSE tree' = tree /\ exit' = 1
                 /\ calls' = Append(calls, [op |-> IF w THEN "compile-word" ELSE "compile-implicit", text |-> file, langs |-> S])
                 /\ UNCHANGED <<file, stdout, ret, alive, memo>>

Next == \/ \E t \in Texts : FormatD(t) \/ LibFormat(t)
        \/ FormatF
        \/ \E S \in {{"go"}, {"lua", "py"}, Langs} : \E w \in BOOLEAN : Compile(S, w)
Spec == Init /\ [][Next]_vars

Last == calls[Len(calls)]
\* C16: format -d prints exactly the library result (one line-terminating newline, nothing else)
StdoutExact == (calls # <<>> /\ Last.op = "format-d" /\ Valid(Last.text)) => stdout = <<Fmt(Last.text), "\n">>
\* C16 / C09: on a syntax error the file is untouched and the exit status is non-zero
FileUntouchedOnError == (calls # <<>> /\ Last.op = "format-f" /\ ~Valid(Last.text)) => (file = Last.text /\ exit # 0)
LibIsResult == (calls # <<>> /\ Last.op = "lib") => ret = IF Valid(Last.text) THEN Fmt(Last.text) ELSE <<"Error:", Last.text>>
\* C16: only the generators' files, only for requested targets of valid texts
TreeExact == \A f \in tree : f[1] = "files" /\ Valid(f[2])
\* C11
Alive == alive
EmitCalls == calls # <<>> => PrintT(<<"TESTCASE", ToJson([start |-> calls[1].text, calls |-> calls])>>)
View == <<file, stdout, exit, ret, tree, alive, Len(calls), IF calls = <<>> THEN "" ELSE Last.op, memo>>
=============================================================================
