------------------------------- MODULE DslGen -------------------------------
(***************************************************************************)
(* The program generator machine.  A program is grown from CELLS of the    *)
(* finite vocabulary of DESIGN Appendix A: every field kind, repetition,   *)
(* name shape, pad form, match table form, length-of / checksum width and  *)
(* position, MetaData use, option setting.  TLC enumerates every program   *)
(* within the bounds of the configuration and prints each finished one as  *)
(*     <<"TESTCASE", ToJson(program)>>                                     *)
(* which the harness renders to PacketDSL text and feeds to the real       *)
(* compiler.  Nothing outside this vocabulary is ever generated.           *)
(*                                                                         *)
(*   Init -> ChooseOptions -> AddCell* -> Finish                           *)
(***************************************************************************)
EXTENDS Wire, Json

CONSTANTS MaxCells,       \* cells per program (1 = GenCells, 2 = GenPairs)
          OptFacet,       \* "few" | "all" | "one"
          CellFacet       \* subset of cell families to draw from

F0 == [k |-> "", name |-> "", ty |-> "", rep |-> FALSE, n |-> 0, pad |-> "none", key |-> "",
       pairs |-> <<>>, tgt |-> "", alg |-> "", fs |-> <<>>]
Nm(p, i) == p \o ToString(i)

(* ------------------------------ aux packets ----------------------------- *)
Sc(name, ty) == [F0 EXCEPT !.k = IF ty \in {"f32", "f64"} THEN "float" ELSE IF ty = "char" THEN "char" ELSE "int", !.name = name, !.ty = ty]
AuxDefs ==
  [A     |-> <<Sc("x", "u8")>>,
   B     |-> <<Sc("y", "i64"), [F0 EXCEPT !.k = "dyn", !.name = "s"]>>,
   Empty |-> <<>>,
   Sub   |-> <<Sc("q", "f32"), Sc("w", "i32")>>,
   Lst   |-> <<[Sc("xs", "u16") EXCEPT !.rep = TRUE], Sc("t", "u8")>>,
   Big   |-> <<[F0 EXCEPT !.k = "fix", !.name = "a", !.n = 150], [F0 EXCEPT !.k = "fix", !.name = "b", !.n = 150, !.pad = "z"]>>,
   CkPkt |-> <<Sc("a", "u16"), [F0 EXCEPT !.k = "ck", !.name = "ck", !.ty = "u16", !.alg = "VSUM16"], Sc("b", "u8")>>,
   Zeta  |-> <<Sc("K", "u8"), [F0 EXCEPT !.k = "match", !.name = "Z", !.key = "K",
                                !.pairs = << [keys |-> << <<1>> >>, lits |-> <<"1">>, pkt |-> "A"], [keys |-> << <<2>>, <<3>> >>, lits |-> <<"2", "3">>, pkt |-> "B"] >>], Sc("tail", "u16")>>,
   Outer |-> <<[F0 EXCEPT !.k = "obj", !.name = "Sub", !.ty = "Sub"], [F0 EXCEPT !.k = "obj", !.name = "ls", !.ty = "Lst"], Sc("t", "u8")>>,
   WithObj |-> <<[F0 EXCEPT !.k = "obj", !.name = "Sub", !.ty = "Sub"], [F0 EXCEPT !.k = "obj", !.name = "subs", !.ty = "Sub", !.rep = TRUE], Sc("z", "u8")>>,
   \* a NON-root packet with an inline object whose member is a packet declared later in the text
   Wrap  |-> <<[F0 EXCEPT !.k = "inl", !.name = "Part", !.fs = <<Sc("p", "u8"), [F0 EXCEPT !.k = "obj", !.name = "Late", !.ty = "Late"]>>], Sc("t", "u8")>>,
   Late  |-> <<Sc("v", "u16")>>,
   \* two packets that each declare an inline object called Level, with different fields
   Quote |-> <<[F0 EXCEPT !.k = "inl", !.name = "Level", !.rep = TRUE, !.fs = <<Sc("bid", "u32"), Sc("qty", "u16")>>], Sc("qend", "u8")>>,
   Trade |-> <<[F0 EXCEPT !.k = "inl", !.name = "Level", !.rep = TRUE, !.fs = <<Sc("px", "u64"), [F0 EXCEPT !.k = "dyn", !.name = "venue"]>>], Sc("tend", "u8")>>]
\* declaration order: the packets that reference other packets come first, so those references point forward
AuxNames == <<"Outer", "WithObj", "Zeta", "Wrap", "A", "B", "Empty", "Sub", "Lst", "Big", "CkPkt", "Late", "Quote", "Trade">>

MetaDefs ==
  << [name |-> "Code",  k |-> "fix",   ty |-> "",    n |-> 6, pad |-> "z",    ref |-> "",     doc |-> "code"],
     [name |-> "Name",  k |-> "fix",   ty |-> "",    n |-> 4, pad |-> "none", ref |-> "",     doc |-> "name"],
     [name |-> "Qty",   k |-> "int",   ty |-> "u32", n |-> 0, pad |-> "none", ref |-> "",     doc |-> "qty"],
     [name |-> "Px",    k |-> "float", ty |-> "f64", n |-> 0, pad |-> "none", ref |-> "",     doc |-> "px"],
     [name |-> "Txt",   k |-> "dyn",   ty |-> "",    n |-> 0, pad |-> "none", ref |-> "",     doc |-> "txt"],
     [name |-> "Alias", k |-> "",      ty |-> "",    n |-> 0, pad |-> "none", ref |-> "Code", doc |-> "alias"],
     [name |-> "BodyLen", k |-> "int", ty |-> "u16", n |-> 0, pad |-> "none", ref |-> "",     doc |-> "length of body"],
     [name |-> "CheckSum", k |-> "int", ty |-> "u32", n |-> 0, pad |-> "none", ref |-> "",    doc |-> "checksum"] >>

(* --------------------------------- cells -------------------------------- *)
\* a cell instantiated at position i: [tag, fs (fields), aux (packet names used), meta (BOOLEAN)]
Cell(tag, fs, aux, meta) == [tag |-> tag, fs |-> fs, aux |-> aux, meta |-> meta]
ScalarTys == {"u8", "u16", "u32", "u64", "i8", "i16", "i32", "i64", "f32", "f64", "char"}
PadForms == {"none", "z", "l0", "lsp", "lnul", "ldef", "r0", "rsp", "rnul", "rdef"}
Reps == {FALSE, TRUE}

ScalarCells(i) == { Cell("scalar:" \o ty \o (IF r THEN ":rep" ELSE ""), <<[Sc(Nm("f", i), ty) EXCEPT !.rep = r]>>, {}, FALSE) :
                      ty \in ScalarTys, r \in Reps }
FixCells(i) == { Cell("fix:" \o ToString(n) \o ":" \o pad \o (IF r THEN ":rep" ELSE ""),
                      <<[F0 EXCEPT !.k = "fix", !.name = Nm("f", i), !.n = n, !.pad = pad, !.rep = r]>>, {}, FALSE) :
                   n \in {4}, pad \in PadForms, r \in Reps }
               \cup { Cell("fix:" \o ToString(n) \o ":" \o pad, <<[F0 EXCEPT !.k = "fix", !.name = Nm("f", i), !.n = n, !.pad = pad]>>, {}, FALSE) :
                   n \in {1, 10}, pad \in {"none", "z", "l0"} }
DynCells(i) == { Cell("dyn" \o (IF r THEN ":rep" ELSE ""), <<[F0 EXCEPT !.k = "dyn", !.name = Nm("f", i), !.rep = r]>>, {}, FALSE) : r \in Reps }
ObjCells(i) ==
     { Cell("obj:sametype" \o (IF r THEN ":rep" ELSE ""), <<[F0 EXCEPT !.k = "obj", !.name = "Sub", !.ty = "Sub", !.rep = r]>>, {"Sub"}, FALSE) : r \in Reps }
\cup { Cell("obj:named" \o (IF r THEN ":rep" ELSE ""), <<[F0 EXCEPT !.k = "obj", !.name = Nm("One", i), !.ty = "Sub", !.rep = r]>>, {"Sub"}, FALSE) : r \in Reps }
\* an empty packet as a member / list element, followed by another field
\cup { Cell("obj:empty" \o (IF r THEN ":rep" ELSE ""), <<[F0 EXCEPT !.k = "obj", !.name = Nm("e", i), !.ty = "Empty", !.rep = r], Sc(Nm("after", i), "u16")>>, {"Empty"}, FALSE) : r \in Reps }
\* an inline object followed by a referenced object, and the other way round
\cup { Cell("obj:inlthenref", <<[F0 EXCEPT !.k = "inl", !.name = Nm("Leg", i), !.fs = <<Sc("p", "u16")>>], [F0 EXCEPT !.k = "obj", !.name = "Sub", !.ty = "Sub"],
                                [F0 EXCEPT !.k = "obj", !.name = Nm("others", i), !.ty = "Sub", !.rep = TRUE]>>, {"Sub"}, FALSE) }
\cup { Cell("obj:refinsideinl", <<[F0 EXCEPT !.k = "inl", !.name = Nm("Leg", i), !.fs = <<Sc("p", "u16"), [F0 EXCEPT !.k = "obj", !.name = "Sub", !.ty = "Sub"]>>], Sc(Nm("after", i), "u8")>>, {"Sub"}, FALSE) }
\cup { Cell("obj:withck" \o (IF r THEN ":rep" ELSE ""), <<Sc(Nm("pre", i), "u16"), [F0 EXCEPT !.k = "obj", !.name = Nm("c", i), !.ty = "CkPkt", !.rep = r], Sc(Nm("post", i), "u8")>>, {"CkPkt"}, FALSE) : r \in Reps }
\cup { Cell("obj:withmatch" \o (IF r THEN ":rep" ELSE ""), <<[F0 EXCEPT !.k = "obj", !.name = Nm("z", i), !.ty = "Zeta", !.rep = r], Sc(Nm("post", i), "u8")>>, {"Zeta", "A", "B"}, FALSE) : r \in Reps }
\cup { Cell("obj:depth2" \o (IF r THEN ":rep" ELSE ""), <<[F0 EXCEPT !.k = "obj", !.name = Nm("o", i), !.ty = "Outer", !.rep = r], Sc(Nm("post", i), "u8")>>, {"Outer", "Sub", "Lst"}, FALSE) : r \in Reps }
\cup { Cell("obj:inlinaux" \o (IF r THEN ":rep" ELSE ""), <<[F0 EXCEPT !.k = "obj", !.name = Nm("w", i), !.ty = "Wrap", !.rep = r], Sc(Nm("post", i), "u8")>>, {"Wrap", "Late"}, FALSE) : r \in Reps }
\cup { Cell("obj:inlsame", <<[F0 EXCEPT !.k = "obj", !.name = Nm("qu", i), !.ty = "Quote"], [F0 EXCEPT !.k = "obj", !.name = Nm("tr", i), !.ty = "Trade"],
                             Sc(Nm("post", i), "u8")>>, {"Quote", "Trade"}, FALSE) }
\cup { Cell("obj:strings:rep", <<[F0 EXCEPT !.k = "obj", !.name = Nm("bs", i), !.ty = "B", !.rep = TRUE]>>, {"B"}, FALSE) }
\cup { Cell("obj:withlist", <<[F0 EXCEPT !.k = "obj", !.name = Nm("Ls", i), !.ty = "Lst"]>>, {"Lst"}, FALSE) }
\cup { Cell("obj:listoflists", <<[F0 EXCEPT !.k = "obj", !.name = Nm("Ls", i), !.ty = "Lst", !.rep = TRUE]>>, {"Lst"}, FALSE) }
\cup { Cell("inl:d1" \o (IF r THEN ":rep" ELSE ""),
            <<[F0 EXCEPT !.k = "inl", !.name = Nm("Inner", i), !.rep = r, !.fs = <<Sc("p", "u16"), [F0 EXCEPT !.k = "dyn", !.name = "r"]>>]>>, {}, FALSE) : r \in Reps }
\cup { Cell("inl:d2", <<[F0 EXCEPT !.k = "inl", !.name = Nm("Outer", i),
                         !.fs = <<Sc("p", "u8"), [F0 EXCEPT !.k = "inl", !.name = Nm("Deep", i), !.fs = <<Sc("z", "i16")>>]>>]>>, {}, FALSE) }
MetaCells(i) ==
     { Cell("meta:" \o e \o (IF r THEN ":rep" ELSE ""), <<[F0 EXCEPT !.k = "meta", !.name = e, !.ty = e, !.rep = r]>>, {}, TRUE) :
         e \in {"Code", "Name", "Qty", "Px", "Txt", "Alias"}, r \in Reps }
\cup { Cell("meta:named", <<[F0 EXCEPT !.k = "meta", !.name = Nm("c", i), !.ty = "Code"]>>, {}, TRUE) }
\* two fields sharing one MetaData type, one of them carrying its own padding attribute
\cup { Cell("meta:shared:" \o pad, <<[F0 EXCEPT !.k = "meta", !.name = Nm("ma", i), !.ty = "Name", !.pad = pad],
                                      [F0 EXCEPT !.k = "meta", !.name = Nm("mb", i), !.ty = "Name"]>>, {}, TRUE) : pad \in {"l0", "rnul"} }
\* the same with a MetaData type that already carries a padding object of its own (zchar)
\cup { Cell("meta:sharedz:" \o pad, <<[F0 EXCEPT !.k = "meta", !.name = Nm("za", i), !.ty = "Code", !.pad = pad],
                                       [F0 EXCEPT !.k = "meta", !.name = Nm("zb", i), !.ty = "Code"],
                                       [F0 EXCEPT !.k = "meta", !.name = Nm("zc", i), !.ty = "Alias", !.rep = TRUE]>>, {}, TRUE) : pad \in {"l0", "rsp"} }

\* match tables: key field kind x table form
KeyLits(kty) ==  \* three key literals with their canonical bytes for key type kty
  CASE kty = "u8"  -> << [l |-> "1", b |-> <<1>>], [l |-> "2", b |-> <<2>>], [l |-> "255", b |-> <<255>>] >>
    [] kty = "u16" -> << [l |-> "1", b |-> <<0, 1>>], [l |-> "2", b |-> <<0, 2>>], [l |-> "65535", b |-> <<255, 255>>] >>
    \* decimal literals with leading zeros: 010 is ten, not eight
    [] kty = "u16z" -> << [l |-> "010", b |-> <<0, 10>>], [l |-> "007", b |-> <<0, 7>>], [l |-> "65535", b |-> <<255, 255>>] >>
    [] kty = "u32" -> << [l |-> "1", b |-> <<0, 0, 0, 1>>], [l |-> "2", b |-> <<0, 0, 0, 2>>], [l |-> "4294967295", b |-> <<255, 255, 255, 255>>] >>
    \* the second key lies between 2^31 and 2^32: not an int literal of a language with 32-bit ints, and sign-extended by a careless widening
    [] kty = "u64" -> << [l |-> "1", b |-> <<0, 0, 0, 0, 0, 0, 0, 1>>], [l |-> "3000000000", b |-> <<0, 0, 0, 0, 178, 208, 94, 0>>],
                         [l |-> "18446744073709551615", b |-> <<255, 255, 255, 255, 255, 255, 255, 255>>] >>
    [] kty = "i64" -> << [l |-> "1", b |-> <<0, 0, 0, 0, 0, 0, 0, 1>>], [l |-> "2", b |-> <<0, 0, 0, 0, 0, 0, 0, 2>>],
                         [l |-> "9223372036854775807", b |-> <<127, 255, 255, 255, 255, 255, 255, 255>>] >>
    [] kty = "i32" -> << [l |-> "1", b |-> <<0, 0, 0, 1>>], [l |-> "2", b |-> <<0, 0, 0, 2>>], [l |-> "2147483647", b |-> <<127, 255, 255, 255>>] >>
    \* the third string key holds a '%' (printf-style text generation must not read it as a verb)
    [] OTHER       -> << [l |-> "\"AB\"", b |-> <<65, 66>>], [l |-> "\"C\"", b |-> <<67>>], [l |-> "\"D%E\"", b |-> <<68, 37, 69>>] >>
Pair(ks, pkt) == [keys |-> [j \in 1..Len(ks) |-> ks[j].b], lits |-> [j \in 1..Len(ks) |-> ks[j].l], pkt |-> pkt]
Tables(kty) == LET K == KeyLits(kty) IN
  [one      |-> << Pair(<<K[1]>>, "A") >>,
   two      |-> << Pair(<<K[1]>>, "A"), Pair(<<K[2]>>, "B") >>,
   list     |-> << Pair(<<K[1], K[2]>>, "A"), Pair(<<K[3]>>, "B") >>,
   sameTgt  |-> << Pair(<<K[1], K[2]>>, "A"), Pair(<<K[3]>>, "A") >>,
   rev      |-> << Pair(<<K[1]>>, "B"), Pair(<<K[2]>>, "A") >>,
   payloads |-> << Pair(<<K[1]>>, "Empty"), Pair(<<K[2]>>, "Lst"), Pair(<<K[3]>>, "Big") >>,
   objpayload |-> << Pair(<<K[1]>>, "WithObj"), Pair(<<K[2]>>, "A") >>,
   ckpayload |-> << Pair(<<K[1]>>, "CkPkt"), Pair(<<K[2]>>, "Zeta") >>]
KeyField(i, kty) == IF kty = "string" THEN [F0 EXCEPT !.k = "dyn", !.name = Nm("key", i)]
                    ELSE IF kty = "char4" THEN [F0 EXCEPT !.k = "fix", !.name = Nm("key", i), !.n = 4]
                    \* the default padding written out: it must win over a configured padding
                    ELSE IF kty = "char4rsp" THEN [F0 EXCEPT !.k = "fix", !.name = Nm("key", i), !.n = 4, !.pad = "rsp"]
                    ELSE IF kty = "u16z" THEN Sc(Nm("key", i), "u16")
                    ELSE IF kty = "i64" THEN Sc(Nm("key", i), "i64")
                    ELSE Sc(Nm("key", i), kty)
AuxOf(tbl) == {tbl[j].pkt : j \in 1..Len(tbl)} \cup (IF \E j \in 1..Len(tbl) : tbl[j].pkt = "WithObj" THEN {"Sub"} ELSE {})
                                             \cup (IF \E j \in 1..Len(tbl) : tbl[j].pkt = "Zeta" THEN {"A", "B"} ELSE {})
MatchF(i, tbl) == [F0 EXCEPT !.k = "match", !.name = Nm("body", i), !.key = Nm("key", i), !.pairs = tbl]
MatchCells(i) == { LET tbl == Tables(kty)[form] IN
                   Cell("match:" \o kty \o ":" \o form, <<KeyField(i, kty), MatchF(i, tbl)>>, AuxOf(tbl), FALSE) :
                     kty \in {"u8", "u16", "u32", "u64", "i32", "string", "char4"}, form \in {"one", "two", "list", "sameTgt", "payloads"} }
                 \cup { LET tbl == Tables(kty)["objpayload"] IN
                        Cell("match:" \o kty \o ":objpayload", <<KeyField(i, kty), MatchF(i, tbl)>>, AuxOf(tbl), FALSE) : kty \in {"u16", "string"} }
                 \* two match fields over different key fields in one packet
                 \cup { LET t1 == Tables("u8")["two"] t2 == Tables("u16")["list"] IN
                        Cell("match:twofields", <<Sc(Nm("ka", i), "u8"), Sc(Nm("kb", i), "u16"),
                                                  [F0 EXCEPT !.k = "match", !.name = Nm("ba", i), !.key = Nm("ka", i), !.pairs = t1],
                                                  Sc(Nm("mid", i), "u8"),
                                                  [F0 EXCEPT !.k = "match", !.name = Nm("bb", i), !.key = Nm("kb", i), !.pairs = t2]>>, AuxOf(t1) \cup AuxOf(t2), FALSE) }
                 \cup { LET tbl == Tables(kty)[form] IN
                        Cell("match:" \o kty \o ":" \o form, <<KeyField(i, kty), MatchF(i, tbl)>>, AuxOf(tbl), FALSE) :
                          kty \in {"u16z", "char4rsp", "i64"}, form \in {"two", "list"} }
                 \* the key field is typed by a MetaData entry
                 \cup { LET tbl == Tables("u32")[form] IN
                        Cell("match:metakey:" \o form, <<[F0 EXCEPT !.k = "meta", !.name = Nm("key", i), !.ty = "Qty"], MatchF(i, tbl)>>, AuxOf(tbl), TRUE) : form \in {"two", "list"} }
                 \* two match fields over the SAME key field
                 \cup { LET t1 == Tables("u8")["two"] t2 == Tables("u8")["sameTgt"] IN
                        Cell("match:samekey", <<Sc(Nm("k", i), "u8"),
                                                [F0 EXCEPT !.k = "match", !.name = Nm("ba", i), !.key = Nm("k", i), !.pairs = t1],
                                                [F0 EXCEPT !.k = "match", !.name = Nm("bb", i), !.key = Nm("k", i), !.pairs = t2]>>, AuxOf(t1) \cup AuxOf(t2), FALSE) }
                 \* ... whose tables START with different packets and map the same keys to different packets
                 \cup { LET t1 == Tables("u8")["two"] t2 == Tables("u8")["rev"] IN
                        Cell("match:samekey:rev", <<Sc(Nm("k", i), "u8"),
                                                    [F0 EXCEPT !.k = "match", !.name = Nm("ba", i), !.key = Nm("k", i), !.pairs = t1],
                                                    [F0 EXCEPT !.k = "match", !.name = Nm("bb", i), !.key = Nm("k", i), !.pairs = t2]>>, AuxOf(t1) \cup AuxOf(t2), FALSE) }
                 \* key and match inside an inline object
                 \cup { LET t == Tables("u8")["two"] IN
                        Cell("match:insideinl", <<[F0 EXCEPT !.k = "inl", !.name = Nm("Env", i),
                                                     !.fs = <<Sc("kind", "u8"), [F0 EXCEPT !.k = "match", !.name = "payload", !.key = "kind", !.pairs = t]>>],
                                                  Sc(Nm("after", i), "u16")>>, AuxOf(t), FALSE) }
                 \* a checksum inside the payload (its prefix includes the enclosing packet's bytes), a match inside the payload
                 \cup { LET tbl == Tables("u16")["ckpayload"] IN
                        Cell("match:u16:ckpayload", <<Sc(Nm("pre", i), "u32"), KeyField(i, "u16"), MatchF(i, tbl), Sc(Nm("post", i), "u8")>>, AuxOf(tbl), FALSE) }

\* length-of: only in the root packet, at most one per program (Validate.tla), so only at position 1
LenCells(i) == IF i # 1 THEN {} ELSE
     { LET tbl == Tables("u16")[form] IN
       Cell("len:" \o w \o ":match:" \o form,
            <<Sc(Nm("key", i), "u16"), [F0 EXCEPT !.k = "len", !.name = Nm("blen", i), !.ty = w, !.tgt = Nm("body", i)], MatchF(i, tbl)>>, AuxOf(tbl), FALSE) :
         w \in {"u8", "u16", "u32", "u64"}, form \in {"two", "payloads"} }
\cup { Cell("len:" \o w \o ":obj",
            <<[F0 EXCEPT !.k = "len", !.name = Nm("olen", i), !.ty = w, !.tgt = Nm("Tgt", i)], [F0 EXCEPT !.k = "obj", !.name = Nm("Tgt", i), !.ty = "B"]>>, {"B"}, FALSE) :
         w \in {"u8", "u16", "u32", "u64"} }
\* the type of the length field is taken from the MetaData entry of the same name (no type written)
\cup { LET tbl == Tables("u16")["two"] IN
       Cell("len:notype:match", <<Sc(Nm("key", i), "u16"), [F0 EXCEPT !.k = "len", !.name = "BodyLen", !.ty = "u16", !.tgt = Nm("body", i), !.pad = "notype"], MatchF(i, tbl)>>, AuxOf(tbl), TRUE) }
\* fields between the length field and its target must not be counted
LenGapCells(i) == IF i # 1 THEN {} ELSE
     { LET tbl == Tables("u16")["payloads"] IN
       Cell("len:" \o w \o ":match:gap",
            <<Sc(Nm("key", i), "u16"), [F0 EXCEPT !.k = "len", !.name = Nm("blen", i), !.ty = w, !.tgt = Nm("body", i)],
              Sc(Nm("seq", i), "u32"), [F0 EXCEPT !.k = "dyn", !.name = Nm("note", i)], MatchF(i, tbl), Sc(Nm("after", i), "u8")>>, AuxOf(tbl), FALSE) :
         w \in {"u16", "u32"} }
\cup { Cell("len:u16:obj:gap",
            <<[F0 EXCEPT !.k = "len", !.name = Nm("olen", i), !.ty = "u16", !.tgt = Nm("Tgt", i)], Sc(Nm("seq", i), "u64"),
              [F0 EXCEPT !.k = "obj", !.name = Nm("Tgt", i), !.ty = "B"], Sc(Nm("after", i), "u16")>>, {"B"}, FALSE) }
CkCells(i) ==
     { Cell("ck:" \o w \o ":" \o alg, <<Sc(Nm("pre", i), "u32"), [F0 EXCEPT !.k = "ck", !.name = Nm("ck", i), !.ty = w, !.alg = alg]>>, {}, FALSE) :
         w \in {"u8", "u16", "u32", "u64"}, alg \in {"REG", "NONE"} }
\* a name that differs from a registered one only in LETTER CASE is not registered: the caller's value is written
\cup { Cell("ck:" \o x[1] \o ":case:" \o x[2],
            <<Sc(Nm("pre", i), "u32"), [F0 EXCEPT !.k = "ck", !.name = Nm("ck", i), !.ty = x[1], !.alg = x[2]]>>, {}, FALSE) :
         x \in {<<"u16", "vsum16">>, <<"u32", "Vsum32">>} }
\* two checksum fields with different algorithms in one packet
\cup { Cell("ck:two:" \o a1 \o ":" \o a2,
            <<Sc(Nm("pre", i), "u32"), [F0 EXCEPT !.k = "ck", !.name = Nm("cka", i), !.ty = "u16", !.alg = a1],
              Sc(Nm("mid", i), "u16"), [F0 EXCEPT !.k = "ck", !.name = Nm("ckb", i), !.ty = "u32", !.alg = a2]>>, {}, FALSE) :
         a1 \in {"REG", "NONE"}, a2 \in {"REG", "NONE"} }
\cup { Cell("ck:inl:" \o a, <<Sc(Nm("pre", i), "u32"),
                               [F0 EXCEPT !.k = "inl", !.name = Nm("Trailer", i),
                                          !.fs = <<Sc("x", "u16"), [F0 EXCEPT !.k = "ck", !.name = "crc", !.ty = "u16", !.alg = a]>>],
                               Sc(Nm("post", i), "u8")>>, {}, FALSE) : a \in {"VSUM16", "NONE"} }
\cup { Cell("ck:notype", <<Sc(Nm("pre", i), "u32"), [F0 EXCEPT !.k = "ck", !.name = "CheckSum", !.ty = "u32", !.alg = "REG", !.pad = "notype"]>>, {}, TRUE) }
\cup { Cell("ck:u16:followed", <<[F0 EXCEPT !.k = "ck", !.name = Nm("ck", i), !.ty = "u16", !.alg = "REG"], Sc(Nm("post", i), "u8")>>, {}, FALSE) }
RegName(w) == CASE w = "u8" -> "VSUM8" [] w = "u16" -> "VSUM16" [] w = "u32" -> "VSUM32" [] OTHER -> "VSUM64"
FixAlg(f) == IF f.k = "ck" /\ f.alg = "REG" THEN [f EXCEPT !.alg = RegName(f.ty)] ELSE f

Family(fam, i) == CASE fam = "scalar" -> ScalarCells(i) [] fam = "fix" -> FixCells(i) [] fam = "dyn" -> DynCells(i)
                    [] fam = "obj" -> ObjCells(i) [] fam = "meta" -> MetaCells(i) [] fam = "match" -> MatchCells(i)
                    [] fam = "len" -> LenCells(i) \cup LenGapCells(i) [] fam = "ck" -> CkCells(i) [] OTHER -> {}
Cells(i) == UNION { Family(fam, i) : fam \in CellFacet }

(* -------------------------------- options ------------------------------- *)
O(le, sp, ap, pl, pc) == [le |-> le, sp |-> sp, ap |-> ap, padleft |-> pl, padchar |-> pc, pkgs |-> "set"]
OptFew == { O("", "", "", "", ""), O("true", "", "", "", ""), O("false", "u8", "u32", "", ""),
            O("true", "u32", "u8", "", ""), O("", "u64", "u64", "true", "0"), O("true", "", "", "false", "sp"),
            O("true", "u64", "u64", "", "") }
OptAll == { O(le, sp, ap, "", "") : le \in {"", "true"}, sp \in {"", "u8", "u16", "u32", "u64"}, ap \in {"", "u8", "u16", "u32", "u64"} }
          \cup { O(le, "", "", pl, pc) : le \in {"", "true"}, pl \in {"", "true", "false"}, pc \in {"", "0", "sp"} }
OptChoices == IF OptFacet = "all" THEN OptAll ELSE IF OptFacet = "one" THEN {O("", "", "", "", "")} ELSE OptFew

(* -------------------------------- machine ------------------------------- *)
VARIABLES stage, opts, cells
vars == <<stage, opts, cells>>

Init == stage = "options" /\ opts = O("", "", "", "", "") /\ cells = <<>>
ChooseOptions == /\ stage = "options" /\ opts' \in OptChoices /\ stage' = "fields" /\ UNCHANGED cells
\* at most one length-of and one field of each name; aux packets and MetaData are shared
Compatible(c) == \A j \in 1..Len(cells) :
                    {c.fs[a].name : a \in 1..Len(c.fs)} \cap {cells[j].fs[a].name : a \in 1..Len(cells[j].fs)} = {}
AddCell == /\ stage = "fields" /\ Len(cells) < MaxCells
           /\ \E c \in Cells(Len(cells) + 1) : Compatible(c) /\ cells' = Append(cells, c)
           /\ UNCHANGED <<stage, opts>>
Finish == /\ stage = "fields" /\ cells # <<>> /\ stage' = "done" /\ UNCHANGED <<opts, cells>>
Next == ChooseOptions \/ AddCell \/ Finish
Spec == Init /\ [][Next]_vars

(* ------------------------------ the program ----------------------------- *)
RootFields == LET all == FoldLeft(LAMBDA acc, c : acc \o c.fs, <<>>, cells) IN [j \in 1..Len(all) |-> FixAlg(all[j])]
AuxUsed == UNION {cells[j].aux : j \in 1..Len(cells)}
UsesMeta == \E j \in 1..Len(cells) : cells[j].meta
AuxPkts == LET names == SelectSeq(AuxNames, LAMBDA nm : nm \in AuxUsed) IN
           [j \in 1..Len(names) |-> [name |-> names[j], root |-> FALSE, fields |-> AuxDefs[names[j]]]]
Program == [opts |-> opts,
            metas |-> IF UsesMeta THEN MetaDefs ELSE <<>>,
            pkts |-> <<[name |-> "Root", root |-> TRUE, fields |-> RootFields]>> \o AuxPkts,
            cells |-> [j \in 1..Len(cells) |-> cells[j].tag]]

\* invariant used as emitter
Emit == stage = "done" => PrintT(<<"TESTCASE", ToJson(Program)>>)

\* sanity of the generator itself, checked on every generated program: field names are unique, every
\* referenced packet / MetaData entry / key / target exists (well-formedness as Validate.tla defines it)
WellFormedGen == stage = "done" =>
  LET fs == RootFields IN
  /\ \A a, b \in 1..Len(fs) : a # b => fs[a].name # fs[b].name
  /\ \A a \in 1..Len(fs) :
       /\ fs[a].k = "obj" => HasPkt(Program, fs[a].ty)
       /\ fs[a].k = "match" => (\E b \in 1..Len(fs) : b < a /\ fs[b].name = fs[a].key)
                               /\ \A j \in 1..Len(fs[a].pairs) : HasPkt(Program, fs[a].pairs[j].pkt)
       /\ fs[a].k = "len" => \E b \in 1..Len(fs) : b > a /\ fs[b].name = fs[a].tgt
       /\ fs[a].k = "meta" => \E j \in 1..Len(MetaDefs) : MetaDefs[j].name = fs[a].ty
  /\ Cardinality({a \in 1..Len(fs) : fs[a].k = "len"}) <= 1
=============================================================================
