SPECIFICATION Spec
INVARIANTS Agree BasesWellFormed FaultDetected Emit
CHECK_DEADLOCK FALSE
