---------------------------- MODULE TraceDissect ----------------------------
(***************************************************************************)
(* Validation of runs of the EMITTED Wireshark dissector (interpreted by   *)
(* the harness's Lua interpreter with Wireshark stubs) against Wire.tla    *)
(* (C15).                                                                  *)
(*  load     prog                                                          *)
(*  msg      id, pkt, val          the message; the dissector is run over  *)
(*                                 Layout(prog, pkt, val)                  *)
(*  dissect  ok, err, adds : Seq([kind, name, off, len])                   *)
(*           every tree:add / le_add the dissector made, in order; kind    *)
(*           "field" (a ProtoField: name = the DSL field name), "text",    *)
(*           "proto" (subtree decoration, ignored)                         *)
(* Oracle: the sequence of field adds equals the sequence of leaf "body"   *)
(* segments of Wire!Segments (same field, same offset, same length); all   *)
(* attributed ranges end at the end of the message; no Lua runtime error.  *)
(***************************************************************************)
EXTENDS Wire, Json

Trace == ndJsonDeserialize("trace.ndjson")
VARIABLES l, prog, cur, lay, body
vars == <<l, prog, cur, lay, body>>
Ev == Trace[l]
Is(e) == l <= Len(Trace) /\ Ev.ev = e
NoProg == [opts |-> [le |-> "", sp |-> "", ap |-> "", padleft |-> "", padchar |-> ""], metas |-> <<>>, pkts |-> <<>>]
NoMsg == [id |-> "", pkt |-> "", val |-> [t |-> "o", fs |-> <<>>]]

Init == l = 1 /\ prog = NoProg /\ cur = NoMsg /\ lay = <<>> /\ body = <<>>
Load == Is("load") /\ prog' = Ev.prog /\ cur' = NoMsg /\ lay' = <<>> /\ body' = <<>> /\ l' = l + 1
Msg == /\ Is("msg") /\ cur' = [id |-> Ev.id, pkt |-> Ev.pkt, val |-> Ev.val]
       /\ lay' = Layout(prog, Ev.pkt, Ev.val)
       \* the expected leaf segments are computed ONCE per message (a state variable, not an operator)
       /\ body' = SelectSeq(Segments(prog, Ev.pkt, Ev.val), LAMBDA s : s.part = "body")
       /\ l' = l + 1 /\ UNCHANGED prog

Body == body
Fields(adds) == SelectSeq(adds, LAMBDA a : a.kind = "field")
Ranged(adds) == SelectSeq(adds, LAMBDA a : a.kind # "proto")
End(adds) == FoldLeft(LAMBDA acc, a : IF a.off + a.len > acc THEN a.off + a.len ELSE acc, 0, Ranged(adds))

FirstBad(exp, obs) ==
  LET n == IF Len(exp) < Len(obs) THEN Len(exp) ELSE Len(obs)
      bad == {i \in 1..n : exp[i].name # obs[i].name \/ exp[i].off # obs[i].off \/ exp[i].len # obs[i].len} IN
  IF bad = {} THEN (IF Len(obs) < Len(exp) THEN [kind |-> "field-missing", field |-> exp[Len(obs) + 1].name, fk |-> exp[Len(obs) + 1].k]
                    ELSE [kind |-> "field-extra", field |-> obs[Len(exp) + 1].name, fk |-> "-"])
  ELSE LET i == CHOOSE i \in bad : \A j \in bad : i <= j IN
       [kind |-> IF exp[i].name # obs[i].name THEN "wrong-field"
                 ELSE IF exp[i].off # obs[i].off THEN "offset-drift" ELSE "wrong-length",
        field |-> exp[i].name, fk |-> exp[i].k]

Dissect ==
  /\ Is("dissect")
  /\ LET obs == Fields(Ev.adds)
         same == /\ Len(obs) = Len(Body)
                 /\ \A i \in 1..Len(obs) : obs[i].name = Body[i].name /\ obs[i].off = Body[i].off /\ obs[i].len = Body[i].len
         fails == (IF Ev.ok THEN <<>> ELSE <<[kind |-> "lua-error", field |-> "-", fk |-> "-"]>>)
                  \* every tree item names a declared field, the protocol or a text: nil where one of them belongs (an
                  \* undefined global, a field table entry that does not exist) is a defect even where Wireshark shrugs
                  \o (IF \E k \in 1..Len(Ev.adds) : Ev.adds[k].kind = "nil" THEN <<[kind |-> "nil-tree-item", field |-> "-", fk |-> "-"]>> ELSE <<>>)
                  \o (IF same THEN <<>> ELSE <<FirstBad(Body, obs)>>)
                  \o (IF same /\ Ev.ok /\ End(Ev.adds) # Len(lay) /\ Len(lay) > 0 THEN <<[kind |-> "does-not-end-at-message-end", field |-> "-", fk |-> "-"]>> ELSE <<>>)
     IN IF fails = <<>> THEN TRUE ELSE PrintT(<<"VERDICT", ToJson([i |-> l, ev |-> "dissect", lang |-> "lua", fails |-> fails])>>)
  /\ l' = l + 1 /\ UNCHANGED <<prog, cur, lay, body>>

Next == Load \/ Msg \/ Dissect
Spec == Init /\ [][Next]_vars
Accepted == TLCGet("stats").diameter = Len(Trace) + 1
=============================================================================
