------------------------------- MODULE Format -------------------------------
(***************************************************************************)
(* The document history machine (C09, C10, the layout part of C08).        *)
(* A document is abstracted to                                             *)
(*   ems     its essential merged stream (tokens and comments in reading   *)
(*           order, `,` and `;` dropped) -- here an opaque identity        *)
(*   layout  how its spaces / tabs / newlines are laid out                 *)
(*   ok      whether it is syntactically valid                             *)
(* Operations: Format, Relayout(k) (changes only white space, keeps every  *)
(* comment on the line of the same token), Compile (observes the outputs). *)
(* Specified: Format keeps ems, makes the text valid and canonical; a      *)
(* canonical text is a function of ems alone; on a syntax error nothing    *)
(* changes and an error is reported; Compile's result depends on ems only. *)
(* TLC checks the derived invariants over all histories of bounded length  *)
(* and prints every history for replay against the real formatter.         *)
(***************************************************************************)
EXTENDS Integers, Sequences, FiniteSets, TLC, Json

CONSTANTS MaxOps
Layouts == {"oneperline", "fewlines", "tabscrlf", "blanklines", "random"}
Docs == {"d1", "d2"}

VARIABLES ems, layout, ok, err, compiled, hist
vars == <<ems, layout, ok, err, compiled, hist>>

Init == /\ ems \in Docs /\ layout = "orig" /\ ok \in BOOLEAN /\ err = FALSE /\ compiled = {} /\ hist = <<>>

Format == /\ Len(hist) < MaxOps
          /\ IF ok THEN layout' = "canon" /\ err' = FALSE
                   ELSE layout' = layout /\ err' = TRUE          \* FormatBad: text untouched, error reported
          /\ hist' = Append(hist, "Format") /\ UNCHANGED <<ems, ok, compiled>>
Relayout(k) == /\ Len(hist) < MaxOps /\ ok
               /\ layout' = k /\ err' = FALSE
               /\ hist' = Append(hist, k) /\ UNCHANGED <<ems, ok, compiled>>
Compile == /\ Len(hist) < MaxOps /\ ok
           /\ compiled' = compiled \cup {<<ems, layout>>}
           /\ hist' = Append(hist, "Compile") /\ UNCHANGED <<ems, layout, ok, err>>
Next == Format \/ Compile \/ \E k \in Layouts : Relayout(k)
Spec == Init /\ [][Next]_vars

\* the text of a document is determined by (ems, layout); a canonical text by ems alone
Text == <<ems, layout>>
EmsNeverChanges == [][ems' = ems]_vars
ErrorOnlyOnInvalid == err => ~ok
BadTextUntouched == ~ok => layout = "orig"
\* C10: after any history that ends in Format the text is the canonical one
FormatCanonical == (ok /\ hist # <<>> /\ hist[Len(hist)] = "Format") => layout = "canon"
\* C09: every compiled variant of one document has the same ems, hence the same outputs
CompileSeesEmsOnly == \A a, b \in compiled : a[1] = b[1]

EmitHistory == (ok /\ hist # <<>> /\ hist[Len(hist)] \in {"Format", "Compile"}) => PrintT(<<"TESTCASE", ToJson([ops |-> hist])>>)
View == <<ems, layout, ok, err, compiled, Len(hist)>>
=============================================================================
