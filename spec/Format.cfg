SPECIFICATION Spec
CONSTANTS MaxOps = 3
INVARIANTS ErrorOnlyOnInvalid BadTextUntouched FormatCanonical CompileSeesEmsOnly EmitHistory
PROPERTY EmsNeverChanges
CHECK_DEADLOCK FALSE
