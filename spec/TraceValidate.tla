--------------------------- MODULE TraceValidate ---------------------------
(***************************************************************************)
(* Validation of compile runs of the real CLI against the outcome the      *)
(* Check machine of Validate.tla prescribes (C12).                         *)
(*  case     wellformed, expect : Seq(<<class, lines>>)   expectation for  *)
(*           one rendered program: every offence with the set of lines a   *)
(*           diagnostic for it may carry (line of the offending            *)
(*           declaration; for a match pair also the match field's line)    *)
(*  compile  exit, panic, diags : Seq([line, classes]), files              *)
(*           one run of `fin-protoc -f p.dsl` with all six outputs:        *)
(*           classes = the offence classes the message text can mean       *)
(*           (keyword match, lenient), files = number of files written     *)
(* reject  => exit # 0, a diagnostic of the class at the line, no file     *)
(* accept  => exit = 0, no diagnostic, files written                       *)
(***************************************************************************)
EXTENDS Integers, Sequences, FiniteSets, TLC, Json, SequencesExt

Trace == ndJsonDeserialize("trace.ndjson")
VARIABLES l, cur
vars == <<l, cur>>
Ev == Trace[l]
Is(e) == l <= Len(Trace) /\ Ev.ev = e

Init == l = 1 /\ cur = [wellformed |-> TRUE, expect |-> <<>>]
Case == Is("case") /\ cur' = [wellformed |-> Ev.wellformed, expect |-> Ev.expect] /\ l' = l + 1

Hit(e, d)     == d.line \in ToSet(e[2]) /\ e[1] \in ToSet(d.classes)
ClassOnly(e, d) == e[1] \in ToSet(d.classes)
Fails ==
  IF Ev.panic THEN <<[kind |-> "panic", class |-> "-"]>>
  ELSE IF cur.wellformed
  THEN (IF Ev.exit # 0 \/ Len(Ev.diags) > 0 THEN <<[kind |-> "rejected-wellformed", class |-> "-"]>> ELSE <<>>)
       \o (IF Ev.exit = 0 /\ Ev.files = 0 THEN <<[kind |-> "no-output", class |-> "-"]>> ELSE <<>>)
  ELSE (IF Ev.exit = 0 THEN <<[kind |-> "accepted-illformed", class |-> cur.expect[1][1]]>> ELSE <<>>)
       \o (IF Ev.files > 0 THEN <<[kind |-> "files-written", class |-> cur.expect[1][1]]>> ELSE <<>>)
       \o FoldLeft(LAMBDA acc, e :
              IF \E i \in 1..Len(Ev.diags) : Hit(e, Ev.diags[i]) THEN acc
              ELSE IF \E i \in 1..Len(Ev.diags) : ClassOnly(e, Ev.diags[i])
                   THEN Append(acc, [kind |-> "diag-wrong-line", class |-> e[1]])
                   ELSE IF Ev.exit = 0 THEN acc      \* already reported as accepted-illformed
                        ELSE Append(acc, [kind |-> "diag-missing", class |-> e[1]]),
            <<>>, cur.expect)
Compile == /\ Is("compile")
           /\ IF Fails = <<>> THEN TRUE ELSE PrintT(<<"VERDICT", ToJson([i |-> l, fails |-> Fails])>>)
           /\ l' = l + 1 /\ UNCHANGED cur
Next == Case \/ Compile
Spec == Init /\ [][Next]_vars
Accepted == TLCGet("stats").diameter = Len(Trace) + 1
=============================================================================
