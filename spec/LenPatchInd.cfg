CONSTANT MeasureFromPlaceholder = FALSE
INIT Init
NEXT Next
INVARIANT IndInv
