----------------------------- MODULE TraceEntry -----------------------------
(***************************************************************************)
(* Validation of recorded calls of the REAL entry points (CLI binary built *)
(* from the working tree, libpacketdsl.so loaded in a child process)       *)
(* against the actions of Entry.tla (C16, C11).                            *)
(*  doc   text, valid, lib_ok, lib_result, lib_err, gens                   *)
(*        the library result for this text, obtained in-process through    *)
(*        the overlay driver (parser.FormatPacketDsl), and the generators' *)
(*        file maps (target -> path -> sha) when the text compiles         *)
(*  call  op, text, stdout, exit, before, after, ret, outcome, langs, tree,*)
(*        elsewhere                                                        *)
(*        outcome: "ok" | "panic" | "abort" | "hang" (how the process      *)
(*        ended); tree: what was written under the requested directories;  *)
(*        elsewhere: paths created anywhere else                           *)
(***************************************************************************)
EXTENDS Integers, Sequences, FiniteSets, TLC, Json

Trace == ndJsonDeserialize("trace.ndjson")
VARIABLES l, cur
vars == <<l, cur>>
Ev == Trace[l]
Is(e) == l <= Len(Trace) /\ Ev.ev = e
Report(fails) == IF fails = <<>> THEN TRUE ELSE PrintT(<<"VERDICT", ToJson([i |-> l, op |-> Ev.op, fails |-> fails])>>)
NoDoc == [text |-> "", valid |-> TRUE, lib_ok |-> TRUE, lib_result |-> "", lib_err |-> "", gens |-> [none |-> [none |-> ""]]]

Init == l = 1 /\ cur = NoDoc
Doc == /\ Is("doc")
       /\ cur' = [text |-> Ev.text, valid |-> Ev.valid, lib_ok |-> Ev.lib_ok, lib_result |-> Ev.lib_result, lib_err |-> Ev.lib_err, gens |-> Ev.gens]
       /\ l' = l + 1

K(kind) == <<[kind |-> kind]>>
Dead == IF Ev.outcome = "ok" THEN <<>> ELSE K(Ev.outcome)       \* C11: panic / abort / hang are not outcomes

FormatD == IF cur.lib_ok
           THEN (IF Ev.exit # 0 THEN K("valid-rejected") ELSE <<>>)
                \o (IF Ev.exit = 0 /\ Ev.stdout # cur.lib_result \o "\n" THEN K("stdout-differs") ELSE <<>>)
           ELSE (IF Ev.exit = 0 THEN K("exit-zero-on-error") ELSE <<>>)
FormatF == IF cur.lib_ok
           THEN (IF Ev.exit # 0 THEN K("valid-rejected") ELSE <<>>)
                \o (IF Ev.exit = 0 /\ Ev.after # cur.lib_result THEN K("file-differs") ELSE <<>>)
           ELSE (IF Ev.exit = 0 THEN K("exit-zero-on-error") ELSE <<>>)
                \o (IF Ev.after # Ev.before THEN K("file-touched-on-error") ELSE <<>>)
Lib == IF cur.lib_ok
       THEN (IF Ev.ret # cur.lib_result THEN K("return-differs") ELSE <<>>)
       ELSE (IF Ev.ret # "Error:" \o cur.lib_err THEN K("error-return-differs") ELSE <<>>)
Compile ==
  IF ~cur.valid THEN (IF Ev.exit = 0 THEN K("exit-zero-on-error") ELSE <<>>)
                     \o (IF Ev.nfiles > 0 THEN K("files-on-error") ELSE <<>>)
  ELSE (IF Ev.exit # 0 THEN K("valid-rejected") ELSE <<>>)
    \o (IF Ev.exit = 0 /\ \E L \in DOMAIN Ev.tree : L \in DOMAIN cur.gens /\ Ev.tree[L] # cur.gens[L] THEN K("tree-differs") ELSE <<>>)
    \o (IF Len(Ev.elsewhere) > 0 THEN K("writes-elsewhere") ELSE <<>>)

Call == /\ Is("call")
        /\ Report(IF Dead # <<>> THEN Dead
                  ELSE CASE Ev.op = "format-d" -> FormatD
                         [] Ev.op = "format-f" -> FormatF
                         [] Ev.op = "lib" -> Lib
                         [] OTHER -> Compile)
        /\ l' = l + 1 /\ UNCHANGED cur
Next == Doc \/ Call
Spec == Init /\ [][Next]_vars
Accepted == TLCGet("stats").diameter = Len(Trace) + 1
=============================================================================
