---------------------------- MODULE TraceGrammar ----------------------------
(***************************************************************************)
(* Conformance of the REAL parser (ANTLR-generated, with the listeners the *)
(* formatter and the compiler install) with Grammar.tla:                   *)
(*   parse  toks : Seq(token type), accepted : BOOLEAN                     *)
(* one event per text; `accepted` = the real front end reported no syntax  *)
(* error.  accepted must equal Grammar!Accepts(toks).                      *)
(***************************************************************************)
EXTENDS Grammar, Json
Trace == ndJsonDeserialize("trace.ndjson")
VARIABLES l
Ev == Trace[l]
Init == l = 1
Parse == /\ l <= Len(Trace)
         /\ LET want == Accepts(Ev.toks) IN
            IF want = Ev.accepted THEN TRUE
            ELSE PrintT(<<"VERDICT", ToJson([i |-> l, grammar |-> want, parser |-> Ev.accepted])>>)
         /\ l' = l + 1
Spec == Init /\ [][Parse]_l
Accepted == TLCGet("stats").diameter = Len(Trace) + 1
=============================================================================
