---------------------------- MODULE DissectMachine ----------------------------
(***************************************************************************)
(* The OPERATIONAL dissector: how the emitted Wireshark Lua is built.      *)
(*   root dissector:  offset := 0; one step per field                      *)
(*   a leaf field     adds (field, offset, width) to the tree, offset += w *)
(*   a string         reads its length prefix, adds the BODY range         *)
(*   a repeated field reads its count, then one step per element           *)
(*   an object / inline object / match payload CALLS a sub-dissector with  *)
(*   the current offset; the sub-dissector opens a subtree over the bytes  *)
(*   at the offset, walks its own fields and RETURNS the offset it reached *)
(*   -- the caller continues from the returned offset;                     *)
(*   a match reads nothing: the key was read (and kept in a local) when    *)
(*   the key field was dissected.                                          *)
(* TLC checks on the MCWire universe, over Layout(prog, msg):              *)
(*   AttributesSegments   at the end the field adds are exactly the leaf   *)
(*                        "body" segments of Wire!Segments, in order       *)
(*   EndsAtMessageEnd     the offset stands at the end of the message      *)
(*   RangesInside         no tree item (field or subtree) reaches beyond   *)
(*                        the buffer ("Range is out of bounds" in wslua)   *)
(*   OffsetMonotone       the offset never moves back                      *)
(* Deviation switches (all FALSE in the design; each is a defect that was  *)
(* found in the emitted dissector and repaired, DESIGN 0.4):               *)
(*   DropOffsetAfterObject   the caller ignores what an object's           *)
(*                           sub-dissector returns                         *)
(*   DropOffsetAfterMatch    the same for a match payload                  *)
(*   OneByteSubtree          a sub-dissector opens its subtree over ONE    *)
(*                           byte even when its packet has no field        *)
(* An unknown key dissects nothing further (the dissector shows what it    *)
(* can); the properties are stated for consistent messages.                *)
(***************************************************************************)
EXTENDS MCWire

CONSTANTS DropOffsetAfterObject, DropOffsetAfterMatch, OneByteSubtree

VARIABLES dtodo, doff, adds, subs, dphase, keys
dvars == <<dtodo, doff, adds, subs, dphase, keys>>
alldvars == <<vars, dvars>>

\* work items: a field of the message with its value (the dissector sees only bytes; the value tree is carried to
\* know list lengths and payload types the way the bytes tell them, and is cross-checked by AttributesSegments)
DItem(f, fs, depth) == [op |-> "f", f |-> f, fs |-> fs, depth |-> depth]
RetItem(kind, saved) == [op |-> "ret", kind |-> kind, saved |-> saved]      \* return from a sub-dissector
DItems(P, fs, depth) == [i \in 1..Len(fs) |-> DItem(Res(P, fs[i]), fs, depth)]

DInit == /\ Init
         /\ dtodo = <<>> /\ doff = 0 /\ adds = <<>> /\ subs = <<>> /\ dphase = "idle" /\ keys = <<>>
DPick == Pick /\ UNCHANGED dvars
DEnc == /\ Enc
        /\ dtodo' = DItems(prog, RootOf(prog), 0) /\ doff' = 0 /\ adds' = <<>> /\ subs' = <<>> /\ dphase' = "run" /\ keys' = <<>>

At(n) == SubSeq(buf, doff + 1, doff + n)
Add(f, n) == adds' = Append(adds, [name |-> f.name, off |-> doff, len |-> n])
\* the key as the dissector holds it: a fixed string is stripped of its padding before the comparison
KeyOfField(f, raw) == IF f.k = "fix" THEN LET pd == PadOf(prog, f) IN Trim(raw, pd.b, pd.left) ELSE raw
IsKeyField(f, fs) == \E i \in 1..Len(fs) : fs[i].k = "match" /\ fs[i].key = f.name

\* enter a sub-dissector for packet fields `sub`
Enter(sub, kind, rest, depth) ==
  /\ subs' = Append(subs, [off |-> doff, len |-> IF sub = <<>> /\ ~OneByteSubtree THEN 0 ELSE 1])
  /\ dtodo' = DItems(prog, sub, depth + 1) \o <<RetItem(kind, doff)>> \o rest
  /\ UNCHANGED <<doff, adds, keys>>

DStep ==
  /\ dphase = "run" /\ dtodo # <<>>
  /\ LET it == Head(dtodo) rest == Tail(dtodo) c == Cfg(prog) IN
     IF it.op = "ret"
     THEN \* the caller continues from the returned offset -- unless it drops it
          /\ doff' = (IF (it.kind = "obj" /\ DropOffsetAfterObject) \/ (it.kind = "match" /\ DropOffsetAfterMatch) THEN it.saved ELSE doff)
          /\ dtodo' = rest /\ UNCHANGED <<adds, subs, keys>>
     ELSE LET f == it.f IN
          IF f.rep
          THEN LET k == BEInt(Ord(c.le, At(c.ap))) IN
               /\ doff' = doff + c.ap
               /\ dtodo' = [x \in 1..k |-> DItem([f EXCEPT !.rep = FALSE], it.fs, it.depth)] \o rest
               /\ UNCHANGED <<adds, subs, keys>>
          ELSE CASE f.k \in {"int", "float", "char", "len", "ck"} ->
                      /\ Add(f, Width(f.ty)) /\ doff' = doff + Width(f.ty) /\ dtodo' = rest
                      /\ keys' = (IF IsKeyField(f, it.fs) THEN Append(keys, [d |-> it.depth, name |-> f.name, v |-> Ord(c.le, At(Width(f.ty)))]) ELSE keys)
                      /\ UNCHANGED subs
                 [] f.k = "fix" ->
                      /\ Add(f, f.n) /\ doff' = doff + f.n /\ dtodo' = rest
                      /\ keys' = (IF IsKeyField(f, it.fs) THEN Append(keys, [d |-> it.depth, name |-> f.name, v |-> KeyOfField(f, At(f.n))]) ELSE keys)
                      /\ UNCHANGED subs
                 [] f.k = "dyn" ->
                      LET n == BEInt(Ord(c.le, At(c.sp))) IN
                      /\ adds' = Append(adds, [name |-> f.name, off |-> doff + c.sp, len |-> n])
                      /\ doff' = doff + c.sp + n /\ dtodo' = rest
                      /\ keys' = (IF IsKeyField(f, it.fs) THEN Append(keys, [d |-> it.depth, name |-> f.name, v |-> SubSeq(buf, doff + c.sp + 1, doff + c.sp + n)]) ELSE keys)
                      /\ UNCHANGED subs
                 [] f.k = "obj" -> Enter(Pkt(prog, f.ty).fields, "obj", rest, it.depth)
                 [] f.k = "inl" -> Enter(f.fs, "obj", rest, it.depth)
                 [] OTHER ->       \* match: the most recent key local of that name in this dissector
                      LET ks == {i \in 1..Len(keys) : keys[i].d = it.depth /\ keys[i].name = f.key}
                          kv == keys[CHOOSE i \in ks : \A j \in ks : i >= j].v
                          target == Dispatch(f.pairs, kv) IN
                      IF target = "" THEN /\ dtodo' = rest /\ UNCHANGED <<doff, adds, subs, keys>>
                      ELSE Enter(Pkt(prog, target).fields, "match", rest, it.depth)
  /\ UNCHANGED <<vars, dphase>>

DFinish == dphase = "run" /\ dtodo = <<>> /\ dphase' = "done" /\ UNCHANGED <<vars, dtodo, doff, adds, subs, keys>>

DNext == DPick \/ DEnc \/ DStep \/ DFinish
DSpec == DInit /\ [][DNext]_alldvars

(* ------------------------------ properties ------------------------------ *)
DDone == dphase = "done" /\ Consistent(prog, msg)
BodySegs == SelectSeq(Segs, LAMBDA s : s.part = "body")
AttributesSegments == DDone =>
  /\ Len(adds) = Len(BodySegs)
  /\ \A i \in 1..Len(adds) : adds[i].name = BodySegs[i].name /\ adds[i].off = BodySegs[i].off /\ adds[i].len = BodySegs[i].len
EndsAtMessageEnd == DDone => doff = Len(buf)
\* a range may START at the end of the buffer only when it is empty
RangesInside == dphase # "idle" =>
  /\ \A i \in 1..Len(adds) : adds[i].off + adds[i].len <= Len(buf)
  /\ \A i \in 1..Len(subs) : subs[i].off + subs[i].len <= Len(buf)
OffsetMonotone == [][dphase = "run" /\ dphase' = "run" => doff' >= doff]_alldvars
=============================================================================
