----------------------------- MODULE TraceCodec -----------------------------
(***************************************************************************)
(* Validation of codec sessions recorded from the code fin-protoc EMITTED  *)
(* (built with the target toolchains against the reference runtimes)       *)
(* against Wire.tla.  One session per (program, message, language):        *)
(*                                                                         *)
(*   load   prog                    a program (abstract, as TLC emitted it)*)
(*   msg    id, pkt, val            the current logical message            *)
(*   ref    bytes                   harness reference encoder (untrusted)  *)
(*   enc    lang, ok, bytes, calcs  Encode(L, m)                           *)
(*   encinto lang, pre, rd, ok, bytes, calcs, prims                        *)
(*                                  Encode(L, m) into a USED buffer: it     *)
(*                                  already held the bytes pre, the first   *)
(*                                  rd of them consumed (WireMachine.tla)   *)
(*   dec    lang, from, tail, ok, val, consumed, reenc                     *)
(*                                  Decode(L, Layout ++ tail); Reencode(L) *)
(*   xdec   lang, from, ok, val     CrossDecode(L, from): L decodes the    *)
(*                                  bytes language `from` produced         *)
(*   deckey lang, bytes, outcome, consumed   DecodeUnknownKey(L)           *)
(*                                                                         *)
(* Trace actions are total.  A step the specification does not allow       *)
(* prints one VERDICT line listing every failed aspect; the harness maps   *)
(* aspects to properties (C01..C06) and cells.                             *)
(***************************************************************************)
EXTENDS Wire, Json

Trace == ndJsonDeserialize("trace.ndjson")

VARIABLES l, prog, cur, lay, nrm, encb, segs
vars == <<l, prog, cur, lay, nrm, encb, segs>>

Ev == Trace[l]
Is(e) == l <= Len(Trace) /\ Ev.ev = e
Langs == {"go", "rust", "java", "py", "cpp"}
NoProg == [opts |-> [le |-> "", sp |-> "", ap |-> "", padleft |-> "", padchar |-> ""], metas |-> <<>>, pkts |-> <<>>]
NoMsg == [id |-> "", pkt |-> "", val |-> [t |-> "o", fs |-> <<>>]]

Report(fails) == IF fails = <<>> THEN TRUE
                 ELSE PrintT(<<"VERDICT", ToJson([i |-> l, ev |-> Ev.ev, lang |-> Ev.lang, fails |-> fails])>>)

\* first leaf segment whose bytes differ between the expected layout and the observed bytes
Segs == segs      \* computed once per message (state variable)
Slice(bs, sg) == SubSeq(bs, sg.off + 1, IF sg.off + sg.len <= Len(bs) THEN sg.off + sg.len ELSE Len(bs))
FirstDiff(obs) ==
  LET bad == {i \in 1..Len(Segs) : Slice(obs, Segs[i]) # Slice(lay, Segs[i])} IN
  IF bad = {} THEN [name |-> "<length>", part |-> "tail", off |-> Len(lay)]
  ELSE LET i == CHOOSE i \in bad : \A j \in bad : i <= j IN [name |-> Segs[i].name, part |-> Segs[i].part, off |-> Segs[i].off]

\* first top-level field whose decoded value differs
FirstValDiff(val) ==
  LET fs == Pkt(prog, cur.pkt).fields
      n  == IF Len(val.fs) < Len(fs) THEN Len(val.fs) ELSE Len(fs)
      bad == {i \in 1..n : val.fs[i] # nrm.fs[i]} IN
  IF bad = {} THEN "<arity>" ELSE fs[CHOOSE i \in bad : \A j \in bad : i <= j].name

Init == segs = <<>> /\ l = 1 /\ prog = NoProg /\ cur = NoMsg /\ lay = <<>> /\ nrm = NoMsg.val /\ encb = [L \in Langs |-> <<-1>>]

Load == /\ Is("load") /\ prog' = Ev.prog /\ cur' = NoMsg /\ lay' = <<>> /\ nrm' = NoMsg.val
        /\ encb' = [L \in Langs |-> <<-1>>] /\ segs' = <<>> /\ l' = l + 1

Msg == /\ Is("msg")
       /\ cur' = [id |-> Ev.id, pkt |-> Ev.pkt, val |-> Ev.val]
       /\ lay' = Layout(prog, Ev.pkt, Ev.val)
       /\ nrm' = Norm(prog, Ev.pkt, Ev.val)
       /\ segs' = Segments(prog, Ev.pkt, Ev.val)
       /\ encb' = [L \in Langs |-> <<-1>>]
       /\ l' = l + 1 /\ UNCHANGED prog

\* the harness's own reference encoder is not trusted
Ref == /\ Is("ref")
       /\ IF Ev.bytes = lay THEN TRUE
          ELSE PrintT(<<"VERDICT", ToJson([i |-> l, ev |-> "ref", lang |-> "harness",
                          fails |-> <<[kind |-> "ref-differs", field |-> FirstDiff(Ev.bytes).name]>>])>>)
       /\ l' = l + 1 /\ UNCHANGED <<prog, cur, lay, nrm, encb, segs>>

\* Codec!Encode(L, m): bytes = Layout(p, m); the checksum service saw exactly the prefix
CalcOK == \A k \in 1..Len(Ev.calcs) :
            \E i \in 1..Len(Segs) : Segs[i].k = "ck" /\ Segs[i].off = Ev.calcs[k][1]
\* WireMachine view of one Encode (languages whose byte buffer is ours log every primitive):
\*   <<"append", pos, bytes>>  writes at the end of the buffer only (pos = bytes written so far)
\*   <<"set", pos, bytes>>     overwrites only a length-of field's placeholder, in its full width, inside
\*                             what is already written
\* and the primitives account for exactly the bytes returned
PrimsOK ==
  LET r == FoldLeft(LAMBDA acc, p :
             IF ~acc.ok THEN acc
             ELSE IF p[1] = "append" THEN [ok |-> p[2] = acc.n, n |-> acc.n + Len(p[3])]
             ELSE [ok |-> /\ p[2] + Len(p[3]) <= acc.n
                          /\ \E i \in 1..Len(Segs) : Segs[i].k = "len" /\ Segs[i].off = p[2] /\ Segs[i].len = Len(p[3]),
                   n |-> acc.n],
             [ok |-> TRUE, n |-> 0], Ev.prims) IN
  Ev.prims = <<>> \/ (r.ok /\ r.n = Len(Ev.bytes))

Enc == /\ Is("enc")
       /\ LET fails ==
              IF ~Ev.ok THEN <<[kind |-> Ev.cls, field |-> "-", part |-> "-"]>>
              ELSE (IF Ev.bytes = lay THEN <<>>
                    ELSE LET d == FirstDiff(Ev.bytes) IN <<[kind |-> "bytes-differ", field |-> d.name, part |-> d.part]>>)
                   \o (IF CalcOK THEN <<>> ELSE <<[kind |-> "checksum-coverage", field |-> "-", part |-> "-"]>>)
                   \o (IF PrimsOK THEN <<>> ELSE <<[kind |-> "buffer-discipline", field |-> "-", part |-> "-"]>>)
          IN Report(fails)
       /\ encb' = [encb EXCEPT ![Ev.lang] = IF Ev.ok THEN Ev.bytes ELSE <<-1>>]
       /\ l' = l + 1 /\ UNCHANGED <<prog, cur, lay, nrm, segs>>

\* Encode(L, m) into a USED buffer (WireMachine.tla, PreSet / ConsumeSome): the readable content afterwards is what
\* was left unread of `pre` followed by the message; length-of fields do not depend on where the message starts; a
\* registered checksum covers every byte that precedes it IN THE BUFFER.  Whether bytes a reader has already consumed
\* still "precede it in the buffer" is the buffer's business, not the generator's (netty keeps them, bytes.Buffer and
\* BytesMut drop them): both readings are accepted, they differ only when rd > 0 and a registered checksum exists.
Drop(bs, k) == SubSeq(bs, k + 1, Len(bs))
IntoFails ==
  LET fs   == Pkt(prog, cur.pkt).fields
      pre  == Ev.prebytes
      keep == Len(pre) - Ev.rd
      expA == Drop(EncFields(prog, fs, cur.val.fs, pre), Ev.rd)        \* consumed bytes are still in the buffer
      expB == EncFields(prog, fs, cur.val.fs, Drop(pre, Ev.rd))        \* consumed bytes are gone
      \* first leaf segment of the message part that matches neither reading
      bad  == {i \in 1..Len(Segs) : LET sg == [Segs[i] EXCEPT !.off = @ + keep] IN
                                      Slice(Ev.bytes, sg) # Slice(expA, sg) /\ Slice(Ev.bytes, sg) # Slice(expB, sg)}
      \* primitives: appends at the (physical or readable) end only, set only on a length placeholder in its full width
      base == {Len(pre), keep}
      prim == \E b0 \in base :
                LET r == FoldLeft(LAMBDA acc, p :
                           IF ~acc.ok THEN acc
                           ELSE IF p[1] = "append" THEN [ok |-> p[2] = acc.n, n |-> acc.n + Len(p[3])]
                           ELSE [ok |-> /\ p[2] + Len(p[3]) <= acc.n
                                        /\ \E i \in 1..Len(Segs) : Segs[i].k = "len" /\ Segs[i].off + b0 = p[2] /\ Segs[i].len = Len(p[3]),
                                 n |-> acc.n],
                           [ok |-> TRUE, n |-> b0], Ev.prims) IN
                r.ok /\ r.n - b0 = Len(lay)
      calc == \A k \in 1..Len(Ev.calcs) :
                \E i \in 1..Len(Segs) : Segs[i].k = "ck" /\ Ev.calcs[k][1] \in {Segs[i].off + b0 : b0 \in base} IN
  IF ~Ev.ok THEN <<[kind |-> Ev.cls, field |-> "-", part |-> "-"]>>
  ELSE (IF Ev.bytes = expA \/ Ev.bytes = expB THEN <<>>
        ELSE IF SubSeq(Ev.bytes, 1, keep) # Drop(pre, Ev.rd)
             THEN <<[kind |-> "into-earlier-bytes-changed", field |-> "-", part |-> "-"]>>
        ELSE IF bad = {} THEN <<[kind |-> "into-bytes-differ", field |-> "<length>", part |-> "tail"]>>
        ELSE LET i == CHOOSE i \in bad : \A j \in bad : i <= j IN
             <<[kind |-> "into-bytes-differ", field |-> Segs[i].name, part |-> Segs[i].part]>>)
       \o (IF calc THEN <<>> ELSE <<[kind |-> "into-checksum-coverage", field |-> "-", part |-> "-"]>>)
       \o (IF Ev.prims = <<>> \/ prim THEN <<>> ELSE <<[kind |-> "into-buffer-discipline", field |-> "-", part |-> "-"]>>)
EncInto == /\ Is("encinto")
           /\ Report(IntoFails)
           /\ l' = l + 1 /\ UNCHANGED <<prog, cur, lay, nrm, encb, segs>>

\* Codec!Decode(L, Layout ++ tail); Codec!Reencode(L)
Dec == /\ Is("dec")
       /\ LET fails ==
              IF ~Ev.ok THEN <<[kind |-> Ev.cls, field |-> "-"]>>
              ELSE (IF Ev.val = nrm THEN <<>> ELSE <<[kind |-> "value-differ", field |-> FirstValDiff(Ev.val)]>>)
                   \o (IF Ev.consumed = Len(lay) THEN <<>> ELSE <<[kind |-> "consumed-differ", field |-> "-"]>>)
                   \o (IF Ev.reenc = lay THEN <<>> ELSE <<[kind |-> "reencode-differ", field |-> FirstDiff(Ev.reenc).name]>>)
          IN Report(fails)
       /\ l' = l + 1 /\ UNCHANGED <<prog, cur, lay, nrm, encb, segs>>

\* Codec!CrossDecode(L2, L1): decoder L2 on the bytes encoder L1 really produced
XDec == /\ Is("xdec")
        /\ LET fails ==
               IF ~Ev.ok THEN <<[kind |-> Ev.cls, field |-> Ev.from]>>
               ELSE IF Ev.val = nrm THEN <<>> ELSE <<[kind |-> "cross-value-differ", field |-> Ev.from]>>
           IN Report(fails)
        /\ l' = l + 1 /\ UNCHANGED <<prog, cur, lay, nrm, encb, segs>>

\* Codec!DecodeUnknownKey(L): status = "error", nothing after the key's payload position is consumed
DecKey == /\ Is("deckey")
          /\ LET fails == IF Ev.outcome = "error" THEN <<>> ELSE <<[kind |-> "unknown-key-" \o Ev.outcome, field |-> "-"]>>
             IN Report(fails)
          /\ l' = l + 1 /\ UNCHANGED <<prog, cur, lay, nrm, encb, segs>>

\* all encoders that produced bytes agree (C03 matrix, encoder side), reported once per message
Agree == /\ Is("agree")
         /\ LET got == {L \in Langs : encb[L] # <<-1>>}
                \* the languages that drift: those that differ from the canonical layout while another
                \* language produced it; if nobody produced it, everybody who differs from somebody
                bad == IF \E M \in got : encb[M] = lay THEN {L \in got : encb[L] # lay}
                       ELSE {L \in got : \E M \in got : encb[L] # encb[M]} IN
            IF bad = {} THEN TRUE
            ELSE PrintT(<<"VERDICT", ToJson([i |-> l, ev |-> "agree", lang |-> "all", fails |-> <<[kind |-> "encoders-disagree", field |-> bad]>>])>>)
         /\ l' = l + 1 /\ UNCHANGED <<prog, cur, lay, nrm, encb, segs>>

Next == Load \/ Msg \/ Ref \/ Enc \/ EncInto \/ Dec \/ XDec \/ DecKey \/ Agree
Spec == Init /\ [][Next]_vars
Accepted == TLCGet("stats").diameter = Len(Trace) + 1
=============================================================================
