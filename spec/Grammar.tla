------------------------------- MODULE Grammar -------------------------------
(***************************************************************************)
(* PacketDSL as a RECOGNISER over token-type sequences, transcribed from   *)
(* grammar/PacketDsl.g4 rule by rule.  It is the independent oracle for    *)
(* "syntactically valid" used by C09 / C11 / C16: the formatter and the    *)
(* compiler must accept exactly the texts whose token sequence this        *)
(* recogniser accepts (a text with a character no token matches is invalid *)
(* before it gets here).  The WHOLE input must be derived: the language of *)
(* a file is  (packetDefinition | metaDataDefinition | optionDefinition)*  *)
(* followed by the end of input.                                           *)
(*                                                                         *)
(* Technique: every rule is an operator from a SET of start positions to   *)
(* the set of positions where a derivation of the rule can end (so         *)
(* alternatives and optional elements need no backtracking); repetition is *)
(* a least fixed point.  Recursion depth = nesting depth of inline objects *)
(* + number of iterations of a repetition that still find new positions.   *)
(* Token types are the names harness/dsltok.py gives them (grammar names   *)
(* for lexer rules, quoted text for literal tokens).                       *)
(***************************************************************************)
EXTENDS Integers, Sequences, FiniteSets, TLC

BasicTypes == {"CHAR", "UINT8", "UINT16", "UINT32", "UINT64", "INT8", "INT16", "INT32", "INT64", "FLOAT32", "FLOAT64"}

\* all operators below are relative to one token sequence ts
Tok(ts, t, I) == {i + 1 : i \in {i \in I : i <= Len(ts) /\ ts[i] = t}}
TokIn(ts, T, I) == {i + 1 : i \in {i \in I : i <= Len(ts) /\ ts[i] \in T}}

\* type: basicType | 'char[' DIGITS ']' | 'zchar[' DIGITS ']' | 'string' | 'char[]'
Type(ts, I) == TokIn(ts, BasicTypes \cup {"'string'", "'char[]'"}, I)
               \cup Tok(ts, "']'", Tok(ts, "DIGITS", TokIn(ts, {"'char['", "'zchar['"}, I)))
\* value: type | STRING | DIGITS | PADDING_CHAR | 'true' | 'false'
Value(ts, I) == Type(ts, I) \cup TokIn(ts, {"STRING", "DIGITS", "PADDING_CHAR", "'true'", "'false'"}, I)
OptTok(ts, t, I) == I \cup Tok(ts, t, I)

\* attributes
LengthOfAttr(ts, I) == Tok(ts, "')'", Tok(ts, "IDENTIFIER", Tok(ts, "'@lengthOf('", I)))
CalcFromAttr(ts, I) == Tok(ts, "')'", Tok(ts, "STRING", Tok(ts, "'@calculatedFrom('", I)))
TagAttr(ts, I) == Tok(ts, "')'", Tok(ts, "DIGITS", Tok(ts, "'@tag('", I)))
PaddingAttr(ts, I) == Tok(ts, "')'", OptTok(ts, "PADDING_CHAR", Tok(ts, "'('", Tok(ts, "PADDING_ATTR", I))))
FieldAttr(ts, I) == LengthOfAttr(ts, I) \cup CalcFromAttr(ts, I) \cup TagAttr(ts, I) \cup PaddingAttr(ts, I)

\* least fixed points of the repetitions
RECURSIVE AttrStar(_, _, _)
AttrStar(ts, I, acc) == LET new == FieldAttr(ts, I) \ acc IN IF new = {} THEN acc ELSE AttrStar(ts, new, acc \cup new)

\* metaDataDeclaration: type IDENTIFIER STRING_LITERAL? COMMA
MetaDecl(ts, I) == Tok(ts, "COMMA", OptTok(ts, "STRING_LITERAL", Tok(ts, "IDENTIFIER", Type(ts, I))))
\* refMetaDataDeclaration: IDENTIFIER IDENTIFIER STRING_LITERAL? COMMA
RefMetaDecl(ts, I) == Tok(ts, "COMMA", OptTok(ts, "STRING_LITERAL", Tok(ts, "IDENTIFIER", Tok(ts, "IDENTIFIER", I))))
\* lengthFieldDeclaration: type? IDENTIFIER lengthOfAttribute STRING_LITERAL? COMMA       (checksum alike)
LengthDecl(ts, I) == Tok(ts, "COMMA", OptTok(ts, "STRING_LITERAL", LengthOfAttr(ts, Tok(ts, "IDENTIFIER", I \cup Type(ts, I)))))
CheckSumDecl(ts, I) == Tok(ts, "COMMA", OptTok(ts, "STRING_LITERAL", CalcFromAttr(ts, Tok(ts, "IDENTIFIER", I \cup Type(ts, I)))))

\* list: '[' (DIGITS | STRING) (COMMA (DIGITS | STRING))* ']'
KeyLit(ts, I) == TokIn(ts, {"DIGITS", "STRING"}, I)
RECURSIVE ListTail(_, _, _)
ListTail(ts, I, acc) == LET new == KeyLit(ts, Tok(ts, "COMMA", I)) \ acc IN IF new = {} THEN acc ELSE ListTail(ts, new, acc \cup new)
List(ts, I) == LET first == KeyLit(ts, Tok(ts, "'['", I)) IN Tok(ts, "']'", ListTail(ts, first, first))
\* matchPair: (DIGITS | STRING | list) COLON IDENTIFIER COMMA?
MatchPair(ts, I) == OptTok(ts, "COMMA", Tok(ts, "IDENTIFIER", Tok(ts, "COLON", KeyLit(ts, I) \cup List(ts, I))))
RECURSIVE PairStar(_, _, _)
PairStar(ts, I, acc) == LET new == MatchPair(ts, I) \ acc IN IF new = {} THEN acc ELSE PairStar(ts, new, acc \cup new)
\* matchFieldDeclaration: MATCH IDENTIFIER 'as' IDENTIFIER '{' matchPair+ '}'
MatchDecl(ts, I) == LET open == Tok(ts, "'{'", Tok(ts, "IDENTIFIER", Tok(ts, "'as'", Tok(ts, "IDENTIFIER", Tok(ts, "MATCH", I)))))
                        one == MatchPair(ts, open) IN
                    Tok(ts, "'}'", PairStar(ts, one, one))

\* fieldDefinition (mutually recursive with the inline object)
RECURSIVE FieldDef(_, _), FieldDefPlus(_, _, _)
OptRepeat(ts, I) == OptTok(ts, "REPEAT", I)
\* inerObjectDeclaration: IDENTIFIER '{' fieldDefinition+ '}'
InerObject(ts, I) == LET open == Tok(ts, "'{'", Tok(ts, "IDENTIFIER", I))
                         one == FieldDef(ts, open) IN
                     IF open = {} THEN {} ELSE Tok(ts, "'}'", FieldDefPlus(ts, one, one))
FieldDef(ts, I) ==
  IF I = {} THEN {} ELSE
       Tok(ts, "COMMA", InerObject(ts, OptRepeat(ts, I)))                                                        \* InerObjectField
  \cup MetaDecl(ts, OptRepeat(ts, I))                                                                             \* MetaField
  \cup Tok(ts, "COMMA", OptTok(ts, "STRING_LITERAL", OptTok(ts, "IDENTIFIER", Tok(ts, "IDENTIFIER", OptRepeat(ts, I)))))  \* ObjectField
  \cup LengthDecl(ts, I)
  \cup CheckSumDecl(ts, I)
  \cup Tok(ts, "COMMA", MatchDecl(ts, I))
FieldDefPlus(ts, I, acc) == LET new == FieldDef(ts, I) \ acc IN IF new = {} THEN acc ELSE FieldDefPlus(ts, new, acc \cup new)

\* fieldDefinitionWithAttribute: fieldAttribute* fieldDefinition
FieldWithAttr(ts, I) == FieldDef(ts, AttrStar(ts, I, I))
RECURSIVE FieldWAStar(_, _, _)
FieldWAStar(ts, I, acc) == LET new == FieldWithAttr(ts, I) \ acc IN IF new = {} THEN acc ELSE FieldWAStar(ts, new, acc \cup new)

\* packetDefinition: ROOT? PACKET IDENTIFIER '{' fieldDefinitionWithAttribute* '}'
PacketDef(ts, I) == LET open == Tok(ts, "'{'", Tok(ts, "IDENTIFIER", Tok(ts, "PACKET", OptTok(ts, "ROOT", I)))) IN
                    Tok(ts, "'}'", FieldWAStar(ts, open, open))
\* metaDataDefinition: METADATA IDENTIFIER '{' (metaDataDeclaration | refMetaDataDeclaration)* '}'
RECURSIVE MetaStar(_, _, _)
MetaStar(ts, I, acc) == LET new == (MetaDecl(ts, I) \cup RefMetaDecl(ts, I)) \ acc IN IF new = {} THEN acc ELSE MetaStar(ts, new, acc \cup new)
MetaDef(ts, I) == LET open == Tok(ts, "'{'", Tok(ts, "IDENTIFIER", Tok(ts, "METADATA", I))) IN Tok(ts, "'}'", MetaStar(ts, open, open))
\* optionDefinition: 'options' '{' optionDeclaration* '}' ;  optionDeclaration: IDENTIFIER '=' value SEMICOLON?
OptionDecl(ts, I) == OptTok(ts, "SEMICOLON", Value(ts, Tok(ts, "'='", Tok(ts, "IDENTIFIER", I))))
RECURSIVE OptionStar(_, _, _)
OptionStar(ts, I, acc) == LET new == OptionDecl(ts, I) \ acc IN IF new = {} THEN acc ELSE OptionStar(ts, new, acc \cup new)
OptionDef(ts, I) == LET open == Tok(ts, "'{'", Tok(ts, "'options'", I)) IN Tok(ts, "'}'", OptionStar(ts, open, open))

\* packet: (packetDefinition | metaDataDefinition | optionDefinition)*   -- and then the input ends
RECURSIVE DefStar(_, _, _)
DefStar(ts, I, acc) == LET new == (PacketDef(ts, I) \cup MetaDef(ts, I) \cup OptionDef(ts, I)) \ acc IN
                       IF new = {} THEN acc ELSE DefStar(ts, new, acc \cup new)
Accepts(ts) == (Len(ts) + 1) \in DefStar(ts, {1}, {1})
=============================================================================
