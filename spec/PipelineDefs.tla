---------------------------- MODULE PipelineDefs ----------------------------
(* Shared vocabulary of Pipeline.tla (design model) and TracePipeline.tla  *)
(* (validation of histories recorded from the real generators).            *)
EXTENDS Integers, Sequences, FiniteSets, TLC

Langs == {"lua", "rust", "go", "java", "py", "cpp"}
Codec == Langs \ {"lua"}

(* literal forms a PadChar string takes in the implementation             *)
(*   SP '<space>'  ZERO '0'  RAW '<NUL byte>'  ESCX '\x00' (4 chars)       *)
(*   ESC0 '\0'     ESCU '\u0000'                                           *)
Forms == {"SP", "ZERO", "RAW", "ESCX", "ESC0", "ESCU"}
ParsedForms == {"SP", "ZERO", "RAW"}      \* what the parser can produce

(* per-target normalisation, transcribed from the six GetPadding()         *)
Norm(L, f) ==
  CASE L \in {"go", "py"}    -> IF f \in {"RAW", "ESCX"} THEN "ESCX" ELSE f
    [] L = "java"            -> IF f \in {"RAW", "ESCX"} THEN "ESC0" ELSE f
    [] L \in {"rust", "cpp"} -> IF f \in {"ESCX", "ESCU"} THEN "ESC0" ELSE f
    [] OTHER                 -> f
=============================================================================
