----------------------------- MODULE WireMachine -----------------------------
(***************************************************************************)
(* The OPERATIONAL encoder: a cursor walking a work list, the way all five *)
(* emitted encoders are built (DESIGN 3.6):                                *)
(*   scalars / fixed strings / string prefix + body are appended;          *)
(*   a repeated field appends its count and then its elements;             *)
(*   an object / inline object / match payload is entered (its fields are  *)
(*   pushed on the work list);                                             *)
(*   a length-of field appends a zero PLACEHOLDER and remembers where;     *)
(*   when its target has been written the placeholder is BACK-PATCHED with *)
(*   the number of bytes written since the target began;                   *)
(*   a checksum field reads the whole buffer written so far.               *)
(* The machine also produces the primitive trace (append / set / calc) the *)
(* byte buffers of the Python, Java and C++ reference runtimes log, so the *)
(* discipline TraceCodec!PrimsOK demands of recorded encodes is proved     *)
(* here for the design.                                                    *)
(* TLC checks, for every program and message of the MCWire universe:       *)
(*   Refines                buf = Wire!Layout at the end                   *)
(*   AppendOnlyExceptPatch  a written byte changes only inside the length  *)
(*                          placeholder, exactly once, after the target    *)
(*   ChecksumSeesPrefix     every calc covers exactly the bytes before it  *)
(*   PrimsDiscipline        the produced primitive trace satisfies PrimsOK *)
(*                                                                         *)
(* USED BUFFERS.  The output buffer need not be fresh: it may already hold *)
(* bytes `pre` (an earlier message, a frame header), of which the first    *)
(* `rd` have been consumed by a reader.  The machine starts on such a      *)
(* buffer (PreSet, ConsumeSome) and addresses it PHYSICALLY: the remembered*)
(* placeholder position and the back-patch are indices into the whole      *)
(* buffer, consumed bytes included (netty ByteBuf, the Python / C++        *)
(* buffers).  A buffer that DROPS consumed bytes (Go bytes.Buffer, Rust    *)
(* BytesMut) is the same machine started on pre = Drop(pre, rd), rd = 0.   *)
(* Refines then reads: the buffer ends as EncFields(.., pre): the bytes    *)
(* before the message untouched, the length field = the target's bytes     *)
(* wherever the message starts, a checksum = Alg over EVERY byte that      *)
(* precedes it in the buffer (C06: "the bytes that precede it in the       *)
(* output buffer").  Deviation switch PosFromReadable: the placeholder     *)
(* position is taken from the READABLE byte count while the patch is an    *)
(* absolute write - right only while nothing has been consumed.            *)
(***************************************************************************)
EXTENDS MCWire

\* deviation switch (off in the design): measure the target from the end of the placeholder instead of from
\* where the target begins -- right only when the target directly follows the length field
CONSTANT MeasureFromPlaceholder
\* used-buffer histories: the contents the output buffer may already hold; whether a reader has consumed part of it
CONSTANTS PreSet, ConsumeSome,
          PosFromReadable      \* deviation switch (off in the design)

\* quick configuration of the used-buffer histories: only the option facet that matters here (byte order)
OptSetsBO == { [le |-> le, sp |-> "", ap |-> "", padleft |-> "", padchar |-> ""] : le \in {"", "true"} }
PreNone == {<<>>}                          \* a fresh buffer only
PreSome == {<<>>, <<7, 8, 9, 10>>}         \* ... or one that already holds four bytes

VARIABLES todo, wbuf, lenPos, lenW, tgtStart, patched, prims, wphase, pre, rd
mvars == <<todo, wbuf, lenPos, lenW, tgtStart, patched, prims, wphase, pre, rd>>
allvars == <<vars, mvars>>

\* work items
FieldItem(f, v, ctx, tgt) == [op |-> "f", f |-> f, v |-> v, ctx |-> ctx, tgt |-> tgt]
BytesItem(bs) == [op |-> "bytes", bs |-> bs]
PatchItem == [op |-> "patch"]
LenTarget(fs) == IF \E i \in 1..Len(fs) : fs[i].k = "len"
                 THEN FieldIndex(fs, fs[CHOOSE i \in 1..Len(fs) : fs[i].k = "len"].tgt) ELSE 0
Items(P, fs, vs, isroot) ==
  [i \in 1..Len(fs) |-> FieldItem(Res(P, fs[i]), vs[i], [fs |-> fs, vs |-> vs], isroot /\ i = LenTarget(fs))]

MInit == /\ Init
         /\ pre \in PreSet /\ rd \in {0} \cup (IF ConsumeSome THEN {Len(pre) \div 2, Len(pre)} ELSE {})
         /\ todo = <<>> /\ wbuf = pre /\ lenPos = 0 /\ lenW = 0 /\ tgtStart = 0 /\ patched = FALSE /\ prims = <<>>
         /\ wphase = "idle"

\* the abstract Pick / Enc steps of MCWire choose the message and compute the declarative layout
MPick == Pick /\ UNCHANGED mvars
MEnc == /\ Enc
        /\ todo' = Items(prog, RootOf(prog), msg, TRUE) /\ wphase' = "run"
        /\ UNCHANGED <<wbuf, lenPos, lenW, tgtStart, patched, prims, pre, rd>>

App(bs) == /\ wbuf' = wbuf \o bs
           /\ prims' = IF bs = <<>> THEN prims ELSE Append(prims, <<"append", Len(wbuf), bs>>)

Step ==
  /\ wphase = "run" /\ todo # <<>>
  /\ LET it == Head(todo) rest == Tail(todo) c == Cfg(prog) IN
     CASE it.op = "bytes" ->
            /\ App(it.bs) /\ todo' = rest /\ UNCHANGED <<lenPos, lenW, tgtStart, patched>>
       [] it.op = "patch" ->                                   \* TargetEnd; Backpatch
            LET val == Ord(c.le, IntBE(Len(wbuf) - tgtStart, lenW)) IN
            /\ wbuf' = [j \in 1..Len(wbuf) |-> IF j >= lenPos /\ j < lenPos + lenW THEN val[j - lenPos + 1] ELSE wbuf[j]]
            /\ prims' = Append(prims, <<"set", lenPos - 1, val>>)
            /\ patched' = TRUE /\ todo' = rest /\ UNCHANGED <<lenPos, lenW, tgtStart>>
       [] OTHER ->
            LET f == it.f v == it.v IN
            IF f.rep /\ v.t = "l"
            THEN \* EncListPrefix, then one item per element
                 /\ App(Ord(c.le, IntBE(Len(v.xs), c.ap)))
                 /\ todo' = [i \in 1..Len(v.xs) |-> FieldItem([f EXCEPT !.rep = FALSE], v.xs[i], it.ctx, FALSE)] \o rest
                 /\ UNCHANGED <<lenPos, lenW, tgtStart, patched>>
            ELSE CASE f.k \in {"int", "float", "char"} ->
                        /\ App(Ord(c.le, v.b)) /\ todo' = rest /\ UNCHANGED <<lenPos, lenW, tgtStart, patched>>
                   [] f.k = "fix" ->
                        /\ App(Padded(prog, f, v.b)) /\ todo' = rest /\ UNCHANGED <<lenPos, lenW, tgtStart, patched>>
                   [] f.k = "dyn" ->                               \* EncDynPrefix now, EncDynBody next
                        /\ App(Ord(c.le, IntBE(Len(v.b), c.sp))) /\ todo' = <<BytesItem(v.b)>> \o rest
                        /\ UNCHANGED <<lenPos, lenW, tgtStart, patched>>
                   [] f.k = "len" ->                               \* EncLenPlaceholder
                        /\ lenPos' = (IF PosFromReadable THEN Len(wbuf) - rd ELSE Len(wbuf)) + 1 /\ lenW' = Width(f.ty)
                        /\ App(Rep(0, Width(f.ty))) /\ todo' = rest /\ UNCHANGED <<tgtStart, patched>>
                   [] f.k = "ck" ->                                \* EncChecksum: reads the prefix written so far
                        LET w == Width(f.ty) IN
                        /\ IF Registered(f.alg, w)
                           THEN /\ wbuf' = wbuf \o Ord(c.le, IntBE(Alg(wbuf, w), w))
                                /\ prims' = prims \o << <<"calc", Len(wbuf), <<>> >>, <<"append", Len(wbuf), Ord(c.le, IntBE(Alg(wbuf, w), w))>> >>
                           ELSE App(Ord(c.le, v.b))
                        /\ todo' = rest /\ UNCHANGED <<lenPos, lenW, tgtStart, patched>>
                   [] OTHER ->                                      \* EnterObj / EnterMatch (TargetBegin when it is the target)
                        LET sub == CASE f.k = "obj" -> Pkt(prog, f.ty).fields
                                     [] f.k = "inl" -> f.fs
                                     [] OTHER -> Pkt(prog, v.pkt).fields IN
                        /\ todo' = Items(prog, sub, v.fs, FALSE) \o (IF it.tgt THEN <<PatchItem>> ELSE <<>>) \o rest
                        /\ tgtStart' = IF it.tgt THEN (IF MeasureFromPlaceholder THEN lenPos + lenW - 1 ELSE Len(wbuf)) ELSE tgtStart
                        /\ UNCHANGED <<wbuf, prims, lenPos, lenW, patched>>
  /\ UNCHANGED <<vars, wphase, pre, rd>>

Finish == wphase = "run" /\ todo = <<>> /\ wphase' = "done" /\ UNCHANGED <<vars, todo, wbuf, lenPos, lenW, tgtStart, patched, prims, pre, rd>>

MNext == MPick \/ MEnc \/ Step \/ Finish
MSpec == MInit /\ [][MNext]_allvars

(* ------------------------------ properties ------------------------------ *)
\* on a fresh buffer this is wbuf = buf (= Wire!Layout); on a used one the earlier bytes stay and count for checksums
Refines == wphase = "done" => /\ wbuf = EncFields(prog, RootOf(prog), msg, pre)
                              /\ (pre = <<>> => wbuf = buf)
\* the bytes the buffer held before the encode are never touched, consumed or not
PreUntouched == SubSeq(wbuf, 1, Len(pre)) = pre
\* length-of is position independent: the message part differs from the fresh-buffer layout only in checksum fields
OnlyChecksumsSeePre ==
  wphase = "done" =>
    \A i \in 1..Len(Segs) : Segs[i].k # "ck" =>
       SubSeq(wbuf, Len(pre) + Segs[i].off + 1, Len(pre) + Segs[i].off + Segs[i].len) = Bytes(Segs[i])
AppendOnlyExceptPatch ==
  [][ /\ Len(wbuf') >= Len(wbuf)
      /\ \A j \in 1..Len(wbuf) : wbuf'[j] # wbuf[j] => (j >= lenPos /\ j < lenPos + lenW /\ ~patched /\ patched') ]_allvars
ChecksumSeesPrefix ==
  wphase = "done" => \A k \in 1..Len(prims) : prims[k][1] = "calc" =>
       \E i \in 1..Len(Segs) : Segs[i].k = "ck" /\ Segs[i].off + Len(pre) = prims[k][2]
\* TraceCodec!PrimsOK on the machine's own trace
PrimsDiscipline ==
  wphase = "done" =>
    LET r == FoldLeft(LAMBDA acc, p :
               IF ~acc.ok \/ p[1] = "calc" THEN acc
               ELSE IF p[1] = "append" THEN [ok |-> p[2] = acc.n, n |-> acc.n + Len(p[3])]
               ELSE [ok |-> /\ p[2] + Len(p[3]) <= acc.n
                            /\ \E i \in 1..Len(Segs) : Segs[i].k = "len" /\ Segs[i].off + Len(pre) = p[2] /\ Segs[i].len = Len(p[3]),
                     n |-> acc.n],
               [ok |-> TRUE, n |-> Len(pre)], prims) IN
    r.ok /\ r.n = Len(wbuf)
\* the placeholder is patched exactly when there is a length-of field
PatchedIffLen == wphase = "done" => (patched <=> HasField("L"))
=============================================================================
