-------------------------------- MODULE Model --------------------------------
(***************************************************************************)
(* The FRONT END as a function: which BinaryModel the compiler must build  *)
(* for a program.  A program is the abstract record of DslGen.tla /        *)
(* harness/PROTOCOL.md (options, MetaData entries, packets, fields by      *)
(* kind); ModelOf(P, L) is the projection of internal/model.BinaryModel    *)
(* the overlay driver prints (`models`): configuration with its defaults,  *)
(* the MetaData map with references resolved, the packets in declaration   *)
(* order, every field with its RESOLVED attribute (MetaData-typed fields   *)
(* take the attribute of their entry, a padding attribute replaces only    *)
(* the padding of that one field), match tables with list keys expanded,   *)
(* the length field linked to its target, the line of every declaration.   *)
(*                                                                         *)
(* It is the positive half of Validate.tla (which says when a program is   *)
(* rejected and where): TraceModel.tla checks  dump = ModelOf(prog)  for   *)
(* every program DslGen enumerates, so a front-end change is located in    *)
(* the model itself, before any of the six generators runs.                *)
(*                                                                         *)
(* Deliberate peculiarities of the implementation that the specification   *)
(* states rather than hides (each is visible to a generator):              *)
(*   - a match field has Line 0 (pinned by TestParseMatchField);           *)
(*   - the configuration keeps the pad character as the option TEXT        *)
(*     ('\x00' stays four characters), a field keeps the character itself; *)
(*   - the algorithm name of a checksum keeps its quotes;                  *)
(*   - the packet of an inline object has no field map.                    *)
(***************************************************************************)
EXTENDS Integers, Sequences, FiniteSets, TLC

Nul == "<NUL>"       \* how the driver prints the character NUL inside a pad text
PadForm(p) ==
  CASE p = "none" -> "nil"
    [] p = "z"    -> "R'" \o Nul \o "'"
    [] p = "l0"   -> "L'0'"
    [] p = "lsp"  -> "L' '"
    [] p = "lnul" -> "L'" \o Nul \o "'"
    [] p = "ldef" -> "L' '"
    [] p = "r0"   -> "R'0'"
    [] p = "rsp"  -> "R' '"
    [] p = "rnul" -> "R'" \o Nul \o "'"
    [] p = "rdef" -> "R' '"

(* ------------------------------ configuration --------------------------- *)
OptPadChar(c) == CASE c = "0" -> "'0'" [] c = "sp" -> "' '" [] c = "nul" -> "'\\x00'" [] OTHER -> "' '"
ConfigOf(o) ==
  [ap |-> IF o.ap = "" THEN "u16" ELSE o.ap,
   sp |-> IF o.sp = "" THEN "u16" ELSE o.sp,
   le |-> o.le = "true",
   pad |-> (IF o.padleft = "true" THEN "L" ELSE "R") \o OptPadChar(o.padchar),
   gopkg |-> IF o.pkgs = "omit" THEN "" ELSE "msg",
   gomod |-> IF o.pkgs = "omit" THEN "" ELSE "example.com/msg",
   javapkg |-> IF o.pkgs = "omit" THEN "" ELSE "com.x.y"]

(* -------------------------------- MetaData ------------------------------ *)
MetaIdx(P, name) == CHOOSE j \in 1..Len(P.metas) : P.metas[j].name = name
\* a reference entry takes the attribute of the entry it names (one level: the grammar has no chains the
\* generator uses; a chain resolves step by step in declaration order all the same)
RECURSIVE MetaRes(_, _)
MetaRes(P, name) == LET e == P.metas[MetaIdx(P, name)] IN IF e.ref = "" THEN e ELSE MetaRes(P, e.ref)
AttrOfEntry(e) ==
  CASE e.k \in {"int", "float", "char"} -> [kind |-> "basic", ty |-> e.ty, n |-> 0, pad |-> "-"]
    [] e.k = "fix" -> [kind |-> "fix", ty |-> "string", n |-> e.n, pad |-> PadForm(e.pad)]
    [] e.k = "dyn" -> [kind |-> "dyn", ty |-> "string", n |-> 0, pad |-> "-"]
MetaM(P, j, line) == LET e == P.metas[j] a == AttrOfEntry(MetaRes(P, e.name)) IN
  [name |-> e.name, kind |-> a.kind, ty |-> a.ty, n |-> a.n, pad |-> a.pad, desc |-> "`" \o e.doc \o "`", line |-> line]

(* --------------------------------- fields ------------------------------- *)
FM0 == [name |-> "", kind |-> "", ty |-> "", rep |-> FALSE, n |-> 0, pad |-> "-", pkt |-> "", fs |-> <<>>, key |-> "",
        keyty |-> "", pairs |-> <<>>, tgt |-> "", alg |-> "", len |-> "", doc |-> "", tag |-> 0, line |-> 0]

\* how many lines the canonical rendering gives a field (dsl.render_field)
RECURSIVE Span(_), SpanAll(_)
Span(f) == CASE f.k = "inl" -> 2 + SpanAll(f.fs)
             [] f.k = "match" -> 2 + Len(f.pairs)
             [] OTHER -> 1
SpanAll(fs) == IF fs = <<>> THEN 0 ELSE Span(Head(fs)) + SpanAll(Tail(fs))
LineOf(fs, i, first) == first + SpanAll(SubSeq(fs, 1, i - 1))

\* the type a generator sees for a key field
TypeOfField(P, f) ==
  CASE f.k \in {"int", "float", "char", "len", "ck"} -> f.ty
    [] f.k \in {"fix", "dyn"} -> "string"
    [] f.k = "meta" -> AttrOfEntry(MetaRes(P, f.ty)).ty
    [] f.k \in {"obj", "inl"} -> IF f.k = "obj" THEN f.ty ELSE f.name
    [] OTHER -> "match"
FieldNamed(fs, name) == fs[CHOOSE i \in 1..Len(fs) : fs[i].name = name]

\* list keys are expanded in place: one pair per literal
RECURSIVE Expand(_)
Expand(pairs) == IF pairs = <<>> THEN <<>> ELSE
  [q \in 1..Len(Head(pairs).lits) |-> <<Head(pairs).lits[q], Head(pairs).pkt>>] \o Expand(Tail(pairs))

RECURSIVE FieldM(_, _, _, _, _), FieldsM(_, _, _, _)
\* fs: the sibling fields (scope of a match key / length target), top: TRUE for the fields of a root packet
FieldM(P, fs, i, first, top) ==
  LET f == fs[i] line == LineOf(fs, i, first)
      base == [FM0 EXCEPT !.name = f.name, !.rep = f.rep, !.line = line]
      isTarget == top /\ \E j \in 1..Len(fs) : fs[j].k = "len" /\ fs[j].tgt = f.name
      withLen == [base EXCEPT !.len = IF isTarget THEN "measured" ELSE ""] IN
  CASE f.k \in {"int", "float", "char"} -> [withLen EXCEPT !.kind = "basic", !.ty = f.ty]
    [] f.k = "fix" -> [withLen EXCEPT !.kind = "fix", !.ty = "string", !.n = f.n, !.pad = PadForm(f.pad)]
    [] f.k = "dyn" -> [withLen EXCEPT !.kind = "dyn", !.ty = "string"]
    [] f.k = "obj" -> [withLen EXCEPT !.kind = "obj", !.ty = f.ty, !.pkt = f.ty]
    [] f.k = "meta" -> LET a == AttrOfEntry(MetaRes(P, f.ty)) IN
                       [withLen EXCEPT !.kind = a.kind, !.ty = a.ty, !.n = a.n,
                                       !.pad = IF a.kind = "fix" /\ f.pad # "none" THEN PadForm(f.pad) ELSE a.pad]
    [] f.k = "inl" -> [withLen EXCEPT !.kind = "inl", !.ty = f.name, !.pkt = f.name, !.fs = FieldsM(P, f.fs, line + 1, FALSE)]
    [] f.k = "match" -> [withLen EXCEPT !.kind = "match", !.key = f.key, !.keyty = TypeOfField(P, FieldNamed(fs, f.key)),
                                        !.pairs = Expand(f.pairs), !.line = 0]
    [] f.k = "len" -> [base EXCEPT !.kind = "len", !.ty = f.ty, !.tgt = f.tgt, !.len = IF top THEN "is-length-field" ELSE ""]
    [] f.k = "ck" -> [withLen EXCEPT !.kind = "ck", !.ty = f.ty, !.alg = "\"" \o f.alg \o "\""]
FieldsM(P, fs, first, top) == [i \in 1..Len(fs) |-> FieldM(P, fs, i, first, top)]

(* --------------------------------- packets ------------------------------ *)
PktM(P, j, line) == LET p == P.pkts[j] IN
  [name |-> p.name, root |-> p.root, line |-> line,
   lenfld |-> IF p.root /\ \E i \in 1..Len(p.fields) : p.fields[i].k = "len"
              THEN p.fields[CHOOSE i \in 1..Len(p.fields) : p.fields[i].k = "len"].name ELSE "",
   fields |-> FieldsM(P, p.fields, line + 1, p.root),
   names |-> {p.fields[i].name : i \in 1..Len(p.fields)},
   match |-> {p.fields[i].key : i \in {i \in 1..Len(p.fields) : p.fields[i].k = "match"}}]

\* L: the lines of the top-level declarations in the rendered text: [pkts |-> <<..>>, metas |-> <<..>>]
ModelOf(P, L) ==
  [config |-> ConfigOf(P.opts),
   metas |-> {MetaM(P, j, L.metas[j]) : j \in 1..Len(P.metas)},
   pkts |-> [j \in 1..Len(P.pkts) |-> PktM(P, j, L.pkts[j])],
   root |-> P.pkts[CHOOSE j \in 1..Len(P.pkts) : P.pkts[j].root].name,
   pktnames |-> {P.pkts[j].name : j \in 1..Len(P.pkts)}]

(* ------------------- the dump, brought to the same shape ----------------- *)
Range(s) == {s[i] : i \in 1..Len(s)}
DumpShape(D) ==
  [config |-> D.config,
   metas |-> Range(D.metas),
   pkts |-> [j \in 1..Len(D.pkts) |-> [D.pkts[j] EXCEPT !.names = Range(@), !.match = Range(@)]],
   root |-> D.root,
   pktnames |-> Range(D.pktnames)]

\* where two models differ (for the verdict): component names, packet names, packet.field names
Diff(E, D) ==
     (IF E.config # D.config THEN {"config"} ELSE {})
\cup (IF E.metas # D.metas THEN {"metas"} ELSE {})
\cup (IF E.root # D.root THEN {"root"} ELSE {})
\cup (IF E.pktnames # D.pktnames THEN {"pktnames"} ELSE {})
\cup (IF Len(E.pkts) # Len(D.pkts) THEN {"packet-count"} ELSE
      UNION { LET e == E.pkts[j] d == D.pkts[j] IN
              IF e = d THEN {} ELSE
              IF [e EXCEPT !.fields = <<>>] # [d EXCEPT !.fields = <<>>] THEN {"packet:" \o e.name}
              ELSE IF Len(e.fields) # Len(d.fields) THEN {"field-count:" \o e.name}
              ELSE {e.name \o "." \o e.fields[i].name : i \in {i \in 1..Len(e.fields) : e.fields[i] # d.fields[i]}}
            : j \in 1..Len(E.pkts) })
=============================================================================
