SPECIFICATION Spec
CONSTANTS
  MaxCells = 1
  OptFacet = "few"
  CellFacet = {"scalar", "fix", "dyn", "obj", "meta", "match", "len", "ck"}
INVARIANTS Emit WellFormedGen
CHECK_DEADLOCK FALSE
