SPECIFICATION MSpec
CONSTANTS
  MaxFields = 1
  Shapes = {"S2"}
  OutOfDomain = FALSE
  MeasureFromPlaceholder = FALSE
  PreSet <- PreSome
  OptSets <- OptSetsBO
  ConsumeSome = TRUE
  PosFromReadable = FALSE
INVARIANTS Refines PreUntouched OnlyChecksumsSeePre ChecksumSeesPrefix PrimsDiscipline PatchedIffLen
PROPERTY AppendOnlyExceptPatch
CHECK_DEADLOCK FALSE
