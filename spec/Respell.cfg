SPECIFICATION RSpec
CONSTANTS
  MaxCells = 1
  OptFacet = "one"
  CellFacet = {"scalar", "fix", "dyn", "obj", "meta", "match", "len", "ck"}
INVARIANTS MeaningPreserved REmit
CHECK_DEADLOCK FALSE
