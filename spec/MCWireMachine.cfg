SPECIFICATION MSpec
CONSTANTS
  MaxFields = 1
  Shapes = {"S1", "S2"}
  OutOfDomain = FALSE
  MeasureFromPlaceholder = FALSE
INVARIANTS Refines ChecksumSeesPrefix PrimsDiscipline PatchedIffLen
PROPERTY AppendOnlyExceptPatch
CHECK_DEADLOCK FALSE
