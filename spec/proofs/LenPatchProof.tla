--------------------------- MODULE LenPatchProof ---------------------------
(***************************************************************************)
(* The TLAPS proof of what Apalache checks on LenPatchInd.tla: the         *)
(* back-patched length equals the number of bytes of its target in every   *)
(* reachable state of the design (MeasureFromPlaceholder = FALSE), for all *)
(* byte counts.  Checked with  tlapm --threads 16 LenPatchProof.tla.       *)
(***************************************************************************)
EXTENDS LenPatchInd, TLAPS

vars == <<n, lenPos, w, tgtStart, tgtEnd, val, pc>>
Spec == Init /\ [][Next]_vars

ASSUME Design == MeasureFromPlaceholder = FALSE

LEMMA InitInv == Init => IndInv
  BY DEF Init, IndInv, LenIsTargetBytes, Widths

LEMMA StepInv == IndInv /\ [Next]_vars => IndInv'
<1> SUFFICES ASSUME IndInv, [Next]_vars PROVE IndInv'
  OBVIOUS
<1>1. CASE WriteBefore
  BY <1>1 DEF WriteBefore, IndInv, LenIsTargetBytes, Widths
<1>2. CASE Placeholder
  BY <1>2 DEF Placeholder, IndInv, LenIsTargetBytes, Widths
<1>3. CASE Gap
  BY <1>3 DEF Gap, IndInv, LenIsTargetBytes, Widths
<1>4. CASE BeginTarget
  BY <1>4 DEF BeginTarget, IndInv, LenIsTargetBytes, Widths
<1>5. CASE WriteTarget
  BY <1>5 DEF WriteTarget, IndInv, LenIsTargetBytes, Widths
<1>6. CASE EndAndPatch
  BY <1>6, Design DEF EndAndPatch, IndInv, LenIsTargetBytes, Widths
<1>7. CASE WriteAfter
  BY <1>7 DEF WriteAfter, IndInv, LenIsTargetBytes, Widths
<1>8. CASE Finish
  BY <1>8 DEF Finish, IndInv, LenIsTargetBytes, Widths
<1>9. CASE UNCHANGED vars
  BY <1>9 DEF vars, IndInv, LenIsTargetBytes, Widths
<1> QED BY <1>1, <1>2, <1>3, <1>4, <1>5, <1>6, <1>7, <1>8, <1>9 DEF Next

THEOREM Safety == Spec => []LenIsTargetBytes
<1>1. IndInv => LenIsTargetBytes
  BY DEF IndInv
<1> QED BY InitInv, StepInv, <1>1, PTL DEF Spec
=============================================================================
