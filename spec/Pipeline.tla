------------------------------ MODULE Pipeline ------------------------------
(***************************************************************************)
(* The compile pipeline of fin-protoc over ONE shared, mutable model.      *)
(*                                                                         *)
(*   Parse -> Validate -> RunGen(L)* -> WriteFiles(L)* -> Build/SelfTest   *)
(*                                                                         *)
(* State that matters for C13 / C14 / C07 / C17 / C12(files) :             *)
(*   cell   the padding "cells" of the parsed model: every Padding object  *)
(*          (the configuration default, one per fixed-string field, one    *)
(*          per MetaData entry) holds the pad character as a *literal      *)
(*          form*; generators read them and print them into target code.   *)
(*   alias  which fields share one cell (a MetaData-typed field shares the *)
(*          MetaData entry's attribute object).                            *)
(*   out    per target language the emitted text, abstracted to            *)
(*          [pad  : what was printed for every cell,                       *)
(*           order: the order in which map-held packets were emitted]      *)
(*                                                                         *)
(* Deviations of the implementation from the design are named switches:    *)
(*   InPlaceNormalise  GetPadding() writes the target-specific literal     *)
(*                     back into the shared cell                           *)
(*   IterateMap        a Go `range` over a map decides emission order      *)
(* With the switches FALSE the invariants below are the design; with a     *)
(* switch TRUE, TLC's counterexample is the history replayed into the code.*)
(***************************************************************************)
EXTENDS PipelineDefs, Json

CONSTANTS InPlaceNormalise, IterateMap, NPackets

Cells == {"cfg", "f1", "meta"}

Perms == {p \in [1..NPackets -> 1..NPackets] : \A i, j \in 1..NPackets : i # j => p[i] # p[j]}
Canon == [i \in 1..NPackets |-> i]
UsesMapOrder(L) == L = "rust"            \* lib.rs / `use` lines range over maps

VARIABLES cell0, cell, out, ran, phase, diags, files, built, tested
vars == <<cell0, cell, out, ran, phase, diags, files, built, tested>>

Null == [pad |-> <<>>, order |-> <<>>]

Init == /\ cell0 \in [Cells -> ParsedForms]
        /\ cell = cell0
        /\ out = [L \in Langs |-> Null]
        /\ ran = <<>>
        /\ phase = "parsed"
        /\ diags \in BOOLEAN                 \* does validation find an offence?
        /\ files = {} /\ built = {} /\ tested = {}

Validate == /\ phase = "parsed"
            /\ phase' = IF diags THEN "rejected" ELSE "valid"
            /\ UNCHANGED <<cell0, cell, out, ran, diags, files, built, tested>>

Emitted(L, c, perm) == [pad |-> [k \in Cells |-> Norm(L, c[k])], order |-> perm]

RunGen(L) ==
  /\ phase = "valid"
  /\ out[L] = Null
  /\ \E perm \in (IF IterateMap /\ UsesMapOrder(L) THEN Perms ELSE {Canon}) :
        out' = [out EXCEPT ![L] = Emitted(L, cell, perm)]
  /\ cell' = IF InPlaceNormalise THEN [k \in Cells |-> Norm(L, cell[k])] ELSE cell
  /\ ran' = Append(ran, L)
  /\ UNCHANGED <<cell0, phase, diags, files, built, tested>>

WriteFiles(L) == /\ phase = "valid" /\ out[L] # Null /\ L \notin files
                 /\ files' = files \cup {L}
                 /\ UNCHANGED <<cell0, cell, out, ran, phase, diags, built, tested>>

Build(L) == /\ L \in files /\ L \notin built
            /\ built' = built \cup {L}
            /\ UNCHANGED <<cell0, cell, out, ran, phase, diags, files, tested>>

SelfTest(L) == /\ L \in built /\ L \in Codec /\ L \notin tested
               /\ tested' = tested \cup {L}
               /\ UNCHANGED <<cell0, cell, out, ran, phase, diags, files, built>>

Next == Validate \/ \E L \in Langs : RunGen(L) \/ WriteFiles(L) \/ Build(L) \/ SelfTest(L)
Spec == Init /\ [][Next]_vars

(* ------------------------------ properties ------------------------------ *)
Alone(L) == Emitted(L, cell0, Canon)

\* C14: every target's output is what that target produces alone on the freshly parsed model
Independent == \A L \in Langs : out[L] # Null => out[L].pad = Alone(L).pad
\* C14: generating never alters the model later generators see
ModelUntouched == cell = cell0
\* C13: output is a function of the program (no dependence on map iteration order)
Deterministic == \A L \in Langs : out[L] # Null => out[L].order = Canon
\* C12 (files part): a rejected program writes nothing
RejectWritesNothing == phase = "rejected" => files = {} /\ ran = <<>>
\* C07 / C17 lifecycle shape: things happen only after what they depend on
Lifecycle == /\ tested \subseteq built /\ built \subseteq files
             /\ \A L \in files : out[L] # Null
TypeOK == /\ cell \in [Cells -> Forms] /\ phase \in {"parsed", "valid", "rejected"}

\* action property: RunGen changes only out[L] and ran
GenFrame == [][\A L \in Langs : (out[L] = Null /\ out'[L] # Null) =>
                  (\A M \in Langs \ {L} : out'[M] = out[M]) /\ cell' = cell]_vars

(* ---------------- history generation for replay (GenOrders.cfg) ----------- *)
(* every ordered sequence of distinct targets over one parsed model: 1957   *)
GenInit == /\ cell0 = [k \in Cells |-> "RAW"] /\ cell = cell0
           /\ out = [L \in Langs |-> Null] /\ ran = <<>> /\ phase = "valid" /\ diags = FALSE
           /\ files = {} /\ built = {} /\ tested = {}
GenNext == \E L \in Langs : RunGen(L)
GenSpec == GenInit /\ [][GenNext]_vars
EmitOrder == PrintT(<<"TESTCASE", ToJson([order |-> ran])>>)

\* VIEW for exhaustive runs: `ran` is a history variable
View == <<cell0, cell, out, phase, diags, files, built, tested>>
=============================================================================
