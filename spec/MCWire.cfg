SPECIFICATION Spec
CONSTANTS
  MaxFields = 1
  Shapes = {"S1", "S2"}
  OutOfDomain = FALSE
INVARIANTS RoundTrip LenOf Cksum UnknownKeyFails SegmentsTile SegsAreLayout
CHECK_DEADLOCK FALSE
