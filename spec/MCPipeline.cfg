SPECIFICATION Spec
CONSTANTS
  InPlaceNormalise = FALSE
  IterateMap = FALSE
  NPackets = 3
INVARIANTS TypeOK Independent ModelUntouched Deterministic RejectWritesNothing Lifecycle
PROPERTY GenFrame
VIEW View
CHECK_DEADLOCK FALSE
