"""C01-C06 (+ shared program pipeline for C07, C15, C17): Wire.tla / MCWire / DslGen / TraceCodec."""
import json
import os
import zlib

import codec
import dsl
import langs
import tlc
from common import Infra, Scratch, build_cli, pmap, seed, sha
from evidence import Report

FAMILY_CFG = """SPECIFICATION Spec
CONSTANTS
  MaxCells = %d
  OptFacet = "%s"
  CellFacet = {%s}
INVARIANTS Emit WellFormedGen
CHECK_DEADLOCK FALSE
"""
ALL_FAM = ["scalar", "fix", "dyn", "obj", "meta", "match", "len", "ck"]
QUICK_ONLY_YET = {"match:samekey:rev"}


def optsig(o):
    return "le=%s,sp=%s,ap=%s,pl=%s,pc=%s" % (o.get("le", ""), o.get("sp", ""), o.get("ap", ""), o.get("padleft", ""), o.get("padchar", ""))


def gen_programs(rep, tier, families=None):
    """Programs from TLC (DslGen.tla).  quick: every cell under the default options and under one other
    option setting (rotating by cell); thorough: every cell x every 'few' option setting + pairs sample."""
    fams = families or ALL_FAM
    cfg = FAMILY_CFG % (1, "few", ", ".join('"%s"' % f for f in fams))
    g = tlc.run_tlc("DslGen", cfg, workers=1, timeout=900, heap="3g")
    tlc.require_ok(g, "DslGen (GenCells)")
    if rep is not None:
        rep.tlc(g)
    progs = g.testcases
    byc = {}
    for p in progs:
        byc.setdefault(p["cells"][0], []).append(p)
    out = []
    for tag in sorted(byc):
        ps = sorted(byc[tag], key=lambda p: optsig(p["opts"]))
        if tier == "thorough" and tag in QUICK_ONLY_YET:
            # the known-finding list of the thorough tier has not been regenerated since this cell was added (DESIGN 0.3,
            # sixth round): until then the thorough tier runs it under the option settings the quick tier has reviewed
            chosen = [p for p in ps if optsig(p["opts"]) in ("le=,sp=,ap=,pl=,pc=", "le=true,sp=u32,ap=u8,pl=,pc=")]
        elif tier == "thorough":
            chosen = ps
        else:
            # quick: the default options plus the settings whose facets matter for this cell family
            # (byte order for everything; string prefix != array prefix and a wide array prefix for repeated
            # fields; configuration-level padding for fixed strings)
            want = ["le=,sp=,ap=,pl=,pc=", "le=true,sp=u32,ap=u8,pl=,pc="]
            if tag.endswith(":rep") or tag.startswith(("obj:listoflists", "obj:withlist")):
                want += ["le=true,sp=,ap=,pl=,pc=", "le=false,sp=u8,ap=u32,pl=,pc="]
            if tag.endswith(":rep") or tag.startswith("dyn"):
                want += ["le=true,sp=u64,ap=u64,pl=,pc="]
            if tag.startswith(("fix", "meta", "match:char4")):
                want += ["le=,sp=u64,ap=u64,pl=true,pc=0"]
            if tag.startswith(("ck", "len")):
                want += ["le=true,sp=,ap=,pl=,pc="]
            chosen = [p for p in ps if optsig(p["opts"]) in want]
        for p in chosen:
            p = dict(p)
            p["id"] = "%s@%s" % (tag, optsig(p["opts"]))
            out.append(p)
            # C04 / C06 hold "for either attribute spelling": length-of and checksum cells are also written with the long
            # type aliases (uint16 ...) and with the attribute in front of the declaration
            if tag.startswith("scalar:") and not tag.startswith("scalar:char") and optsig(p["opts"]) == "le=,sp=,ap=,pl=,pc=":
                q = dict(p)
                q["spelling"] = {"*": {"long": True}}
                q["id"] = "%s~long@%s" % (tag, optsig(p["opts"]))
                out.append(q)
            # an orthogonal attribute (@tag) in front of the attribute that matters must not switch the latter off
            if tag.startswith(("fix:", "meta:shared", "len:", "ck:u16")) and "notype" not in tag and optsig(p["opts"]) == "le=,sp=,ap=,pl=,pc=":
                q = dict(p)
                q["spelling"] = {"*": {"tag": "first", "prefixattr": True}} if tag.startswith(("len:", "ck:")) else {"*": {"tag": "first"}}
                q["id"] = "%s~tagfirst@%s" % (tag, optsig(p["opts"]))
                out.append(q)
            if tag.startswith(("len:", "ck:")) and "notype" not in tag and (tier == "thorough" or optsig(p["opts"]) == "le=,sp=,ap=,pl=,pc="):
                for suffix, spell in (("long", {"*": {"long": True}}), ("prefix", {"*": {"prefixattr": True}})):
                    q = dict(p)
                    q["spelling"] = spell
                    q["id"] = "%s~%s@%s" % (tag, suffix, optsig(p["opts"]))
                    out.append(q)
    if tier == "thorough":
        # ordered pairs of cells (GenPairs): a seeded sample of the full product under two option settings
        cfg2 = FAMILY_CFG % (2, "one", ", ".join('"%s"' % f for f in fams))
        g2 = tlc.run_tlc("DslGen", cfg2, workers=4, timeout=1800, heap="6g")
        tlc.require_ok(g2, "DslGen (GenPairs)")
        if rep is not None:
            rep.tlc(g2)
        # a FIXED sample of the pair space (ordered by a hash of the cell tags, independent of VERIF_SEED): the
        # known-findings list must be complete for the unchanged tree whatever the seed
        pairs = [p for p in g2.testcases if len(p["cells"]) == 2 and not (set(p["cells"]) & QUICK_ONLY_YET)]
        pairs.sort(key=lambda p: zlib.crc32(("%s+%s" % (p["cells"][0], p["cells"][1])).encode()))
        for p in pairs[:400]:
            p = dict(p)
            p["id"] = "%s+%s@%s" % (p["cells"][0], p["cells"][1], optsig(p["opts"]))
            out.append(p)
    return out


def mc_wire(rep, tier):
    """Exhaustive check of Wire.tla on the bounded universe (and its sensitivity)."""
    cfg = open(os.path.join(tlc.SPEC, "MCWire.cfg")).read()
    if tier == "thorough":
        cfg = cfg.replace("MaxFields = 1", "MaxFields = 2")
    r = tlc.run_tlc("MCWire", cfg, workers=8, timeout=3000, heap="12g" if tier == "thorough" else "6g")
    tlc.require_ok(r, "MCWire")
    rep.tlc(r)
    s = tlc.run_tlc("MCWire", open(os.path.join(tlc.SPEC, "MCWire.cfg")).read().replace("OutOfDomain = FALSE", "OutOfDomain = TRUE"),
                    workers=8, timeout=900, heap="6g")
    if "RoundTrip" not in s.violated:
        raise Infra("MCWire with out-of-domain values does not violate RoundTrip: the specification is vacuous")
    rep.cov["spec_sensitivity"] = {"OutOfDomain": s.violated}


def mc_wire_machine(rep, tier):
    """The operational encoder (work list, placeholder, back-patch, checksum over the prefix) refines Wire.tla."""
    cfg = open(os.path.join(tlc.SPEC, "MCWireMachine.cfg")).read()
    if tier != "thorough":
        cfg = cfg.replace('Shapes = {"S1", "S2"}', 'Shapes = {"S2"}')
    r = tlc.run_tlc("WireMachine", cfg, workers=8, timeout=3000, heap="8g")
    tlc.require_ok(r, "WireMachine (Refines, AppendOnlyExceptPatch, ChecksumSeesPrefix, PrimsDiscipline)")
    rep.tlc(r)
    s = tlc.run_tlc("WireMachine", cfg.replace("MeasureFromPlaceholder = FALSE", "MeasureFromPlaceholder = TRUE"), workers=8, timeout=900, heap="8g")
    if "Refines" not in s.violated:
        raise Infra("WireMachine with MeasureFromPlaceholder does not violate Refines: the specification is vacuous")
    rep.cov.setdefault("spec_sensitivity", {})["MeasureFromPlaceholder"] = s.violated


def mc_used_buffer(rep, tier):
    """The operational encoder started on a USED buffer (earlier bytes, part of them consumed): the earlier bytes stay, the
    length field does not depend on where the message starts, a checksum covers everything before it in the buffer; the
    deviation PosFromReadable (placeholder position from the readable count, patch by absolute index) must be refuted."""
    cfg = open(os.path.join(tlc.SPEC, "MCUsedBuffer.cfg")).read()
    if tier == "thorough":
        cfg = cfg.replace("  OptSets <- OptSetsBO\n", "")
    r = tlc.run_tlc("WireMachine", cfg, workers=8, timeout=3000, heap="8g")
    tlc.require_ok(r, "WireMachine on used buffers (Refines, PreUntouched, OnlyChecksumsSeePre, PrimsDiscipline)")
    rep.tlc(r)
    s = tlc.run_tlc("WireMachine", open(os.path.join(tlc.SPEC, "MCUsedBuffer.cfg")).read().replace("PosFromReadable = FALSE", "PosFromReadable = TRUE"),
                    workers=8, timeout=900, heap="8g")
    if not ({"Refines", "PreUntouched"} & set(s.violated)):
        raise Infra("WireMachine with PosFromReadable violates neither Refines nor PreUntouched: the specification is vacuous")
    rep.cov.setdefault("spec_sensitivity", {})["PosFromReadable"] = s.violated


def mc_read_machine(rep, tier):
    """The operational decoder (cursor, work list, a receiver that may hold an earlier message) refines Wire!Decode;
    the three deviation switches (defects that were found in emitted decoders) must each make TLC find the violation."""
    base = open(os.path.join(tlc.SPEC, "MCReadMachine.cfg")).read()
    s1any = base.replace('Shapes = {"S1", "S2"}', 'Shapes = {"S1"}').replace('PriorMode = "fresh"', 'PriorMode = "any"')
    longs = base.replace('Shapes = {"S1", "S2"}', 'Shapes = {"S1"}').replace("CONSTANTS", "CONSTANTS\n  StrVals <- LongStrVals", 1)
    runs = [("S1, every earlier message as receiver content", s1any)]
    if tier == "thorough":
        runs += [("S1 + S2, fresh receiver", base), ("S1 with strings longer than 127 bytes", longs)]
    for what, cfg in runs:
        r = tlc.run_tlc("ReadMachine", cfg, workers=8, timeout=3000, heap="8g")
        tlc.require_ok(r, "ReadMachine (%s)" % what)
        rep.tlc(r)
    for sw, cfg in (("AppendWithoutReset", s1any), ("KeepOnEmptyString", s1any), ("SignedPrefix", longs)):
        s = tlc.run_tlc("ReadMachine", cfg.replace(sw + " = FALSE", sw + " = TRUE"), workers=8, timeout=900, heap="8g")
        if "RefinesDecode" not in s.violated:
            raise Infra("ReadMachine with %s does not violate RefinesDecode: the specification is vacuous" % sw)
        rep.cov.setdefault("spec_sensitivity", {})[sw] = s.violated


def apalache_len_patch(rep):
    """UNBOUNDED statement of C04's design: Apalache discharges the inductive invariant of the back-patch discipline
    (spec/LenPatchInd.tla: counts instead of bytes, any number of bytes before / between / inside / after) and refutes the
    deviation MeasureFromPlaceholder.  Thorough tier only; skipped with a note when Apalache is not installed."""
    import shutil
    import tempfile
    from common import run
    exe = shutil.which("apalache-mc")
    if not exe:
        rep.assumptions.append("Apalache is not installed: the unbounded inductive-invariant check of LenPatchInd.tla was skipped")
        return
    tmp = tempfile.mkdtemp(prefix="verif-apa-")
    try:
        for f in ("LenPatchInd.tla", "LenPatchInd.cfg"):
            shutil.copy(os.path.join(tlc.SPEC, f), tmp)
        with open(os.path.join(tmp, "Dev.cfg"), "w") as fh:
            fh.write(open(os.path.join(tlc.SPEC, "LenPatchInd.cfg")).read().replace("FALSE", "TRUE"))
        out = {}
        for name, cfg, init, inv, length, want in (("Init => IndInv", "LenPatchInd.cfg", "Init", "IndInv", 0, "NoError"),
                                                   ("IndInv /\\ Next => IndInv'", "LenPatchInd.cfg", "IndInit", "IndInv", 1, "NoError"),
                                                   ("IndInv => LenIsTargetBytes", "LenPatchInd.cfg", "IndInit", "LenIsTargetBytes", 0, "NoError"),
                                                   ("deviation MeasureFromPlaceholder refuted", "Dev.cfg", "IndInit", "IndInv", 1, "Error")):
            r = run([exe, "check", "--config=" + cfg, "--init=" + init, "--inv=" + inv, "--length=%d" % length,
                     "--out-dir=" + os.path.join(tmp, "out"), "LenPatchInd.tla"], cwd=tmp, timeout=900)
            got = "NoError" if "The outcome is: NoError" in r.stdout else "Error" if "The outcome is: Error" in r.stdout else "?"
            if got != want:
                raise Infra("Apalache obligation '%s' gave %s instead of %s\n%s" % (name, got, want, (r.stdout + r.stderr)[-800:]))
            out[name] = {"outcome": got, "wall_s": round(r.wall, 1)}
        rep.cov["apalache_inductive_invariant"] = out
        # the same statement as a machine-checked PROOF (spec/proofs/LenPatchProof.tla), when the proof system is installed
        tlapm = shutil.which("tlapm")
        if tlapm:
            shutil.copy(os.path.join(tlc.SPEC, "proofs", "LenPatchProof.tla"), tmp)
            r = run([tlapm, "--threads", "8", "--cleanfp", "LenPatchProof.tla"], cwd=tmp, timeout=900)
            txt = r.stdout + r.stderr
            import re as _re
            mm = _re.search(r"All (\d+) obligations proved", txt)
            if not mm:
                raise Infra("tlapm did not prove LenPatchProof.tla\n" + txt[-800:])
            rep.cov["tlaps_proof"] = {"module": "LenPatchProof", "obligations_proved": int(mm.group(1)), "wall_s": round(r.wall, 1)}
        else:
            rep.assumptions.append("tlapm is not installed: the proof spec/proofs/LenPatchProof.tla was not re-checked")
    finally:
        shutil.rmtree(tmp, ignore_errors=True)


_RESULTS = {}


def run_family(tier, use_langs, families=None, rep=None):
    key = (tier, tuple(use_langs), tuple(families or ()))
    if key in _RESULTS:
        return _RESULTS[key]
    cli = build_cli()
    progs = gen_programs(rep, tier, families)
    for l in use_langs:
        langs.get(l).setup()
    import tempfile
    tmp = tempfile.mkdtemp(prefix="verif-codec-")
    import atexit
    import shutil
    atexit.register(lambda: shutil.rmtree(tmp, ignore_errors=True))

    def one(ip):
        i, p = ip
        return codec.run_prog(cli, p, tier, os.path.join(tmp, "p%d" % i), use_langs)
    results = pmap(one, list(enumerate(progs)), workers=16)
    _RESULTS[key] = (progs, results, tmp)
    return _RESULTS[key]


def field_kind(prog, name):
    def walk(fs):
        for f in fs:
            if f["name"] == name:
                return dsl.res(prog, f)["k"]
            if f["k"] == "inl":
                k = walk(f["fs"])
                if k:
                    return k
        return None
    for p in prog["pkts"]:
        k = walk(p["fields"])
        if k:
            return k
    return None


def classify(prog, v):
    """-> list of (property, kind string) for one failing verdict."""
    out = []
    fam = prog["cells"][0].split(":")[0]
    evk = v["ev"]
    for f in v["fails"]:
        kind = f["kind"]
        fk = field_kind(prog, f.get("field", "")) if isinstance(f.get("field"), str) else None
        if evk == "ref":
            raise Infra("harness reference encoder disagrees with Wire.tla on %s: %s" % (prog.get("id"), f))
        if evk == "agree":
            out.append(("C03", "encoders-disagree"))
            continue
        if evk == "xdec":
            out.append(("C03", kind))
            continue
        if evk == "deckey":
            out.append(("C05", kind))
            continue
        if kind in ("checksum-coverage", "into-checksum-coverage"):
            out.append(("C06", kind))
            continue
        if evk == "encinto":
            # encode into a used buffer: the failing field decides; bytes in front of the message that changed are a
            # misplaced back-patch when the program has a length field
            into = ":" + v["meta"].get("into", "")
            if fk == "len" or (fk is None and fam == "len"):
                out.append(("C04", kind + ":len" + into))
            elif fk == "ck" or (fk is None and fam == "ck"):
                out.append(("C06", kind + ":ck" + into))
            else:
                out.append(("C01", kind + (":" + fk if fk else "") + into))
            continue
        if fk == "len" or (fk is None and fam == "len"):
            pid = "C04"
        elif fk == "ck" or (fk is None and fam == "ck"):
            pid = "C06"
        elif fk == "match" or (fk is None and fam == "match" and evk == "dec"):
            pid = "C05"
        else:
            pid = "C01" if evk == "enc" else "C02"
        out.append((pid, kind + (":" + fk if fk else "") + (":reused-receiver" if v["meta"].get("reused") else "")))
        if evk == "dec" and not kind.startswith("reencode"):
            out.append(("C03", "decoder-rejects-canonical:" + kind))
    return out


FOCUS = {"C01": None, "C02": None, "C03": None, "C04": ["len"], "C05": ["match"], "C06": ["ck"]}


def check_codec(pid, tier):
    rep = Report(pid, tier, "model_checking")
    use = langs.available()
    if not use:
        raise Infra("no language plug-in available")
    mc_wire(rep, tier if pid in ("C01", "C02") else "quick")
    if pid == "C04" or (tier == "thorough" and pid in ("C01", "C06")):
        mc_wire_machine(rep, tier)
    if pid in ("C04", "C06"):
        mc_used_buffer(rep, tier if pid == "C04" else "quick")
    if pid == "C04" and tier == "thorough":
        apalache_len_patch(rep)
    if pid == "C02":
        mc_read_machine(rep, tier)
    progs, results, tmp = run_family(tier, use, FOCUS[pid], rep)
    events, meta = codec.trace_of(results, use)
    rs, verdicts = codec.validate(events, meta, shards=12)
    ntr = sum(1 for e in events if e["ev"] in ("enc", "encinto", "dec", "deckey"))
    for r in rs:
        rep.tlc(r, traces=0)
    rep.cov["traces_validated_against_impl"] = rep.cov.get("traces_validated_against_impl", 0) + ntr
    byid = {p["id"]: p for p in progs}
    failing = {}
    for v in verdicts:
        prog = byid[v["meta"]["prog"]]
        for (p2, kind) in classify(prog, v):
            if p2 != pid:
                continue
            lang = v.get("lang") if v["ev"] != "agree" else "all"
            if v["ev"] == "agree":
                lang = ",".join(sorted(v["fails"][0]["field"])) if isinstance(v["fails"][0].get("field"), list) else "all"
            sig = "%s|%s|%s" % (lang, prog["id"], kind)
            if sig not in failing:
                failing[sig] = (v, prog)
    # a failure while encoding into a USED buffer is a finding of its own only when the same (language, program) encodes
    # correctly into a fresh one (otherwise it is the same defect seen again)
    enc_bad = {(v.get("lang"), v["meta"]["prog"]) for v in verdicts if v["ev"] == "enc"}
    for sig in [x for x, (v, prog) in failing.items() if v["ev"] == "encinto" and (v.get("lang"), v["meta"]["prog"]) in enc_bad]:
        del failing[sig]
    # a failure on a reused receiver is a finding of its own only when the same cell does not already fail
    # on a fresh object (otherwise it is the same defect seen twice)
    for sig in [x for x in failing if x.endswith(":reused-receiver")]:
        if sig[:-len(":reused-receiver")] in failing:
            del failing[sig]
    # every exercised (lang, program) pair is a cell; failing ones carry their kind
    relevant = {"C01": ("enc", "encinto"), "C02": ("dec",), "C03": ("enc", "dec", "agree", "xdec"), "C04": ("enc", "encinto", "dec"),
                "C05": ("dec", "deckey", "enc"), "C06": ("enc", "encinto", "dec")}[pid]
    seen = set()
    for e, m in zip(events, meta):
        if e["ev"] in relevant and m.get("lang"):
            seen.add((m["lang"], m["prog"]))
    for (l, p) in sorted(seen):
        bad = [s for s in failing if s.startswith("%s|%s|" % (l, p))]
        if not bad:
            rep.case("%s|%s|ok" % (l, p), True)
    for sig, (v, prog) in sorted(failing.items()):
        m = v["meta"]
        rep.case(sig, False, "%s: %s %s on message '%s' of program %s: %s %s" % (
            pid, v.get("lang"), v["ev"], m.get("msg", m.get("key")), prog["id"], json.dumps(v["fails"]), (m.get("err") or "")[:160]),
            {"dsl": dsl.render(prog), "prog": prog, "lang": v.get("lang"), "event": v["event"], "fails": v["fails"], "message": m.get("msg"),
             "how": "compile with fin-protoc, build the emitted %s code against /verif/runtimes, run the driver on the case" % v.get("lang")})
    # builds that failed hide behaviour: say so (C07 reports them)
    hidden = sorted({(l, r["prog"]["id"]) for r in results for l, s in r["sessions"].items() if not s["events"]})
    rep.cov["programs"] = len(progs)
    rep.cov["languages"] = use
    rep.cov["sessions_without_events"] = len(hidden)
    rejected = [r["prog"]["id"] for r in results if r["compile"]["rc"] != 0]
    rep.cov["programs_rejected_by_compiler"] = rejected[:20]
    if results:
        r0 = next((r for r in results if r["sessions"]), results[0])
        rep.sample({"program": r0["prog"]["id"], "dsl": r0["compile"]["dsl"][:500],
                    "message": r0["msgs"][0]["label"] if r0["msgs"] else None,
                    "expected_bytes": r0["msgs"][0]["ref"][:64] if r0["msgs"] else None})
    rep.assumptions += ["reference runtimes in /verif/runtimes honour the codec API the emitted code calls (DESIGN 4.4)",
                        "values are drawn from the domain MCWire derives (fixed strings without leading/trailing pad bytes, counts that fit the prefix)"]
    return rep.finish("programs = every cell of DslGen.tla (TLC) x option settings (%s tier); messages = value-class sweep; every enc/dec/"
                      "deckey event of every language validated by TLC against Wire.tla; distinct = (language, program cell@options, outcome)" % tier,
                      exhaustive=False)


def check_c01(t): return check_codec("C01", t)
def check_c02(t): return check_codec("C02", t)
def check_c03(t): return check_codec("C03", t)
def check_c04(t): return check_codec("C04", t)
def check_c05(t): return check_codec("C05", t)
def check_c06(t): return check_codec("C06", t)
