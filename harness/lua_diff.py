#!/usr/bin/env python3
"""Differential cross-check of the trusted Lua base (lua_interp.py + lua_wireshark.py, pure Python) against the REAL
Lua 5.3 (liblua5.3 through ctypes, lua_real.py + lua_wsstub.lua).

    python3 harness/lua_diff.py [--no-tlc] [--no-variants] [--only corpus,plain,api,unit] [--cli PATH] [--keep DIR] [-v]

Sections
  corpus  the sample programs of samples.py and every program TLC generates from spec/DslGen.tla (quick tier) are
          rendered, compiled with the fixed fin-protoc binary, and the emitted dissector is run by BOTH implementations
          over wire_ref.layout(m) for m in wire_ref.messages(prog, 0, 1) plus (unless --no-variants) truncated /
          extended / random variants of those byte strings (error paths).  Compared: load ok + log, per message the
          ok flag, the full list of adds, the return value, the columns and the error message.
  plain   hand-written plain-Lua snippets (scoping, closures, numeric for, concatenation, integer/float arithmetic
          and comparison, error messages); values are reported through emit(...), provided by both sides.
  api     hand-written dissector bodies exercising the Wireshark stand-ins (Tvb/TvbRange/UInt64/TreeItem/...).
  unit    every snippet of test_lua_interp.py (its helper functions are redirected so that each source string is
          also run under real Lua; the expectations written in that file are irrelevant here).

Error messages are compared with the `chunk:line:` prefix removed; a difference in the LINE only is counted
separately ("line-only differences") and is not a disagreement.  Disagreements come in two severities: BEHAVIOUR
(load/ok flags, values, adds, columns differ) and error-text-only (both sides raise an error at the same point but
the message text differs).  Disagreements that match the catalogue KNOWN (deviations of lua_interp.py from real
Lua 5.3 found earlier, reported to its maintainers) are labelled; exit status 1 only when there is a NEW one.
"""
import os
import random
import re
import subprocess
import sys
import tempfile
import time
import zlib

sys.path.insert(0, os.path.dirname(os.path.abspath(__file__)))
import dsl  # noqa: E402
import lua_interp as LI  # noqa: E402
import lua_real  # noqa: E402
import lua_wireshark as LW  # noqa: E402
import samples  # noqa: E402
import wire_ref  # noqa: E402

# Execution limits are not comparable (python counts calls + loop iterations, real Lua counts VM instructions, those of
# the Lua-written stub included).  So: when the python side completed within its step limit the real side gets a
# generous instruction budget (LIMIT_FACTOR per python step); when the python side was stopped by its limit the real
# side only gets LIMIT_FACTOR_LOW per step (it is expected to be stopped as well, and should be stopped quickly).
LIMIT_FACTOR = 2000
LIMIT_FACTOR_LOW = 100
DEFAULT_CLI = os.environ.get("LUA_DIFF_CLI", "/tmp/wt/C15/_bin/fin-protoc")


# ---------------------------------------------------------------------------------------------------------
# result bookkeeping

class Tally:
    def __init__(self, name):
        self.name = name
        self.n = 0                # comparisons
        self.agree = 0
        self.line_only = []       # (id, py line, real line, message)
        self.dis = []             # (id, what, detail): BEHAVIOUR differs (ok flags, values, adds, columns)
        self.minor = []           # (id, what, detail): both raise an error at the same point, the message TEXT differs
        self.unsupported = []     # (id, text): construct outside the Python interpreter's subset
        self.errors = 0           # agreements in which both sides raised the same error
        self.err_kinds = {}       # normalised error text (digits -> N) -> count
        self.limits = []          # (id, text): exactly one side ran into its execution limit (the limits are not comparable)
        self.extra = {}
        self.new = 0
        self.quiet_known = False

    def ok(self):
        self.n += 1
        self.agree += 1

    def bad(self, ident, what, detail):
        self.n += 1
        self.dis.append((ident, what, detail))

    def text(self, ident, what, detail):
        self.n += 1
        self.minor.append((ident, what, detail))


# ---------------------------------------------------------------------------------------------------------
# error message normalisation

_POS = re.compile(r"^([^\s:][^:\n]*):(\d+): ")
_PREFIXES = ("syntax error: ", "error loading script: ")


def split_err(e):
    """message -> (prefix kind, line|None, text without the chunk:line: position)"""
    if e is None:
        return ("", None, None)
    kind = ""
    for p in _PREFIXES:
        if e.startswith(p):
            kind, e = p, e[len(p):]
            break
    line = None
    m = _POS.match(e)
    if m:
        line = int(m.group(2))
        e = e[m.end():]
    e = re.sub(r"^(?:step|instruction) limit exceeded \(\d+\)", "<limit exceeded>", e)
    e = re.sub(r"^stack overflow.*", "stack overflow", e, flags=re.S)
    e = e.replace("near '<eof>'", "near <eof>")
    e = re.sub(r"\b(table|function|userdata|thread): (builtin: \w+|0x[0-9a-fA-F]+)", r"\1: 0xADDR", e)
    return (kind, line, e)


def cmp_err(tally, ident, pe, re_, ctx=""):
    """Compare two error messages (both not None).  -> True when they agree (possibly up to the line)."""
    pk, pl, pt = split_err(pe)
    rk, rl, rt = split_err(re_)
    if pk != rk or pt != rt:
        tally.text(ident, "error message differs", "python: %s\n          real  : %s%s" % (pe, re_, ctx))
        return False
    if pl != rl:
        tally.line_only.append((ident, pl, rl, pt))
    tally.errors += 1
    k = re.sub(r"\d+", "N", pt or "")
    tally.err_kinds[k] = tally.err_kinds.get(k, 0) + 1
    return True


# ---------------------------------------------------------------------------------------------------------
# an Interp with emit(...) (installed into lua_wireshark so that Session uses it too)

class EmitInterp(LI.Interp):
    def __init__(self, *a, **kw):
        LI.Interp.__init__(self, *a, **kw)
        self.emitted = []

        def emit(*args):
            self.emitted.append(" ".join(lua_real.ser(x) for x in args))
            return ()
        self.setglobal("emit", LI.Builtin(emit, "emit"))


LW.Interp = EmitInterp          # in-memory only: lua_wireshark.Session() now builds interpreters that know emit()


# ---------------------------------------------------------------------------------------------------------
# both implementations side by side

ADD_KEYS = ("kind", "abbr", "name", "off", "len", "le", "text", "parent")


def fmt_add(a):
    if a is None:
        return "(none)"
    return "%s %s/%r [%d,+%d]%s text=%r parent=%d" % (a["kind"], a["abbr"], a["name"], a["off"], a["len"], " LE" if a["le"] else "",
                                                     a["text"], a["parent"])


def diff_lines(a, b, what):
    """Compare two lists of serialised emit lines.  -> (None, None) when equal, else (severity, description) where
    severity is "text" when every difference is the message string of a pcall(...) failure (false, "message") on
    both sides, "behaviour" otherwise."""
    if a == b:
        return None, None
    sev = "text"
    shown = []
    ndiff = 0
    for i in range(max(len(a), len(b))):
        x = a[i] if i < len(a) else None
        y = b[i] if i < len(b) else None
        if x == y:
            continue
        ndiff += 1
        if len(shown) < 6:
            shown.append("%s #%d: python %s\n                         real   %s" % (what, i, unser_line(x), unser_line(y)))
        if x is None or y is None:
            sev = "behaviour"
            continue
        xs, ys = x.split(" "), y.split(" ")
        if len(xs) != len(ys):
            sev = "behaviour"
            continue
        for j in range(len(xs)):
            if xs[j] != ys[j]:
                if not (j > 0 and xs[j - 1] == "false" and ys[j - 1] == "false" and xs[j].startswith("s:") and ys[j].startswith("s:")):
                    sev = "behaviour"
                elif split_err(bytes.fromhex(xs[j][2:]).decode("latin-1"))[2] == split_err(bytes.fromhex(ys[j][2:]).decode("latin-1"))[2]:
                    sev = "behaviour"       # same text, different position: error(msg, level) semantics
    if ndiff > len(shown):
        shown.append("... and %d more differing lines" % (ndiff - len(shown)))
    return sev, "\n          ".join(shown)


class Dual:
    """Load one script with both implementations and compare everything observable."""

    def __init__(self, tally, ident, src, chunk, strict=False, max_steps=None):
        self.tally = tally
        self.ident = ident
        self.src = src
        self.py = None
        self.real = None
        self.usable = False
        self.py_crash = None
        self.max_steps = max_steps
        kw = {}
        limit = lua_real.DEFAULT_LIMIT
        if max_steps is not None:
            kw["max_steps"] = max_steps
            limit = max_steps * LIMIT_FACTOR
        try:
            self.py = LW.Session(src, chunk, strict=strict, **kw)
        except Exception as e:          # interpreter bug
            self.py_crash = "%s: %s" % (type(e).__name__, e)
        self.real = lua_real.RealSession(src, chunk, strict=strict, max_instr=limit)
        if self.py_crash:
            tally.bad(ident, "python interpreter CRASHED while loading", "%s\n          real: ok=%s %s" % (self.py_crash, self.real.ok, self.real.log))
            return
        if self.py.unsupported:
            tally.unsupported.append((ident, self.py.unsupported))
            return
        if self.py.ok != self.real.ok:
            tally.bad(ident, "load ok differs", "python: ok=%s %s\n          real  : ok=%s %s" % (self.py.ok, self.py.log, self.real.ok, self.real.log))
            return
        if not self.py.ok:
            if cmp_err(tally, ident, self.py.log, self.real.log):
                tally.ok()
            return
        pe = list(self.py.interp.emitted)
        re_ = self.real.emitted()
        del self.py.interp.emitted[:]
        if pe != re_:
            tally.bad(ident, "emit() output of the top-level chunk differs", "python: %s\n          real  : %s" % (pe, re_))
            return
        tally.ok()
        self.usable = True

    def dissect(self, label, data, globals_=()):
        """-> python result (or None when the python side crashed)."""
        t = self.tally
        ident = "%s [%s, %d bytes %s]" % (self.ident, label, len(data), bytes(data[:48]).hex() + ("..." if len(data) > 48 else ""))
        try:
            del self.py.interp.emitted[:]
            p = self.py.dissect(data)
        except LI.Unsupported as e:
            t.unsupported.append((ident, str(e)))
            return None
        except Exception as e:
            r = self.real.dissect(data)
            t.bad(ident, "python interpreter CRASHED", "%s: %s\n          real: ok=%s err=%s" % (type(e).__name__, e, r["ok"], r["err"]))
            return None
        p["emit"] = list(self.py.interp.emitted)
        if self.max_steps is not None:
            stopped = not p["ok"] and split_err(p["err"])[2] == "<limit exceeded>"
            self.real.set_limit(self.max_steps * (LIMIT_FACTOR_LOW if stopped else LIMIT_FACTOR))
        r = self.real.dissect(data)
        probs = []
        if p["ok"] != r["ok"]:
            probs.append("ok flag: python %s (%s) / real %s (%s)" % (p["ok"], p["err"], r["ok"], r["err"]))
        plim = not p["ok"] and split_err(p["err"])[2] == "<limit exceeded>"
        rlim = not r["ok"] and split_err(r["err"])[2] == "<limit exceeded>"
        if plim and rlim:
            t.ok()                  # both were stopped by their (different) execution limits: nothing else is comparable
            return p
        if plim or rlim:
            t.limits.append((ident, "python: %s / real: %s" % (p["err"] or "ok, %d adds" % len(p["adds"]), r["err"] or "ok, %d adds" % len(r["adds"]))))
            return p
        pa, ra = p["adds"], r["adds"]
        for i in range(max(len(pa), len(ra))):
            a = pa[i] if i < len(pa) else None
            b = ra[i] if i < len(ra) else None
            if a is None or b is None or any(a[k] != b[k] for k in ADD_KEYS):
                probs.append("add #%d: python %s\n                    real   %s   (python has %d adds, real %d)" % (i, fmt_add(a), fmt_add(b), len(pa), len(ra)))
                break
        sev, desc = diff_lines(p["emit"], r["emit"], "emit line")
        textonly = None
        if sev == "behaviour":
            probs.append(desc)
        elif sev == "text":
            textonly = desc
        if p["ok"] and r["ok"] and lua_real.ser(p["ret"]) != lua_real.ser(r["ret"]):
            probs.append("return value: python %r / real %r" % (p["ret"], r["ret"]))
        if p.get("cols") != r["cols"]:
            probs.append("columns: python %r / real %r" % (p.get("cols"), r["cols"]))
        for g in globals_:
            pg = lua_real.ser(self.py.interp.getglobal(g))
            rg = self.real.global_repr(g)
            if pg != rg:
                probs.append("global %s: python %s / real %s" % (g, unser_line(pg), unser_line(rg)))
        if probs:
            t.bad(ident, "dissect result differs", "\n          ".join(probs))
        elif textonly:
            t.text(ident, "message of a caught error differs", textonly)
        elif not p["ok"]:
            if cmp_err(t, ident, p["err"], r["err"]):
                t.ok()
        else:
            t.ok()
        return p

    def close(self):
        if self.real is not None:
            self.real.close()


def unser(s):
    """readable form of one serialised value"""
    if s is None:
        return "(none)"
    if s.startswith("s:"):
        return repr(bytes.fromhex(s[2:]).decode("latin-1"))
    if s.startswith("u:"):
        cls, _, h = s[2:].partition(":")
        return "<%s %s>" % (cls, bytes.fromhex(h).decode("latin-1"))
    if s.startswith("i:"):
        return s[2:]
    if s.startswith("f:"):
        return s[2:] + " (float)"
    return s


def unser_line(line):
    if line is None:
        return "(none)"
    return "  ".join(unser(x) for x in line.split(" ")) if line else "(no values)"


# ---------------------------------------------------------------------------------------------------------
# plain chunks

def run_plain_both(tally, ident, src, max_steps=None, chunk="t"):
    """Run a chunk with both; compare load, ok, returned values, emit lines, print output, error.
    -> ("ok", values, output) | ("err", LuaError) | ("unsupported", exc) | ("syntax", exc) describing the PYTHON outcome."""
    kw = {}
    limit = lua_real.DEFAULT_LIMIT
    if max_steps is not None:
        kw["max_steps"] = max_steps
        limit = max_steps * LIMIT_FACTOR
    it = EmitInterp(chunk, **kw)
    res = {"loaded": True, "ok": False, "err": None, "ret": [], "emit": [], "out": []}
    outcome = None
    def real_outcome():
        r = lua_real.run_plain(src, chunk, max_instr=limit)
        return "   [real Lua: %s]" % ("runs ok" if r["ok"] else r["err"])
    try:
        fn = it.load(src)
    except LI.Unsupported as e:
        tally.unsupported.append((ident, str(e) + real_outcome()))
        return ("unsupported", e)
    except LI.LuaSyntaxError as e:
        res["loaded"] = False
        res["err"] = LI.lua_text(str(e))
        outcome = ("syntax", e)
    except Exception as e:
        tally.bad(ident, "python interpreter CRASHED while parsing", "%s: %s\n          source: %s" % (type(e).__name__, e, src))
        return ("crash", e)
    if res["loaded"]:
        try:
            vals = it.call(fn)
            res["ok"] = True
            res["ret"] = [lua_real.ser(v) for v in vals]
            outcome = ("ok", vals, it.output)
        except LI.Unsupported as e:
            tally.unsupported.append((ident, str(e) + real_outcome()))
            return ("unsupported", e)
        except LI.LuaError as e:
            res["err"] = LI.lua_text(str(e)) if isinstance(e.value, str) else None
            res["errser"] = lua_real.ser(e.value)
            outcome = ("err", e)
        except Exception as e:
            tally.bad(ident, "python interpreter CRASHED", "%s: %s\n          source: %s" % (type(e).__name__, e, src))
            return ("crash", e)
        res["emit"] = list(it.emitted)
        res["out"] = [LI.lua_text(x) for x in it.output]
    real = lua_real.run_plain(src, chunk, max_instr=limit)
    probs = []
    textonly = []
    if res["loaded"] != real["loaded"]:
        probs.append("compiles: python %s (%s) / real %s (%s)" % (res["loaded"], res["err"], real["loaded"], real["err"]))
    elif res["ok"] != real["ok"]:
        probs.append("ok flag: python %s (%s) / real %s (%s)" % (res["ok"], res["err"], real["ok"], real["err"]))
    if not probs:
        for key, what in (("emit", "emit line"), ("ret", "returned values")):
            a, b = res[key], real[key]
            if key == "ret":
                a, b = [" ".join(a)], [" ".join(b)]
            sev, desc = diff_lines(a, b, what)
            if sev == "behaviour":
                probs.append(desc)
            elif sev == "text":
                textonly.append(desc)
        if res["out"] != real["out"]:
            probs.append("print output: python %r / real %r" % (res["out"], real["out"]))
    if probs:
        tally.bad(ident, "plain chunk differs", "\n          ".join(probs) + "\n          source: " + src.replace("\n", "\n                  "))
    elif textonly:
        tally.text(ident, "message of a caught error differs", "\n          ".join(textonly) + "\n          source: " + src.replace("\n", "\n                  "))
    elif res["err"] is not None or real["err"] is not None:
        if res["err"] is None or real["err"] is None:       # non-string error value on one side only
            if res.get("errser") == real.get("errser"):
                tally.ok()
            else:
                tally.bad(ident, "error value differs", "python %s / real %s\n          source: %s" % (res.get("errser"), real.get("errser"), src))
        elif cmp_err(tally, ident, res["err"], real["err"], "\n          source: " + src.replace("\n", "\n                  ")):
            tally.ok()
    elif res.get("errser") != real.get("errser") and not res["ok"]:
        tally.bad(ident, "error value differs", "python %s / real %s\n          source: %s" % (res.get("errser"), real.get("errser"), src))
    else:
        tally.ok()
    return outcome


# ---------------------------------------------------------------------------------------------------------
# section "corpus"

def tlc_programs():
    import props_codec
    return props_codec.gen_programs(None, "quick")


def variants(data, rnd):
    """Truncated / extended / random byte strings derived from one wire message (error paths)."""
    n = len(data)
    cuts = set(range(n)) if n <= 24 else set([0, 1, 2, n - 1, n - 2] + [n * i // 10 for i in range(1, 10)])
    out = [("cut%d" % c, data[:c]) for c in sorted(cuts) if 0 <= c < n]
    out.append(("tail", data + b"\xee"))
    if n:
        i = rnd.randrange(n)
        flipped = bytearray(data)
        flipped[i] ^= 0xFF
        out.append(("flip%d" % i, bytes(flipped)))
    return out


def compile_lua(cli, prog, root):
    os.makedirs(root, exist_ok=True)
    path = os.path.join(root, "p.dsl")
    with open(path, "w") as f:
        f.write(dsl.render(prog))
    out = os.path.join(root, "out_lua")
    try:
        r = subprocess.run([cli, "-f", path, "-l", out], capture_output=True, text=True, errors="replace", timeout=60)
    except subprocess.TimeoutExpired:
        return None, "compiler timed out"
    if r.returncode != 0:
        lines = [x.strip() for x in (r.stdout + r.stderr).splitlines() if x.strip()]
        key = [x for x in lines if x.startswith(("panic:", "Error", "error"))] or lines[-1:]
        return None, "rc=%d %s" % (r.returncode, " | ".join(key)[:200])
    files = sorted(f for f in os.listdir(out) if f.endswith(".lua")) if os.path.isdir(out) else []
    if not files:
        return None, "no .lua file emitted"
    return [os.path.join(out, f) for f in files], ""


def section_corpus(args, tally):
    progs = [("sample", p) for p in samples.SAMPLES]
    if not args.no_tlc:
        t0 = time.time()
        gen = tlc_programs()
        print("  TLC generated %d programs from spec/DslGen.tla in %.1f s" % (len(gen), time.time() - t0))
        progs += [("tlc", p) for p in gen]
    st = {"programs": 0, "compile_failed": [], "files": 0, "wire": 0, "variant": 0, "ood": 0, "loaded_ok": 0}
    keep = args.keep or tempfile.mkdtemp(prefix="lua-diff-")
    t0 = time.time()
    for i, (origin, p) in enumerate(progs):
        pid = "%s:%s" % (origin, p["id"])
        st["programs"] += 1
        files, log = compile_lua(args.cli, p, os.path.join(keep, "p%03d" % i))
        if files is None:
            st["compile_failed"].append((pid, log))
            continue
        rootname = dsl.root(p)["name"]
        msgs = []
        for label, m in wire_ref.messages(p, 0, 1):
            try:
                msgs.append((label, bytes(wire_ref.layout(p, rootname, m))))
            except wire_ref.OutOfDomain:
                st["ood"] += 1
        rnd = random.Random(zlib.crc32(pid.encode()))
        for path in files:
            st["files"] += 1
            with open(path, "rb") as fh:
                src = fh.read()
            # execution limit: 50k interpreter steps (a 130-element list of objects needs a few thousand);
            # keeps dissectors that loop over a huge count without consuming bytes (repeat of an empty packet) cheap
            d = Dual(tally, "%s %s" % (pid, os.path.relpath(path, keep)), src, os.path.basename(path), max_steps=50000)
            if d.usable:
                st["loaded_ok"] += 1
                seen = set()
                for label, b in msgs:
                    if b in seen:
                        continue
                    seen.add(b)
                    st["wire"] += 1
                    d.dissect(label, b)
                if not args.no_variants:
                    for label, b in msgs:
                        for vl, vb in variants(b, rnd):
                            if vb in seen:
                                continue
                            seen.add(vb)
                            st["variant"] += 1
                            d.dissect(label + "/" + vl, vb)
                    for k in (5, 33, 120):
                        vb = bytes(rnd.randrange(256) for _ in range(k))
                        st["variant"] += 1
                        d.dissect("random%d" % k, vb)
            d.close()
        if args.verbose:
            print("    %-60s %d comparisons so far, %d disagreements" % (pid[:60], tally.n, len(tally.dis)))
    st["seconds"] = time.time() - t0
    st["dir"] = keep
    tally.extra = st


# ---------------------------------------------------------------------------------------------------------
# section "plain": hand-written plain Lua, values reported with emit(...)

PLAIN = [
    # ---- scoping
    ("scope-localfn-after-use", "local function a() return b() end\nlocal function b() return 1 end\nemit(pcall(a))"),
    ("scope-globalfn-after-use", "local function a() return b() end\nfunction b() return 7 end\nemit(a())"),
    ("scope-local-eq-fn-no-recursion", "local f = function(n) if n == 0 then return 0 end return f(n - 1) end\nemit(pcall(f, 3))"),
    ("scope-localfn-recursion", "local function f(n) if n == 0 then return 0 end return 1 + f(n - 1) end emit(f(10))"),
    ("scope-shadow", "local x = 1 do local x = 2 emit(x) end emit(x) local x = x + 10 emit(x)"),
    ("scope-local-x-eq-x", "x = 5 local x = x emit(x) x = 6 emit(x, _G.x)"),
    ("scope-later-local-not-captured", "x = 1\nlocal function f() return x end\nlocal x = 2\nemit(f(), x)"),
    ("scope-for-var-is-local", "local i = 99 for i = 1, 3 do end emit(i) for j = 1, 2 do end emit(j)"),
    ("scope-repeat-sees-body-locals", "local n = 0 repeat local done = n >= 2 n = n + 1 until done emit(n)"),
    ("scope-block-local-dies", "do local y = 5 end emit(y) if true then local z = 1 end emit(z)"),
    ("scope-function-params", "local function f(a, b) a = a + 1 return a, b end local v = 1 emit(f(v)) emit(v)"),
    ("scope-method-self", "local o = {v = 3} function o:get(a) return self.v + a end emit(o:get(1), o.get({v = 10}, 0))"),
    ("scope-nested-functions-upvalue-chain", "local a = 1 local function f() local b = 2 return function() local c = 3 return function() a = a + 1 return a + b + c end end end emit(f()()(), a)"),
    # ---- closures
    ("closure-counter", "local function counter() local c = 0 return function() c = c + 1 return c end end local a, b = counter(), counter() a() a() emit(a(), b())"),
    ("closure-shared-upvalue", "local function mk() local n = 0 return function() n = n + 1 return n end, function() return n end end local inc, get = mk() inc() inc() emit(get())"),
    ("closure-fresh-per-iteration", "local fs = {} for i = 1, 3 do fs[i] = function() return i end end emit(fs[1](), fs[2](), fs[3]())"),
    ("closure-while-fresh-local", "local fs = {} local i = 0 while i < 3 do i = i + 1 local j = i fs[i] = function() j = j + 10 return j end end emit(fs[1](), fs[1](), fs[2](), fs[3]())"),
    ("closure-genfor", "local fs = {} for _, v in ipairs({10, 20}) do fs[#fs + 1] = function() return v end end emit(fs[1](), fs[2]())"),
    ("closure-captures-variable-not-value", "local n = 0 local function get() return n end n = 5 emit(get())"),
    ("closure-param-capture", "local function adder(k) return function(x) k = k + 1 return x + k end end local a = adder(10) emit(a(1), a(1))"),
    ("closure-repeat-upvalue", "local fs = {} local i = 0 repeat i = i + 1 local k = i * 2 fs[i] = function() return k end until i == 3 emit(fs[1](), fs[2](), fs[3]())"),
    # ---- numeric for
    ("for-basic", "local s = '' for i = 1, 3 do s = s .. i .. ',' end for i = 3, 1 do s = s .. 'never' end for i = 3, 1, -1 do s = s .. i end emit(s)"),
    ("for-steps", "local s = '' for i = 1, 10, 4 do s = s .. i .. ',' end for i = 10, 1, -4 do s = s .. i .. ',' end emit(s)"),
    ("for-float-limit", "for i = 1, 2.5 do emit(i) end for i = 1, 2.999 do emit(i) end for i = 3, 1.5, -1 do emit(i) end"),
    ("for-float-start", "for i = 1.0, 3 do emit(i) end"),
    ("for-float-step", "for i = 1, 2, 0.5 do emit(i) end for i = 0, 0.3, 0.1 do emit(i) end"),
    ("for-string-bounds", "local n = 0 for i = '1', '3' do n = n + i emit(i) end emit(n)"),
    ("for-limit-once", "local c = 0 local function lim() c = c + 1 return 3 end for i = 1, lim() do end emit(c)"),
    ("for-assign-var", "local n = 0 for i = 1, 3 do i = i * 10 n = n + i end emit(n)"),
    ("for-maxint", "local s = 0 for i = math.maxinteger - 2, math.maxinteger do s = s + 1 end emit(s) for i = math.maxinteger - 1, math.huge do s = s + 1 end emit(s)"),
    ("for-minint", "local s = 0 for i = math.mininteger + 2, math.mininteger, -1 do s = s + 1 end emit(s) for i = math.mininteger, -math.huge, -1 do s = s + 1 end emit(s)"),
    ("for-big-step-overflow", "local s = 0 for i = 1, math.maxinteger, math.maxinteger // 2 do s = s + 1 emit(i) end emit(s)"),
    ("for-nan-limit", "for i = 1, 0/0 do emit('never') end emit('done')"),
    ("for-float-limit-huge", "local n = 0 for i = 1, 1e300 do n = n + 1 if n == 3 then break end end emit(n)"),
    ("for-errors", "emit(pcall(function() for i = 1, nil do end end)) emit(pcall(function() for i = {}, 1 do end end)) "
                   "emit(pcall(function() for i = 1, 2, 'x' do end end)) emit(pcall(function() for i = 1, 2, 0 do end end)) emit(pcall(function() for i = 1, 2, 0.0 do end end))"),
    ("for-break-return", "local function f() for i = 1, 10 do if i == 4 then return i end end end emit(f()) local n = 0 for i = 1, 3 do for j = 1, 3 do if j == 2 then break end n = n + 1 end end emit(n)"),
    # ---- concatenation
    ("concat-numbers", "emit(1 .. 2, 1 .. '', 1.5 .. '', 10 / 2 .. '', 3 // 1 .. '', 3.0 // 1 .. '', -0.0 .. '', 2^53 .. '', 2^63 .. '', 1e15 .. '', 1e16 .. '', 1e100 .. '')"),
    ("concat-float-formats", "emit(0.1 .. '', 1/3 .. '', 100 * 1.0 .. '', 1e14 .. '', 123456789012345.0 .. '', 1234567890123456.0 .. '', 5e-324 .. '', 1/0 .. '', -1/0 .. '')"),
    ("concat-int-extremes", "emit(math.maxinteger .. '', math.mininteger .. '', 0xffffffffffffffff .. '', 9223372036854775807 .. '', 9223372036854775808 .. '')"),
    ("concat-assoc-and-precedence", "emit('a' .. 'b' .. 'c' == 'abc', 1 + 1 .. '' == '2', 'x' .. 1 + 2, 2 .. 3 + 1)"),
    ("concat-errors", "emit(pcall(function() return 'a' .. nil end)) emit(pcall(function() local t = {} return 'a' .. t end)) emit(pcall(function() return true .. 'a' end)) emit(pcall(function() return 'a' .. print end))"),
    ("concat-error-names", "local t = {}\nemit(pcall(function() return 'a' .. t.x end))\nemit(pcall(function() return t.y .. 'a' end))\nemit(pcall(function() return 'a' .. undefinedglobal end))\nemit(pcall(function() local z return z .. 'a' .. 'b' end))"),
    ("concat-in-loop", "local s = '' for i = 1, 5 do s = s .. ' f[' .. i .. ']' end emit(s, #s)"),
    ("tostring-numbers", "emit(tostring(1), tostring(1.0), tostring(-0.5), tostring(1e15), tostring(2^31), tostring(2^31 | 0), tostring(-0.0), tostring(100 // 1), tostring(100 / 1))"),
    # ---- integer / float arithmetic
    ("arith-division", "emit(7 // 2, -7 // 2, 7 // -2, -7 // -2, 7.0 // 2, -7 // 2.0, 7 / 2, 6 / 2, 1 // 1, 0 // 5, -0 // 5)"),
    ("arith-modulo", "emit(7 % 3, -7 % 3, 7 % -3, -7 % -3, 7.5 % 2, -7.5 % 2, 7.5 % -2, 5 % math.huge, -5 % math.huge, 5 % -math.huge, 3 % 3.0, 0 % 3, -0.0 % 3)"),
    ("arith-div-zero", "emit(5 // 0.0, -5 // 0.0, 0 / 0 ~= 0 / 0, 1 / 0, -1 / 0, 5 % 0.0 ~= 5 % 0.0, 0.0 // 0.0 ~= 0.0 // 0.0) emit(pcall(function() return 1 // 0 end)) emit(pcall(function() return 1 % 0 end))"),
    ("arith-minint-edge", "emit(math.mininteger // -1, math.mininteger % -1, math.mininteger * -1, -math.mininteger, math.mininteger // 1, math.abs(math.mininteger))"),
    ("arith-overflow-wrap", "emit(math.maxinteger + 1 == math.mininteger, math.maxinteger * 2, math.mininteger - 1, math.maxinteger * math.maxinteger, 1 << 63, 1 << 64, (1 << 63) - 1)"),
    ("arith-int-float-mix", "emit(1 + 1, 1 + 1.0, 2 * 3.0, 10 - 2.5, 2 ^ 2, 2 ^ 0.5, 2 ^ -1, 10 // 3.0, 3 - 3.0, -(0), -(0.0), 1e308 * 10, -1e308 * 10)"),
    ("arith-string-coercion", "emit('10' + 5, '3' * '4', '0x10' + 0, '1e1' + 0, ' 7 ' + 1, '10' // 3, '10' / 2, '2' ^ 2, -'3', '7' % 4, '1.5' + 1, 10 .. 1 + 1, math.type('10' + 5), math.type('10' * 1), math.type('10' // 1), math.type(-'2'))"),
    ("arith-string-coercion-errors", "emit(pcall(function() return 'abc' + 1 end)) emit(pcall(function() return {} + 1 end)) emit(pcall(function() return 1 + nil end)) emit(pcall(function() local q return q * 2 end)) emit(pcall(function() return -{} end)) emit(pcall(function() return '' + 1 end))"),
    ("arith-bitwise", "emit(3 & 5, 3 | 5, 3 ~ 5, ~0, ~5, 1 << 4, 256 >> 4, -1 >> 60, -1 << 1, 1 << -1, 2 >> -1, 1 << 63 >> 63, 3.0 | 0, '3' | 0, 2^53 | 0)"),
    ("arith-bitwise-errors", "emit(pcall(function() return 1.5 | 1 end)) emit(pcall(function() return 'a' | 1 end)) emit(pcall(function() return {} & 1 end)) emit(pcall(function() return 2^64 | 0 end)) emit(pcall(function() return '1.5' | 0 end)) emit(pcall(function() return 1 << nil end))"),
    ("arith-precedence", "emit(1 + 2 * 3, (1 + 2) * 3, 2 ^ 3 ^ 2, -2 ^ 2, not 1 == 2, 1 .. 2 == '12', 2 * 3 % 4, -3 % 5, 1 << 2 + 1, 5 & 3 == 1, 1 | 2 ~ 3 & 4, #'abc' + 1, -'2' ^ 2)"),
    ("arith-literals", "emit(0x10, 0xff, 1e2, .5, 3., 0x.8p1, 0xA.8p0, 0x1p4, 9223372036854775807, 9223372036854775808, -9223372036854775808, 0xffffffffffffffff, 0x7fffffffffffffff, 0x10000000000000000, 1e-3, 3e+2, 0e0)"),
    ("math-functions", "emit(math.floor(3.7), math.ceil(3.2), math.floor(-3.5), math.floor(5), math.ceil(-0.5), math.max(1, 5, 3), math.min(2, 0.5), math.max(1, 2.0), math.abs(-4), math.abs(-4.5), math.tointeger(3.0), math.tointeger(3.5), math.tointeger('8'), math.fmod(7, 3), math.fmod(-7, 3), math.fmod(7, -3), math.sqrt(16), math.type(1), math.type(1.0), math.type('1'), math.huge, -math.huge, math.pi, math.ult(1, -1))"),
    ("math-floor-big", "emit(math.floor(2^62), math.floor(2^63), math.floor(-2^63), math.ceil(2^53 + 0.0), math.floor(1e100), math.tointeger(2^63), math.tointeger(-2^63))"),
    ("tonumber", "emit(tonumber('0x10'), tonumber('  12  '), tonumber('1e1'), tonumber('z'), tonumber('10', 2), tonumber('ff', 16), tonumber('zz', 36), tonumber('8', 8), tonumber(nil), tonumber(''), tonumber(' '), tonumber('1 2'), tonumber('0x'), tonumber('1e'), tonumber('.5'), tonumber('5.'), tonumber('-7'), tonumber('- 7'), tonumber('+7'), tonumber('1_0'), tonumber('inf'), tonumber('nan'), tonumber('0x1p4'), tonumber('9223372036854775808'), tonumber('-9223372036854775808'), tonumber(true), tonumber(12), tonumber(1.5))"),
    # ---- comparison
    ("cmp-basic", "emit(3 == 3.0, '1' == 1, 1 < 2, 'a' < 'b', 'a' < 'B', 2 <= 2, 3 > 2, 3 >= 4, 1 ~= 2, 1 < 1.5, 1.5 < 2, -1 < -0.5, 0 == -0, 0.0 == -0.0, 'a' == 'a', '10' < '9', '' < 'a', 'Z' < 'a', 'abc' < 'abd', 'ab' < 'abc')"),
    ("cmp-int-float-exact", "emit(2^53 == 2^53 + 1, (2^53 | 0) + 1 == 2^53 + 1, (2^53 | 0) + 1 > 2^53, math.maxinteger + 0.0 == math.maxinteger, math.maxinteger < math.maxinteger + 0.0, math.maxinteger + 0.0 == 2^63, math.mininteger + 0.0 == math.mininteger, math.mininteger <= -2^63, math.maxinteger < math.huge, math.mininteger > -math.huge, 9007199254740993 < 9007199254740992.0, 9007199254740993 > 9007199254740992.0, 9007199254740993 == 9007199254740992.0)"),
    ("cmp-nan", "local n = 0/0 emit(n == n, n ~= n, n < 1, n > 1, n <= n, 1 < n, n >= 1, not (n < 1))"),
    ("cmp-errors", "emit(pcall(function() return 1 < nil end)) emit(pcall(function() return nil < 1 end)) emit(pcall(function() return 1 < 'x' end)) emit(pcall(function() return {} < {} end)) emit(pcall(function() return 2 > nil end)) emit(pcall(function() return 'a' >= 1 end)) emit(pcall(function() return true < false end)) emit(pcall(function() return print <= print end)) emit(pcall(function() return {} <= 1 end))"),
    ("cmp-eq-types", "local t = {} emit(t == t, {} == {}, nil == false, 0 == false, '' == false, 1 == '1', print == print, nil == nil, nil ~= false, 'a' ~= 'a')"),
    ("cmp-and-or", "emit(nil and 1, false or 'x', 0 and 'zero', nil or false, 1 and 2 or 3, nil and 2 or 3, false and nil, false == false and 1, nil or nil, 1 or error('never'), false and error('never'))"),
    ("cmp-not", "emit(not nil, not 0, not '', not false, not not nil, not 1 == 2)"),
    # ---- tables, keys, length
    ("table-key-normalisation", "local t = {} t[1.0] = 'a' t[2] = 'b' t[2^53] = 'c' emit(t[1], t[2.0], t[2^53 | 0], next({[3.0] = 1})) t[1.5] = 'x' emit(t[1.5], t['1']) emit(pcall(function() t[nil] = 1 end)) emit(pcall(function() t[0/0] = 1 end)) emit(t[nil], t[0/0])"),
    ("table-constructor", "local function f() return 1, 2, 3 end local t = {f(), f()} emit(#t) t = {f(), (f())} emit(#t) t = {f(), x = 1, f()} emit(#t) t = {[1] = 'a', 'b'} emit(t[1]) t = {n = 1, 2, 3; 4} emit(#t, t.n)"),
    ("table-length", "local t = {} t[1] = 'a' t[2] = 'b' t[#t + 1] = 'c' emit(#t) t[#t] = nil emit(#t) emit(#'abc', #'', #{}, #{n = 1}, #{1, 2, 3})"),
    ("table-multiple-assignment", "local a, b = 1, 2 a, b = b, a emit(a, b) local t = {1, 2} local i = 1 i, t[i] = i + 1, 20 emit(i, t[1], t[2]) local x, y, z = (function() return 1, 2 end)() emit(x, y, z) local p, q = 1 emit(p, q)"),
    ("table-pairs-order-independent", "local keys = {} for k, v in pairs({a = 1, b = 2, c = 3, 10, 20}) do keys[#keys + 1] = tostring(k) .. '=' .. v end table.sort(keys) emit(table.concat(keys, ','))"),
    ("table-ipairs-stops-at-nil", "local s = 0 for i, v in ipairs({1, 2, nil, 4}) do s = s + v end emit(s)"),
    ("table-lib", "local t = {} table.insert(t, 'a') table.insert(t, 1, 'b') table.insert(t, 'c') emit(table.concat(t), table.remove(t), table.remove(t, 1), #t, table.concat({1, 2.5, 'x'}, '-'), table.unpack({1, 2, 3}, 2)) emit(select('#', table.unpack({}, 1, 3)), table.pack(1, nil, 3).n) local u = {3, 1, 2} table.sort(u, function(a, b) return a > b end) emit(u[1], u[2], u[3])"),
    ("metatables", "local V = {} V.__index = V V.__add = function(a, b) return 'add' end V.__eq = function(a, b) return true end V.__lt = function() return true end V.__le = function() return false end "
                   "V.__concat = function(a, b) return 'cat' end V.__len = function() return 42 end V.__call = function(self, y) return y end V.__unm = function() return 'neg' end V.__tostring = function() return 'V!' end "
                   "local a, b = setmetatable({}, V), setmetatable({}, V) emit(a + 1, 1 + a, a == b, a ~= b, a == 1, a < b, a <= b, a > b, a .. 'z', 1 .. a, #a, a(10), -a, tostring(a), rawequal(a, b), rawlen(a))"),
    ("metatables-index-newindex", "local log = {} local t = setmetatable({}, {__index = function(t, k) return k .. '!' end, __newindex = function(t, k, v) rawset(t, k, v * 2) end}) t.a = 1 t.a = 5 emit(t.a, t.b, rawget(t, 'b')) local base = {greet = function(self) return 'hi ' .. self.name end} local o = setmetatable({name = 'bob'}, {__index = base}) emit(o:greet())"),
    # ---- calls, varargs
    ("varargs", "local function f(...) return select('#', ...), ... end emit(f()) emit(f(nil, nil)) emit((f(1, 2, 3))) local function g(...) local a, b = ... return b, a end emit(g(1, 2, 3)) emit(select(-1, 'a', 'b', 'c'), select(2, 'a', 'b', 'c')) emit(pcall(select, 0))"),
    ("call-results-truncation", "local function f() return 1, 2 end local function g(...) return select('#', ...) end emit(g(f()), g(f(), 10), g((f())), g(f(), f())) local function n() end emit(select('#', n()), select('#', (n())))"),
    ("call-sugar", "local function f(t) return type(t) == 'table' and t.x or t end emit(f{x = 5}, f'str', f[[long]], #('abc'), ('%d'):format(7), string.len'four')"),
    ("call-deep-recursion", "local function f(n) if n == 0 then return 0 end return 1 + f(n - 1) end emit(f(150))"),
    ("tail-call-loop", "local function loop(n, acc) if n == 0 then return acc end return loop(n - 1, acc + n) end emit(loop(100, 0))"),
    # ---- strings
    ("string-escapes", "emit('a\\nb', 'tab\\there', 'q\\'q', \"d\\\"d\", '\\65\\066\\x43', '\\z   x', '\\u{48}\\u{20AC}', 'back\\\\slash', '\\0' == '\\x00', #'\\0ab', '\\255', [[a\\n]], [==[x]]y]==], #[[\n\n]])"),
    ("string-methods", "local s = 'hello' emit(s:sub(2, 3), s:upper(), s:len(), s:rep(2, '-'), s:byte(1), s:reverse(), ('x'):rep(0), s:sub(-2), s:sub(2, 10), s:sub(0), s:sub(3, 2), s:byte(1, -1)) emit(string.char(72, 105), ('abc'):find('b'), ('a.b'):find('.', 1, true), ('hello'):find('l+'), ('hello'):find('xyz'))"),
    ("string-format", "emit(('%5d|%-5d|%05.1f|%x|%X|%s|%q|%c|%%|%g|%i'):format(42, 42, 3.14159, 255, 255, 'str', 'q\"', 65, 0.5, 3), ('%s %s'):format(nil, true), ('%d'):format(3.0), ('%.3f'):format(1), ('%10s|%-10s|'):format('a', 'b'), ('%5.1s|'):format('abc'), ('%e'):format(12345.678), ('%o'):format(8), ('%+d % d'):format(5, 5))"),
    ("string-format-errors", "emit(pcall(function() return string.format('%d', 3.5) end)) emit(pcall(function() return string.format('%d', 'x') end)) emit(pcall(function() return string.format('%d') end)) emit(pcall(function() return string.format('%y', 1) end)) emit(pcall(function() return string.rep() end)) emit(pcall(function() return ('x'):rep({}) end))"),
    ("string-patterns", "emit(('key = value'):match('(%w+)%s*=%s*(%w+)')) emit(('abc123'):match('%d+'), ('abc'):match('^(b)'), ('  trim  '):match('^%s*(.-)%s*$'), ('x(y(z))w'):match('%b()'), ('[test]'):match('%[(.-)%]'), ('abc'):match('()b()')) emit(('hello world'):gsub('o', '0')) emit(('abc'):gsub('%w', '%0%0')) emit(('hello'):gsub('l', {l = 'L'})) emit(('abc'):gsub('b', function(c) return c:upper() end)) emit(('aaa'):gsub('a', 'b', 2)) local t = {} for w in ('one two  three'):gmatch('%a+') do t[#t + 1] = w end emit(table.concat(t, '|'))"),
    # ---- error messages and positions
    ("err-call-kinds", "local t = {}\nlocal up\nemit(pcall(function() undefinedfn() end))\nemit(pcall(function() t.f() end))\nemit(pcall(function() t:m() end))\nemit(pcall(function() local s = 5 s() end))\nemit(pcall(function() up() end))\nemit(pcall(function() t.a.b() end))\nemit(pcall(function() ('x'):nomethod() end))\nemit(pcall(function() t[1]() end))\nemit(pcall(function() (nil)() end))"),
    ("err-index-kinds", "local t = {}\nlocal up\nemit(pcall(function() return undefinedvar.x end))\nemit(pcall(function() return t.a.b end))\nemit(pcall(function() t.a.b = 1 end))\nemit(pcall(function() return up.x end))\nemit(pcall(function() local l return l.x end))\nemit(pcall(function() return (1).x end))\nemit(pcall(function() local b = true return b.x end))\nemit(pcall(function() up.x = 1 end))\nemit(pcall(function() return t.x.y.z end))\nemit(pcall(function() return t[1][2] end))\nemit(pcall(function() return ('x').y.z end))"),
    ("err-arith-kinds", "local t = {}\nlocal up\nemit(pcall(function() return t.x + 1 end))\nemit(pcall(function() return 1 + t.x end))\nemit(pcall(function() return up * 2 end))\nemit(pcall(function() return undefinedg - 1 end))\nemit(pcall(function() local l return l / 2 end))\nemit(pcall(function() return #up end))\nemit(pcall(function() return #t.x end))\nemit(pcall(function() return -up end))\nemit(pcall(function() return t.x < 1 end))\nemit(pcall(function() return 2 ^ t end))"),
    ("err-error-function", "emit(pcall(error, 'boom')) emit(pcall(error, 'boom', 0)) emit(pcall(error)) emit(pcall(error, nil)) emit(select('#', pcall(error))) local ok, e = pcall(error, {code = 7}) emit(ok, type(e), e.code) emit(pcall(error, 42)) emit(pcall(function() error('lvl1') end)) emit(pcall(function() error('lvl2', 2) end)) emit(pcall(function() error('lvl0', 0) end)) emit(pcall(function() error() end))"),
    ("err-error-levels", "local function thrower() error('deep', 2) end\nlocal function caller()\n  thrower()\nend\nemit(pcall(caller))\nlocal function t1() error('here') end\nemit(pcall(t1))"),
    ("err-assert", "emit(pcall(assert, false)) emit(pcall(assert, nil, 'msg')) emit(pcall(assert, false, {1})) emit(assert(1, 2, 3)) emit(pcall(assert)) emit(pcall(function() assert(false) end)) emit(pcall(function() assert(1 == 2, 'custom') end))"),
    ("err-positions-multiline", "local t = {}\nlocal function f()\n  local a = 1\n  local b = t.x.y\n  return a\nend\nemit(pcall(f))\nlocal function g()\n  return 1 +\n    nil\nend\nemit(pcall(g))\nlocal function h()\n  undefinedfn(1,\n    2,\n    3)\nend\nemit(pcall(h))"),
    ("err-pcall-nesting", "emit(pcall(pcall, error, 'x')) emit(pcall(function() local ok, e = pcall(error, 'inner') error('outer:' .. tostring(e), 0) end)) emit(pcall(pcall)) emit(pcall(nil)) emit(pcall(5)) emit(xpcall(function() error('E', 0) end, function(m) return 'handled:' .. m end)) emit(xpcall(function() return 1, 2 end, print))"),
    ("err-runtime-toplevel", "local t = nil\nemit('before')\nreturn t.x"),
    ("err-stdlib-args", "local function try(f) emit(pcall(f)) end try(function() return ipairs() end) try(function() return pairs(nil) end) try(function() return setmetatable(1, {}) end) try(function() return tostring() end) try(function() return type() end) try(function() return rawget(1, 2) end) try(function() return table.concat({1, {}, 3}) end) try(function() return table.insert({}, 5, 1) end) try(function() return math.floor('x') end) try(function() return ('x').sub() end) try(function() return string.char(256) end) try(function() return tonumber('10', 99) end) try(function() return next({}, 'nokey') end)"),
    ("err-for-iterator", "emit(pcall(function() for k in pairs(nil) do end end)) emit(pcall(function() for k in 5 do end end)) emit(pcall(function() for k in nil do end end))"),
    ("err-syntax-1", "x = = 1"),
    ("err-syntax-2", "local function f()\n  return 1\n"),
    ("err-syntax-3", "for i = 1 do end"),
    ("err-syntax-4", "x = 'unterminated"),
    ("err-syntax-5", "local t = {1, 2\nlocal y = 1"),
    ("err-syntax-6", "if x then\n  y = 1\nelse\n  y = 2\n"),
    ("err-syntax-7", "return 1 2"),
    ("err-syntax-8", "x = 3x"),
    ("err-syntax-9", "break"),
    ("err-syntax-10", "local function f() return ... end"),
    ("err-syntax-11", "f(\n"),
    ("err-syntax-12", "a.b:c = 1"),
    ("err-syntax-13", "x = }"),
    ("err-syntax-14", "local x <const> = 1 emit(x)"),
    ("err-syntax-15", "x = '\\q'"),
    ("err-syntax-16", "x = '\\300'"),
    ("err-syntax-17", "--[[ unterminated"),
    ("err-syntax-18", "x = [==[ unterminated ]]"),
    ("err-syntax-19", "local a = 1; local 2 = 3"),
    ("err-syntax-20", "x = 1 +* 2"),
    ("err-syntax-21", "goto nowhere"),
    ("goto-continue", "for i = 1, 3 do if i == 2 then goto continue end emit(i) ::continue:: end"),
    ("load-shebang", "#!/usr/bin/lua\nemit(1)\nerror('line3')"),
    ("load-bom", "\xef\xbb\xbfemit(1)"),
    ("load-crlf", "emit(1)\r\nemit(2)\r\nerror('line3')"),
    # ---- limits
    ("limit-while", "while true do end"),
    ("limit-pcall-cannot-swallow", "local ok = pcall(function() while true do end end) emit(ok)"),
    ("limit-deep-recursion", "local function f(n) return 1 + f(n + 1) end emit(pcall(f, 1))"),
]


def section_plain(args, tally):
    for ident, src in PLAIN:
        run_plain_both(tally, "plain:" + ident, src, max_steps=20000 if ident.startswith("limit-w") or ident.startswith("limit-p") else None)


# ---------------------------------------------------------------------------------------------------------
# section "api": dissector bodies exercising the Wireshark stand-ins.  Each body runs inside
#   function p.dissector(buf, pinfo, tree) ... end      with f = the table of ProtoFields, p = the Proto;
# E(...) = emit(pcall(function() return ... end)) is spelled out with the helper `try`.

API_PRELUDE = ("local p = Proto('T', 'T Protocol')\n"
               "local f = {u = ProtoField.uint32('t.u', 'u'), q = ProtoField.uint64('t.q', 'q'), i = ProtoField.int16('t.i', 'i'), iq = ProtoField.int64('t.iq', 'iq'), "
               "s = ProtoField.string('t.s', 's'), sz = ProtoField.stringz('t.sz', 'sz'), fl = ProtoField.float('t.fl', 'fl'), db = ProtoField.double('t.db', 'db'), "
               "c = ProtoField.char('t.c', 'c', base.OCT), by = ProtoField.bytes('t.by', 'by'), bo = ProtoField.bool('t.bo', 'bo'), ip = ProtoField.ipv4('t.ip', 'ip'), "
               "li = ProtoField.int('t.li', 'li', base.DEC), u8 = ProtoField.uint8('t.u8'), nn = ProtoField.none('t.nn', 'nn')}\n"
               "p.fields = f\n"
               "local function try(fn, ...) emit(pcall(fn, ...)) end\n"
               "function p.dissector(buf, pinfo, tree)\n")
API_POSTLUDE = "\nend\nDissectorTable.get('tcp.port'):add(1, p)\n"
D10 = bytes(range(1, 11))

API = [
    # ---- Tvb / TvbRange construction and bounds
    ("tvb-basic", "emit(buf:len(), buf():len(), buf(4):len(), buf(2, 3):len(), buf(2, 3):offset(), buf(10):len(), buf(10, 0):len(), buf(0, 0):len(), buf:reported_len(), buf:captured_len(), buf:offset(), buf:reported_length_remaining(), buf:reported_length_remaining(4), buf:reported_length_remaining(11))", D10),
    ("tvb-bounds-errors", "try(function() return buf(9, 2) end) try(function() return buf(11, 0) end) try(function() return buf(0, 11) end) try(function() return buf(0, -2) end) try(function() return buf(11) end) try(function() return buf(0, -1):len() end) try(function() return buf(10, 1) end)", D10),
    ("tvb-negative-offsets", "try(function() return buf(-2):len(), buf(-2):offset() end) try(function() return buf(-2, 1):offset() end) try(function() return buf(-2, 3) end) try(function() return buf(-11) end) try(function() return buf(-11, 1) end) try(function() return buf(-10, 10):len() end) try(function() return buf(-1, 0):offset() end)", D10),
    ("tvb-arg-types", "try(function() return buf(0, 2.0):uint() end) try(function() return buf('1', '2'):uint() end) try(function() return buf(0, 1.5) end) try(function() return buf(0, {}) end) try(function() return buf(true) end) try(function() return buf(0, 'x') end) try(function() return buf(nil, 2):len() end) try(function() return buf(0, nil):len() end) try(function() return buf(print) end) try(function() return buf(2^53) end) try(function() return buf(0, 1/0) end)", D10),
    ("tvb-methods", "emit(tostring(buf), tostring(buf(0, 3)), buf(0, 3) .. 'x', 'x' .. buf(1, 1), buf .. '') emit(buf:range(1, 2):uint(), buf:range():len(), buf:range(3):len(), tostring(buf:bytes()), tostring(buf:bytes(2)), tostring(buf:bytes(2, 2)), buf:raw(), buf:raw(8), buf:raw(1, 2)) try(function() return buf:range(9, 5) end) try(function() return buf:nosuch() end) try(function() return buf.len end)", D10),
    ("tvb-long-tostring", "emit(tostring(buf), tostring(buf()), tostring(buf(1, 24)), tostring(buf(1, 25)))", bytes(range(40))),
    ("range-subrange", "emit(buf(2, 4)(1, 2):offset(), buf(2, 4)(1, 2):len(), buf(2, 4):range(1, 2):uint(), buf(2, 4):range(1):len(), buf(2, 4)():len(), buf(2, 4)(4):len(), buf(2, 4)(4, 0):offset()) try(function() return buf(2, 4)(5) end) try(function() return buf(2, 4)(1, 4) end) try(function() return buf(2, 4)(-1) end) try(function() return buf(2, 4)(0, -2) end) try(function() return buf(2, 4):tvb():len(), buf(2, 4):tvb()(0, 1):offset() end)", D10),
    ("range-uint-int", "emit(buf(0, 1):uint(), buf(0, 2):uint(), buf(0, 3):uint(), buf(0, 4):uint(), buf(0, 4):le_uint(), buf(0, 2):le_uint(), buf(0, 3):le_uint()) emit(buf(4, 1):int(), buf(4, 2):int(), buf(4, 3):int(), buf(4, 4):int(), buf(4, 2):le_int(), buf(4, 3):le_int(), buf(4, 4):le_int(), buf(8, 4):int(), buf(8, 4):uint(), math.type(buf(8, 4):uint()))", bytes([1, 2, 3, 4, 0xff, 0xfe, 0xfd, 0xfc, 0x80, 0, 0, 0])),
    ("range-int-size-errors", "try(function() return buf(0, 5):uint() end) try(function() return buf(0, 0):uint() end) try(function() return buf(0, 8):le_uint() end) try(function() return buf(0, 8):int() end) try(function() return buf(0, 5):le_int() end) try(function() return buf(0, 9):uint64() end) try(function() return buf(0, 9):le_int64() end) try(function() return buf(0, 0):int64() end) try(function() return buf(0, 0):le_uint64() end)", D10),
    ("range-64", "for n = 1, 8 do emit(n, tostring(buf(0, n):uint64()), tostring(buf(0, n):le_uint64()), tostring(buf(0, n):int64()), tostring(buf(0, n):le_int64())) end emit(type(buf(0, 8):uint64()), buf(0, 8):uint64(), buf(0, 8):int64())", bytes([0xff, 0xfe, 3, 4, 5, 6, 7, 0x88, 9, 10])),
    ("range-float", "emit(buf(0, 4):float(), buf(0, 4):le_float(), buf(4, 8):float(), buf(4, 8):le_float(), buf(12, 4):float() ~= buf(12, 4):float(), buf(16, 4):float(), buf(20, 4):float()) try(function() return buf(0, 2):float() end) try(function() return buf(0, 0):le_float() end) try(function() return buf(0, 5):float() end)",
     bytes.fromhex("3fc00000" "3ff8000000000000" "7fc00000" "7f800000" "3dcccccd")),
    ("range-string", "emit(buf(0, 3):string(), buf(0, 8):string(), buf(2):string(), buf(0, 0):string(), buf(8, 4):string(), buf(8, 4):ustring(), buf(0, 3):string(ENC_UTF_8), #buf(8, 4):string()) try(function() return buf(0, 8):stringz(), buf(0, 8):strsize() end) try(function() return buf(0, 3):stringz() end) try(function() return buf(0, 3):strsize() end) emit(buf(8, 4):raw(), buf(0, 8):raw(1, 2), buf(0, 8):raw(6)) try(function() return buf(0, 4):raw(5) end) try(function() return buf(0, 4):raw(1, 4) end)",
     b"abc\0def\0\xc3\xa9\xff~"),
    ("range-bytes", "local b = buf(1, 3):bytes() emit(tostring(b), b:len(), #b, b:get_index(0), b:get_index(2), b:tohex(), b:tohex(true), b:tohex(false, ':'), b:raw(), tostring(b:subset(1, 2)), tostring(b .. b), b .. 'x', b == buf(1, 3):bytes(), b == buf(1, 2):bytes(), tostring(ByteArray.new('0a 0B-ff'))) try(function() return b:get_index(3) end) try(function() return b:get_index() end) try(function() return b:subset(2, 2) end)", D10),
    ("range-bitfield", "emit(buf(0, 1):bitfield(7, 1), buf(0, 1):bitfield(0, 1), buf(0, 1):bitfield(), buf(0, 2):bitfield(4, 8), buf(0, 4):bitfield(0, 32), buf(0, 8):bitfield(0, 33), buf(0, 8):bitfield(0, 64), buf(0, 10):bitfield(8, 64), buf(0, 2):bitfield(3, 0)) try(function() return buf(0, 1):bitfield(7, 2) end) try(function() return buf(0, 10):bitfield(0, 65) end)", bytes([0xa5, 0x5a, 3, 4, 5, 6, 7, 8, 9, 10])),
    ("range-misc", "emit(tostring(buf(0, 3)), tostring(buf(0, 0)), buf(1, 2) .. '|' .. buf(3, 1), type(buf(0, 1)), type(buf)) try(function() return buf(0, 2):nosuch() end) try(function() return buf(0, 2).len end) try(function() return #buf(0, 2) end) try(function() return buf(0, 2) + 1 end) try(function() return buf(0, 2) < buf(0, 2) end) try(function() return buf(0, 2) == buf(0, 2) end)", D10),
    # ---- UInt64 / Int64
    ("u64-tostring-concat", "local u = buf(0, 8):uint64() emit(tostring(u), 'n=' .. u, u .. '', u .. u, 1 .. u, type(u), tostring(buf(0, 8):int64()), tostring(UInt64.max()), tostring(UInt64.min()), tostring(Int64.max()), tostring(Int64.min()), tostring(UInt64(5)), tostring(UInt64()), tostring(Int64(-5)), tostring(UInt64(1, 2)), tostring(UInt64.new(3)), tostring(UInt64('0x10')), tostring(UInt64('12')), tostring(UInt64(3.9)), tostring(Int64(-3.9)), tostring(UInt64.fromhex('ff')), tostring(Int64.fromhex('ffffffffffffffff')), tostring(UInt64(-1)), tostring(UInt64(UInt64(7))), tostring(Int64(UInt64.max())))", bytes([0xff] * 8)),
    ("u64-arith", "local u = UInt64(100) local i = Int64(-7) emit(u + 1, 1 + u, u - 1, u * 3, u / 7, u // 7, u % 7, u ^ 2, -u, u + u, u - 200, i + 1, i * i, i / 2, i // 2, i % 3, -i, i ^ 3, i ^ -1, u + 1.9, u + '3', u + i, i + u, UInt64.max() + 1, UInt64.max() * 2, Int64.max() + 1, Int64.min() - 1, UInt64.max() / 3, UInt64.max() % 10, UInt64.max() / UInt64.max())", D10),
    ("u64-arith-errors", "local u = UInt64(100) try(function() return u / 0 end) try(function() return u % 0 end) try(function() return Int64(1) / 0 end) try(function() return Int64(1) % Int64(0) end) try(function() return u + {} end) try(function() return u + nil end) try(function() return u + 'abc' end) try(function() return u + true end) try(function() return u & 1 end) try(function() return #u end) try(function() return u() end) try(function() return u.x end) try(function() return u:nosuch() end)", D10),
    ("u64-compare", "local u = buf(0, 8):uint64() emit(u == 72623859790382856, u == UInt64(0x05060708, 0x01020304), u ~= UInt64(1), u == buf(0, 8):int64(), UInt64(5) == Int64(5), UInt64.max() == Int64(-1), UInt64(5) == 5, u > 5, u < 5, 5 < u, u >= u, u <= 5, UInt64(3) < UInt64(4), UInt64.max() > Int64.max(), Int64(-1) < UInt64(0), Int64(-1) < 0, UInt64.max() > 0, UInt64.max() < 0, UInt64(2) < 2.5, UInt64(2) <= '2')", D10),
    ("u64-compare-errors", "local u = UInt64(1) try(function() return u < {} end) try(function() return u < nil end) try(function() return 'abc' < u end) try(function() return u <= true end)", D10),
    ("u64-methods", "local u = buf(0, 8):uint64() emit(u:tonumber(), buf(0, 2):uint64():tonumber(), Int64(-2):tonumber(), u:tohex(), u:tohex(4), u:tohex(-4), u:tohex(20), Int64(-1):tohex(), Int64.min():tohex(), u:lower(), u:higher(), Int64(-1):lower(), Int64(-1):higher(), UInt64.max():tonumber(), math.type(u:lower()), math.type(u:tonumber()))", D10),
    ("u64-as-number", "local n = buf(0, 8):uint64() try(function() return buf(8, n) end) try(function() for i = 1, n do end end) try(function() return buf(n) end) try(function() return ('x'):rep(n) end) try(function() return n + 0 == 0 end) try(function() local t = {} t[n] = 1 return t[buf(0, 8):uint64()] end) try(function() return math.floor(n) end) try(function() return tonumber(n) end) try(function() return tostring(n) + 1 end) try(function() return n .. '' + 1 end)", bytes([0, 0, 0, 0, 0, 0, 0, 1, 9, 9])),
    # ---- TreeItem
    ("tree-add-forms", "local st = tree:add(p, buf(0, 4), 'Hdr') st:add(f.u, buf(0, 4)):append_text(' x') st:add_le(f.q, buf(2, 8)) st:add(f.s, buf(1, 2), 'val', 'more') tree:add(buf(0, 2), 'label') tree:add('label first', buf(3, 1)) tree:add(f.u, 7) tree:add(f.nosuch, buf(0, 1)) tree:add(f.by, buf()) st:set_text('t') st:add_expert_info(1, 2, 'x') tree:add(f.c, buf(0, 1)) tree:add(f.s, buf(10, 0)) tree:add(p) tree:add(p, buf(1, 1)) tree:add(p, buf(1, 1), 'a', 'b', 3) tree:add(p, 'no range') tree:add() tree:add(nil) tree:add(nil, buf(0, 1), 'x') tree:add(5, buf(0, 1)) tree:add(1.5) tree:add('just text') tree:add('t', 'u', buf(0, 1)) tree:add(buf(0, 1)) tree:add(buf) tree:add(f.s, buf) tree:add(true, buf(0, 1)) tree:add(buf(0, 1), buf(1, 1), 'x') tree:add(f.u, buf(0, 1), 5, 'label', nil, 'after nil') tree:add(f.s, buf(0, 1), nil) tree:add(f.u, buf(0, 9), 5) tree:add(f.q, buf(0, 8), buf(0, 8):uint64(), 'lbl') tree:add_packet_field(f.u, buf(0, 2), 0, 'ignored') tree:le_add(f.li, buf(0, 2)) tree:add(f.u8) tree:add(f.nn, buf(0, 10))", D10),
    ("tree-add-nesting", "local a = tree:add(p, buf(0, 1), 'A') local b = a:add(p, buf(1, 1), 'B') local c = b:add(f.u, buf(2, 1)) c:add(f.u, buf(3, 1)) a:add(f.u, buf(4, 1)) tree:add(f.u, buf(5, 1)) b:add_le(f.u, buf(6, 2)):add(f.c, buf(6, 1)) emit(tostring(a), type(a), a:referenced(), a.text, a.visible, a.len) a.text = 'x' a.generated = true emit(a:set_text('x') == a, a:append_text('y') == a, a:set_len(3) == a, a:set_generated() == a, a:prepend_text('z') == a, a:set_hidden() == a)", D10),
    ("tree-add-length-errors", "for _, fld in ipairs({f.u, f.i, f.c, f.li, f.u8}) do for _, n in ipairs({0, 1, 4, 5, 8}) do try(function() tree:add(fld, buf(0, n)) return n end) end end "
                               "for _, fld in ipairs({f.q, f.iq, f.bo}) do for _, n in ipairs({0, 1, 8, 9}) do try(function() tree:add_le(fld, buf(0, n)) return n end) end end "
                               "for _, fld in ipairs({f.fl, f.db, f.ip}) do for _, n in ipairs({0, 4, 8}) do try(function() tree:add(fld, buf(0, n)) return n end) end end "
                               "for _, fld in ipairs({f.s, f.sz, f.by, f.nn}) do for _, n in ipairs({0, 1, 10}) do try(function() tree:add(fld, buf(0, n)) return n end) end end", D10),
    ("tree-add-value-errors", "try(function() tree:add(f.u, buf(0, 1), 'x') end) try(function() tree:add(f.u, buf(0, 1), '12') end) try(function() tree:add(f.u, buf(0, 1), {}) end) try(function() tree:add(f.u, buf(0, 1), nil) end) try(function() tree:add_le(f.fl, buf(0, 4), true) end) try(function() tree:add(f.q, buf(0, 8), 'x') end) try(function() tree:add(f.q, buf(0, 8), 5) end) try(function() tree:add(f.q, buf(0, 8), UInt64(5)) end) try(function() tree:add(f.iq, buf(0, 8), buf) end) try(function() tree:add(f.s, buf(0, 1), {}) end) try(function() tree:add(f.s, buf(0, 1), 5) end) try(function() tree:add(f.s, buf(0, 1), true) end) try(function() tree:add(f.by, buf(0, 1), {}) end) try(function() tree:add(f.u, buf(0, 1), buf(0, 8):uint64()) end) try(function() tree:add(f.u, 'x') end)", D10),
    ("tree-index-errors", "try(function() tree:nosuch(f.u, buf(0, 1)) end) try(function() return tree.nosuch end) try(function() tree.nosuch = 1 end) try(function() return tree[1] end) try(function() tree[1] = 1 end) try(function() return tree.add == tree.add_le end) try(function() local t = nil t:add(f.u, buf(0, 1)) end) try(function() subtree:add(f.u, buf(0, 1)) end) try(function() return #tree end) try(function() return tree .. '' end) try(function() tree() end)", D10),
    # ---- Pinfo / Columns / Column
    ("pinfo-cols", "pinfo.cols.protocol = 'demo' pinfo.cols.info:set('A') pinfo.cols.info:append(' b') pinfo.cols.info:prepend('> ') pinfo.cols.info:append(5) pinfo.cols.info:append(1.5) pinfo.cols.src = 7 pinfo.cols.info:fence() pinfo.cols.info:clear_fence() emit(tostring(pinfo.cols.info), pinfo.cols.info .. '!', '<' .. pinfo.cols.protocol, tostring(pinfo.cols), tostring(pinfo), type(pinfo.cols.info), pinfo.cols[1], tostring(pinfo.cols.never_set), pinfo.columns == pinfo.cols, pinfo.cols.info == pinfo.cols.info) pinfo.cols.dst:set('x') pinfo.cols.dst:clear() pinfo.cols.dst:preppend('y')", D10),
    ("pinfo-cols-errors", "try(function() pinfo.cols.info:set(nil) end) try(function() pinfo.cols.info:set() end) try(function() pinfo.cols.info:append({}) end) try(function() pinfo.cols.info:prepend(true) end) try(function() pinfo.cols.info = {} end) try(function() pinfo.cols.info = nil end) try(function() pinfo.cols.info = buf(0, 8):uint64() end) try(function() pinfo.cols[1] = 'x' end) try(function() pinfo.cols = 1 end) try(function() pinfo.columns = 1 end) try(function() pinfo.cols.info:nosuch() end) try(function() pinfo.cols.info.x = 1 end) try(function() return #pinfo.cols.info end)", D10),
    ("pinfo-attrs", "emit(pinfo.number, pinfo.len, pinfo.caplen, pinfo.visited, pinfo.src_port, pinfo.dst_port, pinfo.desegment_len, pinfo.can_desegment, pinfo.port_type, pinfo.match_uint, type(pinfo.private), pinfo.in_error_pkt, pinfo.nosuch, pinfo[1]) pinfo.desegment_len = DESEGMENT_ONE_MORE_SEGMENT pinfo.nosuch = 'v' pinfo.private.k = 'pv' emit(pinfo.desegment_len, pinfo.nosuch, pinfo.private.k)", D10),
    # ---- Proto / ProtoField / DissectorTable inside the dissector (objects are the same at run time)
    ("proto-attrs", "emit(tostring(p), p.name, p.description, type(p.fields), type(p.dissector), type(p.prefs), type(p.experts), type(p), tostring(f.u), f.u .. '', tostring(f.u8), tostring(f.li)) try(function() return p.nosuch end) try(function() p.nosuch = 1 end) try(function() return p[1] end) try(function() p[1] = 1 end) try(function() p() end) try(function() p.dissector = 5 end) try(function() p.fields = 5 end) try(function() p.fields = f.u end) try(function() p.fields = {1} end) try(function() p.init = 5 end) try(function() p.init = function() end return type(p.init) end) try(function() p.prefs_changed = print return type(p.prefs_changed) end) try(function() return p:register_heuristic('tcp', print) end) try(function() return f.u.name end) try(function() return f.u() end)", D10),
    ("protofield-ctor", "try(function() return tostring(ProtoField.uint8('a.b', 'n', base.HEX, {}, 0xf0, 'desc')) end) try(function() return tostring(ProtoField.string('a-b_c.d9')) end) try(function() return tostring(ProtoField.uint16('ab', 5)) end) try(function() return tostring(ProtoField.uint16('ab', 1.5)) end) try(function() return ProtoField.uint8() end) try(function() return ProtoField.uint8(5) end) try(function() return ProtoField.uint8('') end) try(function() return ProtoField.uint8('bad abbrev') end) try(function() return ProtoField.uint8('bad\\233') end) try(function() return ProtoField.uint8('x', {}) end) try(function() return ProtoField.uint8('x', true) end) try(function() return tostring(ProtoField.new('Name', 'ab.c', ftypes.UINT8)) end) try(function() return ProtoField.new('Name') end) try(function() return tostring(ProtoField.int('i.x', 'x')) end) try(function() return ProtoField.nosuch('x') end) try(function() return ProtoField.uint128 end) try(function() return tostring(ProtoField.bool('b.b', 'B', 8, nil, 1)) end) try(function() return tostring(ProtoField.framenum('f.n')) end)", D10),
    ("proto-ctor", "try(function() return tostring(Proto('Another', 'Another Protocol')) end) try(function() return Proto('t', 'x') end) try(function() return Proto('Other', 'T Protocol') end) try(function() return Proto() end) try(function() return Proto('x') end) try(function() return Proto(5, 'x') end) try(function() return Proto('', 'x') end) try(function() return Proto('y', 5) end) try(function() return tostring(Proto.new('Third', 'Third P')) end) try(function() return type(Proto), type(ProtoField), type(DissectorTable), type(Dissector), type(UInt64), type(base), type(ftypes) end)", D10),
    ("dissectortable", "local t = DissectorTable.get('tcp.port') emit(tostring(t), type(t), t == DissectorTable.get('tcp.port'), t == DissectorTable.get('udp.port'), tostring(DissectorTable.new('my.table')), type(DissectorTable.list())) try(function() return t:add(2, p) end) try(function() return t:add('80-90', p) end) try(function() return t:set(3, p) end) try(function() return t:add(2, Proto('NoDis', 'No Dissector')) end) try(function() return t:add(2, 5) end) try(function() return t:add(2) end) try(function() return t:add({}, p) end) try(function() return t:add(nil, p) end) try(function() return DissectorTable.get() end) try(function() return DissectorTable.get(5) end) try(function() return t:remove(2, p) end) try(function() return t:remove_all(p) end) try(function() return t:try(1, buf, pinfo, tree) end) try(function() return t:get_dissector(1) end) try(function() return t:add_for_decode_as(p) end) try(function() return t:nosuch() end) local d = Dissector.get('data') emit(tostring(d), type(d), d.nosuch) try(function() return d:call(buf, pinfo, tree) end) try(function() return t:add(9, d) end) try(function() return type(Dissector.list()) end)", D10),
    ("globals", "emit(base.NONE, base.DEC, base.HEX, base.OCT, base.DEC_HEX, base.HEX_DEC, base.CUSTOM, base.UNIT_STRING, base.RANGE_STRING, base.ASCII, base.UNICODE, base.DOT, base.DASH, base.COLON, base.SPACE, base.LOCAL, base.UTC, base.DOY_UTC, base.NETMASK, base.NOSUCH) emit(ftypes.NONE, ftypes.PROTOCOL, ftypes.BOOLEAN, ftypes.UINT8, ftypes.UINT32, ftypes.UINT64, ftypes.INT8, ftypes.INT64, ftypes.FLOAT, ftypes.DOUBLE, ftypes.STRING, ftypes.STRINGZ, ftypes.BYTES, ftypes.IPv4, ftypes.GUID, ftypes.OID) emit(ENC_BIG_ENDIAN, ENC_LITTLE_ENDIAN, ENC_NA, ENC_ASCII, ENC_UTF_8, DESEGMENT_ONE_MORE_SEGMENT, DESEGMENT_UNTIL_FIN, PI_MALFORMED, PI_ERROR, PI_WARN, PI_NOTE, PI_CHAT, PI_PROTOCOL, PI_UNDECODED, get_version()) emit(type(register_postdissector), type(debug), type(info), type(message), type(warn), type(critical), type(report_failure), type(set_plugin_info), type(register_menu), select('#', info('x')), select('#', register_postdissector(p)))", D10),
    ("bit-libs", "emit(bit32.band(0xFF, 0x0F), bit32.bor(1, 2), bit32.bxor(3, 1), bit32.lshift(1, 4), bit32.rshift(256, 4), bit32.bnot(0), bit32.lshift(1, 31), bit32.lshift(1, 32), bit32.arshift(0x80000000, 4), bit32.band(), bit32.bor(), bit32.band(-1), bit32.rshift(-1, 28)) emit(bit.band(0xF0, 0x3C), bit.bor(1, 2, 4), bit.bxor(7, 2), bit.lshift(1, 31), bit.lshift(1, 32), bit.rshift(-1, 28), bit.arshift(-16, 2), bit.arshift(0x80000000, 4), bit.bnot(0), bit.tobit(0xffffffff), bit.tobit(2^32 + 5), bit.tohex(255), bit.tohex(255, 4), bit.tohex(-1, -4), bit.band(-1, 0xff))", D10),
    ("dissector-return", "return 7", D10),
    ("dissector-return-float", "return 2.5", D10),
    ("dissector-return-string", "return 'x'", D10),
    ("dissector-return-multiple", "return 3, 4", D10),
    ("dissector-error-value-table", "error({code = 1})", D10),
    ("dissector-error-value-nil", "error()", D10),
    ("dissector-error-level2", "error('from caller', 2)", D10),
    ("dissector-error-u64", "error(buf(0, 8):uint64())", D10),
    ("dissector-runaway", "while true do tree:add('x', buf(0, 0)) end", D10),
    ("dissector-generated-shape", "pinfo.cols.protocol = 'root'\nlocal offset = 0\nlocal n = buf(offset, 1):le_uint()\ntree:add('us Size: ' .. n, buf(offset, 1))\noffset = offset + 1\nfor i = 1, n do\n  tree:le_add(f.u, buf(offset, 2))\n  offset = offset + 2\n  pinfo.cols.info:append(' us[' .. i .. ']')\nend\nlocal len = buf(offset, 8):uint64()\ntree:add('s Len: ' .. len, buf(offset, 8))\noffset = offset + 8\ntree:add(f.s, buf(offset, len))", bytes([2, 1, 0, 2, 0]) + bytes(7) + b"\x02hi"),
]

API_LOAD = [
    ("load-no-dissector-in-table", "local p = Proto('A', 'A')\nlocal t = DissectorTable.get('tcp.port')\nt:add(1, p)"),
    ("load-dissector-not-function", "local p = Proto('A', 'A')\np.dissector = 5"),
    ("load-syntax", "local p = Proto('A', 'A'\n"),
    ("load-nothing-registered", "local x = 1"),
    ("load-proto-without-table", "local p = Proto('A', 'A') function p.dissector(buf, pinfo, tree) tree:add(p, buf(0, 1)) end"),
    ("load-two-protos-last-registered-wins", "local a = Proto('A', 'A p') local b = Proto('B', 'B p') function a.dissector(buf, pinfo, tree) tree:add(a, buf(0, 1), 'from a') end function b.dissector(buf, pinfo, tree) tree:add(b, buf(0, 1), 'from b') end local t = DissectorTable.get('tcp.port') t:add(1, b) t:add(2, a)"),
    ("load-two-protos-unregistered", "local a = Proto('A', 'A p') local b = Proto('B', 'B p') function a.dissector(buf, pinfo, tree) tree:add(a, buf(0, 1), 'from a') end function b.dissector(buf, pinfo, tree) tree:add(b, buf(0, 1), 'from b') end"),
    ("load-duplicate-proto", "local p = Proto('A', 'A') local q = Proto('a', 'B')"),
    ("load-bad-abbrev", "local f = ProtoField.uint8('bad abbrev', 'x')"),
    ("load-fields-not-protofield", "local p = Proto('A', 'A') p.fields.x = 5 function p.dissector() end"),
    ("load-fields-assign-bad", "local p = Proto('A', 'A') p.fields = {a = ProtoField.uint8('a.a'), b = 'x'}"),
    ("load-protofield-int-lenient", "local p = Proto('I', 'I') local f = ProtoField.int('i.x', 'x', base.DEC) p.fields = {f} function p.dissector(buf, pinfo, tree) tree:add(f, buf(0, 2)) tree:le_add(f, buf(0, 2)) end DissectorTable.get('tcp.port'):add(1, p)"),
    ("load-runtime-error-line3", "local p = Proto('A', 'A')\nlocal t = nil\nt.x = 1"),
    ("load-call-nil-global", "local p = Proto('A', 'A')\n\nundefined_helper(p)"),
    ("load-emit-at-top", "emit('top', 1, 2.5) local p = Proto('A', 'A') function p.dissector(buf) emit('in', buf:len()) end"),
    ("load-fields-by-field-key", "local p = Proto('A', 'A') local fields = {a = ProtoField.uint8('a.a', 'a')} for _, field in pairs(fields) do p.fields[field] = field end function p.dissector(buf, pinfo, tree) tree:add(fields.a, buf(0, 1)) end DissectorTable.get('tcp.port'):add(8080, p)"),
    ("load-infinite-loop", "while true do end"),
    ("load-error-nonstring", "error({})"),
    ("load-dissector-via-rawset", "local p = Proto('A', 'A') p.dissector = function(buf, pinfo, tree) return buf:len() end DissectorTable.get('udp.port'):add('1-5', p)"),
]


def section_api(args, tally):
    for ident, body, data in API:
        # `return f(x)` would be a TAIL call: real Lua then drops the frame of the calling function, so an error raised
        # by the (Lua-written) stub function f would carry no position; `return f(x), nil` is an ordinary call
        body = re.sub(r"return ((?:(?! end\)).)*) end\)", r"return \1, nil end)", body)
        src = API_PRELUDE + body + API_POSTLUDE
        for strict in (False, True):
            d = Dual(tally, "api:%s%s" % (ident, "(strict)" if strict else ""), src, "api.lua", strict=strict,
                     max_steps=20000 if ident == "dissector-runaway" else None)
            if d.usable:
                d.dissect("D", data)
                if not strict:
                    d.dissect("again", data)          # a second call on the same session: state does not leak
                    d.dissect("short", data[:3])
                pn, rn = d.py.api_notes(), d.real.api_notes()
                if pn != rn:
                    tally.bad(d.ident, "api_notes differ", "python: %r\n          real  : %r" % (pn, rn))
            d.close()
    for ident, src in API_LOAD:
        for strict in (False, True):
            d = Dual(tally, "api:%s%s" % (ident, "(strict)" if strict else ""), src, "load.lua", strict=strict,
                     max_steps=20000 if ident == "load-infinite-loop" else None)
            if d.usable:
                d.dissect("D", D10)
            d.close()


# ---------------------------------------------------------------------------------------------------------
# section "unit": replay every snippet of test_lua_interp.py through both implementations

def section_unit(args, tally):
    import test_lua_interp as T
    counter = [0]
    current = ["?"]

    def ident():
        counter[0] += 1
        return "unit:%s#%d" % (current[0], counter[0])

    def run(src, **kw):
        o = run_plain_both(tally, ident(), src, max_steps=kw.get("max_steps"))
        if o[0] == "ok":
            return o[1]
        raise o[1]

    def out(src):
        o = run_plain_both(tally, ident(), src)
        if o[0] == "ok":
            return o[2]
        raise o[1]

    class InterpProxy:
        def __init__(self, chunk="chunk", **kw):
            self._it = LI.Interp(chunk, **kw)
            self._chunk = chunk

        def load(self, src, chunk=None):
            i = ident()
            real = lua_real.State()
            try:
                rerr = real.load(src.replace("\r\n", "\n") if isinstance(src, str) else src, "@" + (chunk or self._chunk))
            finally:
                real.close()
            rerr = rerr.decode("utf-8", "replace") if rerr is not None else None
            try:
                fn = self._it.load(src, chunk)
            except LI.Unsupported as e:
                tally.unsupported.append((i, "%s   [real Lua: %s]" % (e, "compiles" if rerr is None else rerr)))
                raise
            except LI.LuaSyntaxError as e:
                if rerr is None:
                    tally.bad(i, "python reports a syntax error, real Lua compiles the chunk", "python: %s\n          source: %s" % (e, src))
                elif cmp_err(tally, i, LI.lua_text(str(e)), rerr, "\n          source: " + src):
                    tally.ok()
                raise
            if rerr is not None:
                tally.bad(i, "python compiles the chunk, real Lua reports a syntax error", "real: %s\n          source: %s" % (rerr, src))
            else:
                tally.ok()
            return fn

        def __getattr__(self, name):
            return getattr(self._it, name)

    class LProxy:
        def __getattr__(self, name):
            return getattr(LI, name)

        Interp = InterpProxy

    class SessionProxy:
        def __init__(self, src, chunk="dissector.lua", strict=False, max_steps=None):
            self._d = Dual(tally, ident(), src, chunk, strict=strict, max_steps=max_steps)
            if self._d.py is None:
                raise AssertionError("python session crashed: %s" % self._d.py_crash)

        def dissect(self, data):
            d = self._d
            if not d.usable:
                return d.py.dissect(data)
            r = d.dissect("unit", bytes(data), globals_=("out", "result"))
            if r is None:
                raise AssertionError("python side crashed / unsupported")
            return r

        def __getattr__(self, name):
            return getattr(self._d.py, name)

    class WProxy:
        def __getattr__(self, name):
            return getattr(LW, name)

        Session = SessionProxy

    saved = (T.run, T.out, T.L, T.W)
    T.run, T.out, T.L, T.W = run, out, LProxy(), WProxy()
    failed = []
    try:
        for fn in (T.test_scoping, T.test_operators, T.test_errors, T.test_syntax, T.test_numeric_for, T.test_tables,
                   T.test_calls_methods_varargs, T.test_strings, T.test_wireshark):
            current[0] = fn.__name__
            counter[0] = 0
            try:
                fn()
            except AssertionError as e:
                failed.append((fn.__name__, "assertion of the unit test itself failed after %d snippets: %s" % (counter[0], str(e)[:300])))
            except (LI.LuaError, LI.Unsupported) as e:
                failed.append((fn.__name__, "unit test stopped after %d snippets: %s: %s" % (counter[0], type(e).__name__, str(e)[:300])))
    finally:
        T.run, T.out, T.L, T.W = saved
    tally.extra = {"stopped": failed}


# ---------------------------------------------------------------------------------------------------------
# Catalogue of the deviations of lua_interp.py / lua_wireshark.py from real Lua 5.3 found with this bench (first run:
# 2026-09-29, Debian liblua5.3 5.3.6).  A disagreement whose "ident + detail" matches one of the patterns is reported
# as KNOWN (label in front) and does not make the exit status non-zero; anything else is NEW.
# B = behaviour, T = message text only.

KNOWN = [
    ("B1 arithmetic on numeric STRINGS gives an integer ('10' + 5 == 15); Lua 5.3 converts strings to floats (15.0) [5.4 semantics]",
     r"plain:arith-string-coercion\b|api:u64-as-number|source: return 1 \+ 1, 1 \+ 1\.0, '10' \+ 5"),
    ("B2 numeric for with STRING bounds loops over integers; Lua 5.3 loops over floats (1.0, 2.0, 3.0)",
     r"plain:for-string-bounds|source: local n = 0 for i = '1', '3' do"),
    ("B3 numeric for whose limit is math.maxinteger / mininteger terminates; in Lua 5.3 the index wraps around and the loop never ends [5.4 semantics]",
     r"plain:for-maxint|plain:for-minint|plain:for-big-step-overflow|source: local s = 0 for i = math\.maxinteger - 1, math\.huge"),
    ("B4 'for' step 0 raises \"'for' step is zero\"; Lua 5.3 raises nothing (the loop runs 0 times or for ever) [5.4 semantics]",
     r"plain:for-errors|source: for i = 1, 2, 0 do end"),
    ("B5 error(msg, level) ignores level >= 2 (always the position of the error call); assert(false, 'msg') does not add the position (Lua 5.3 does)",
     r"plain:err-error-function|plain:err-error-levels|plain:err-assert"),
    ("B6 math.floor / math.ceil / math.tointeger of floats outside the int64 range return out-of-range Python integers (real: the float / nil); "
     "math.tointeger('8') is nil (real: 8)", r"plain:math-floor-big|plain:math-functions"),
    ("B7 2^64 | 0 gives 0 (real: error 'number has no integer representation')", r"plain:arith-bitwise-errors"),
    ("B8 tonumber('-9223372036854775808') is a float (real: the integer math.mininteger)", r"plain:tonumber"),
    ("B9 -0.0 % 3 is 0.0 (real: -0.0)", r"plain:arith-modulo"),
    ("B10 pairs(nil) fails inside pairs (real: returns next, nil, nil and fails at the first iteration); tostring() returns 'nil' (real: error 'value expected'); "
     "messages of ipairs() / table.concat / next differ", r"plain:err-stdlib-args"),
    ("B11 a UTF-8 byte order mark at the start of the file is a syntax error (luaL_loadfile, used by Wireshark, skips it)", r"plain:load-bom"),
    ("T1 no proper tail calls: `local function f() return f() end f()` is a stack overflow (real: runs for ever)", r"source: local function f\(\) return f\(\) end f\(\)"),
    ("T2 operand info \"(constant 'abc')\" is appended for string constants [5.4 style]; Lua 5.3 gives none", r"\(constant '"),
    ("T3 'n%%0' is spelled with two percent signs; integer division by zero says \"attempt to perform 'n//0'\" (this liblua5.3: 'attempt to divide by zero')",
     r"attempt to perform 'n(//|%%)0'"),
    ("T4 messages built with tointeger(v, 'bad argument #n to f (') lack the closing parenthesis; the argument number of a method call "
     "(('%d'):format(3.5), ('x'):rep(u64)) is not decremented as luaL_argerror does", r"\((number has no integer representation|number expected, got \w+)[\"']?\n"),
    ("T5 no \"(field '?')\" operand info for t[1]() / t[1][2]", r"plain:err-call-kinds|plain:err-index-kinds"),
    ("T6 userdata are called 'userdata' in type errors; real Lua 5.3 uses the __name of the metatable (Wireshark registers its classes with luaL_newmetatable, "
     "so it says 'a TvbRange value', 'got UInt64')", r"a userdata value|got userdata"),
    ("T7 assignment to a field of a userdata without setter: no \"(field 'info')\" operand info", r"attempt to index a Column value"),
    ("T8 generic-for messages: 'got no value' (real 'got nil'), \"(for iterator 'for iterator')\" [5.4 style]", r"for iterator"),
    ("T9 wording of syntax errors (quoting of <eof>, break outside a loop, malformed number, escapes in strings, unfinished long string/comment)",
     r"expected near '2'|outside a loop|malformed number|invalid escape sequence|decimal escape too large|unfinished long"),
]
_KNOWN_RE = [(label, re.compile(pat)) for label, pat in KNOWN]


def known_label(ident, detail):
    text = ident + "\n" + detail + "\n"
    for label, rx in _KNOWN_RE:
        if rx.search(text):
            return label.split(" ", 1)[0]
    return None


# ---------------------------------------------------------------------------------------------------------

SECTIONS = [("corpus", section_corpus, "generated dissectors over wire messages"),
            ("plain", section_plain, "hand-written plain Lua snippets"),
            ("api", section_api, "hand-written Wireshark API snippets"),
            ("unit", section_unit, "snippets of test_lua_interp.py")]


def clip(text, n=700):
    return "\n".join(ln if len(ln) <= n else ln[:n] + " ...[%d more characters]" % (len(ln) - n) for ln in text.split("\n"))


def report(t, verbose):
    print("  comparisons %d   agreements %d   BEHAVIOUR disagreements %d   error-text-only differences %d   (line-only differences %d, outside the python subset %d)" % (
        t.n, t.agree, len(t.dis), len(t.minor), len(t.line_only), len(t.unsupported)))
    if t.errors:
        print("  %d of the agreements are errors raised identically by both; distinct messages (numbers -> N):" % t.errors)
        for k, n in sorted(t.err_kinds.items(), key=lambda kv: -kv[1])[:None if verbose else 12]:
            print("      %6d x %s" % (n, k[:150]))
        if not verbose and len(t.err_kinds) > 12:
            print("      ... %d more distinct messages (-v shows all)" % (len(t.err_kinds) - 12))
    t.new = 0
    for kind, items in (("DISAGREE", t.dis), ("text-only", t.minor)):
        for ident, what, detail in items:
            k = known_label(ident, detail)
            if k is None:
                t.new += 1
            if k is None or verbose or not t.quiet_known:
                print("  %s %s %s\n        %s\n          %s" % (kind, "NEW" if k is None else "(known %s)" % k, ident, what, clip(detail)))
    nk = len(t.dis) + len(t.minor) - t.new
    if nk and t.quiet_known and not verbose:
        print("  %d disagreements match the catalogue of known deviations (details with -v)" % nk)
    for ident, text in t.limits:
        print("  not-comparable (only one side hit its execution limit) %s: %s" % (ident, clip(text, 300)))
    if t.line_only:
        shown = t.line_only if verbose else t.line_only[:5]
        for ident, pl, rl, msg in shown:
            print("  line-only %s: python line %s / real line %s: %s" % (ident, pl, rl, msg))
        if len(shown) < len(t.line_only):
            print("  ... %d more line-only differences (-v shows all)" % (len(t.line_only) - len(shown)))
    for ident, text in t.unsupported:
        print("  outside-subset %s: %s" % (ident, text))


def main(argv):
    import argparse
    ap = argparse.ArgumentParser(description=__doc__.split("\n\n")[0])
    ap.add_argument("--no-tlc", action="store_true", help="corpus: only the sample programs (skip the ~10 s TLC run)")
    ap.add_argument("--no-variants", action="store_true", help="corpus: only the wire messages, no truncated/extended/random variants")
    ap.add_argument("--only", default="", help="comma separated sections: corpus,plain,api,unit")
    ap.add_argument("--cli", default=DEFAULT_CLI, help="fin-protoc binary (default %s)" % DEFAULT_CLI)
    ap.add_argument("--keep", default=None, help="directory for the rendered DSL and emitted dissectors")
    ap.add_argument("--quiet-known", action="store_true", help="do not print the details of disagreements that match the catalogue KNOWN")
    ap.add_argument("-v", "--verbose", action="store_true")
    args = ap.parse_args(argv)
    want = set(x for x in args.only.split(",") if x)
    try:
        lua_real.lib()
    except lua_real.RealLuaUnavailable as e:
        print("SKIP: %s" % e)
        return 2
    if (not want or "corpus" in want) and not os.path.exists(args.cli):
        print("the fin-protoc binary %s does not exist (use --cli PATH or LUA_DIFF_CLI)" % args.cli)
        return 2
    tallies = []
    for name, fn, title in SECTIONS:
        if want and name not in want:
            continue
        t = Tally(name)
        t.quiet_known = args.quiet_known
        t0 = time.time()
        print("== %s: %s" % (name, title))
        fn(args, t)
        t.seconds = time.time() - t0
        tallies.append(t)
        if name == "corpus":
            st = t.extra
            print("  programs %d (compile failed %d)   dissector files %d (loaded by both: %d)   wire messages %d   variants %d   out-of-domain messages skipped %d   [%.1f s, files in %s]" % (
                st["programs"], len(st["compile_failed"]), st["files"], st["loaded_ok"], st["wire"], st["variant"], st["ood"], st["seconds"], st["dir"]))
            for pid, log in st["compile_failed"]:
                print("  compile failed: %s: %s" % (pid, log.strip()[-200:]))
        if name == "unit":
            for fname, why in t.extra.get("stopped", []):
                print("  note: %s: %s" % (fname, why))
        report(t, args.verbose)
    print("== summary")
    tot_n = tot_a = tot_d = tot_m = 0
    for t in tallies:
        print("  %-7s comparisons %5d  agreements %5d  behaviour disagreements %3d  error-text-only %3d  (line-only %3d, outside-subset %2d)  %.1f s" % (
            t.name, t.n, t.agree, len(t.dis), len(t.minor), len(t.line_only), len(t.unsupported), t.seconds))
        tot_n += t.n
        tot_a += t.agree
        tot_d += len(t.dis)
        tot_m += len(t.minor)
    new = sum(t.new for t in tallies)
    print("  total   comparisons %5d  agreements %5d  behaviour disagreements %3d  error-text-only %3d   ->  %d known deviations of lua_interp, %d NEW" % (
        tot_n, tot_a, tot_d, tot_m, tot_d + tot_m - new, new))
    if tot_d + tot_m:
        print("== catalogue of known deviations of lua_interp.py / lua_wireshark.py from real Lua 5.3 (B = behaviour, T = message text)")
        for label, _ in KNOWN:
            print("  " + label)
    return 1 if new else 0


if __name__ == "__main__":
    sys.exit(main(sys.argv[1:]))
