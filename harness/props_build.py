"""C07 (complete, well-formed target code), C17 (emitted self-tests build and pass), C15 (Wireshark dissector)."""
import json
import os
import re

import codec
import dsl
import langs
import tlc
from common import Infra, pmap
from evidence import Report
from props_codec import run_family, optsig

MARKERS = ["is not supported", "-- unsupported", "-- unsupport", "-- Unsupported", "unknow type", "unkown type", "// unknown type",
           "//TODO unknow", "// unknow type", "unsupported type", "Unsupported type", "error generating code"]
NAMESHAPES = ["Logon", "msgType", "msg_type", "ABTest", "JSONBody", "ClOrdID", "F4", "x"]


def scan_markers(outdir):
    hits = []
    for dp, _, fs in os.walk(outdir):
        for f in fs:
            try:
                t = open(os.path.join(dp, f), errors="replace").read()
            except OSError:
                continue
            for m in MARKERS:
                if m in t:
                    hits.append("%s: %s" % (f, m))
                    break
    return hits


def count_files(outdir):
    return sum(len(fs) for _, _, fs in os.walk(outdir)) if os.path.isdir(outdir) else 0


def name_programs():
    """Extra C07 cells: packet / field names that stress the case conversions, names different from types,
    package options omitted."""
    from samples import prog, pk
    F = dsl.field
    out = []
    for nm in NAMESHAPES:
        aux = pk(nm, [F(k="int", name="v", ty="u16")])
        p = prog("name:packet:%s" % nm, [F(k="int", name="k", ty="u8"), F(k="obj", name=nm, ty=nm), F(k="obj", name="items", ty=nm, rep=True),
                                         F(k="match", name="body", key="k", pairs=[{"keys": [[1]], "lits": ["1"], "pkt": nm}])], aux=[aux])
        p["cells"] = ["name:packet:%s" % nm]
        out.append(p)
        p = prog("name:field:%s" % nm, [F(k="int", name=nm, ty="u32"), F(k="dyn", name=nm + "2"), F(k="int", name=nm + "3", ty="i16", rep=True)])
        p["cells"] = ["name:field:%s" % nm]
        out.append(p)
    p = prog("opts:pkgs-omitted", [F(k="int", name="a", ty="u8")], pkgs="omit")
    p["cells"] = ["opts:pkgs-omitted"]
    out.append(p)
    p = prog("opts:padleft-only", [F(k="fix", name="a", n=4)], padleft="true")
    p["cells"] = ["opts:padleft-only"]
    out.append(p)
    return out


_EXTRA = {}


def run_extra(tier, use):
    key = (tier, tuple(use))
    if key in _EXTRA:
        return _EXTRA[key]
    from common import build_cli
    import tempfile
    import atexit
    import shutil
    cli = build_cli()
    tmp = tempfile.mkdtemp(prefix="verif-names-")
    atexit.register(lambda: shutil.rmtree(tmp, ignore_errors=True))
    progs = name_programs()

    def one(ip):
        i, p = ip
        return codec.run_prog(cli, p, tier, os.path.join(tmp, "n%d" % i), use)
    res = pmap(one, list(enumerate(progs)), workers=16)
    _EXTRA[key] = (progs, res)
    return _EXTRA[key]


def lifecycle_events(results, use, with_selftest):
    events, meta = [], []
    jobs = []
    for res in results:
        prog = res["prog"]
        comp = res["compile"]
        events.append({"ev": "program", "id": prog["id"], "npackets": len(prog["pkts"]), "accepted": comp["rc"] == 0})
        meta.append({"prog": prog["id"]})
        for l in use:
            d = comp["dirs"].get(l)
            s = res["sessions"].get(l)
            nfiles = count_files(d)
            if comp["rc"] != 0:
                events.append({"ev": "target", "lang": l, "files": nfiles, "build": False, "marker": False, "inventory": True})
                meta.append({"prog": prog["id"], "lang": l})
                continue
            if s is None:
                continue
            marks = scan_markers(d)
            inv = not any(e.get("cls") == "member-missing" for e in s["events"])
            events.append({"ev": "target", "lang": l, "files": nfiles, "build": bool(s["build"]["ok"]), "marker": bool(marks), "inventory": inv})
            meta.append({"prog": prog["id"], "lang": l, "log": s["build"].get("log", "")[-600:], "markers": marks[:3],
                         "missing": next((e.get("err") for e in s["events"] if e.get("cls") == "member-missing"), None)})
            if with_selftest and l != "lua":
                jobs.append((res, l, len(events)))
    return events, meta, jobs


def check_c07(tier):
    rep = Report("C07", tier, "exploration")
    use = langs.available() + (["lua"] if langs.get("lua") else [])
    progs, results, tmp = run_family(tier, use, None, rep)
    xprogs, xres = run_extra(tier, use)
    allres = list(results) + list(xres)
    byid = {r["prog"]["id"]: r["prog"] for r in allres}
    events, meta, _ = lifecycle_events(allres, use, False)
    vs = validate_lifecycle(rep, events, meta)
    failing = {}
    for v in vs:
        m = v["meta"]
        for f in v["fails"]:
            failing.setdefault("%s|%s|%s" % (m["lang"], m["prog"], f["kind"]), (v, m))
    for e, m in zip(events, meta):
        if e["ev"] == "target" and not any(k.startswith("%s|%s|" % (m["lang"], m["prog"])) for k in failing):
            rep.case("%s|%s|ok" % (m["lang"], m["prog"]), True)
    for sig, (v, m) in sorted(failing.items()):
        prog = byid[m["prog"]]
        rep.case(sig, False, "%s output for program %s: %s %s" % (m["lang"], m["prog"], sig.split("|")[-1],
                 (m.get("log") or m.get("markers") or m.get("missing") or "")),
                 {"dsl": dsl.render(prog), "lang": m["lang"], "detail": {k: m.get(k) for k in ("log", "markers", "missing")},
                  "how": "fin-protoc -f p.dsl with all outputs; build the emitted non-test files against /verif/runtimes/<lang>"})
    rej = [r for r in allres if r["compile"]["rc"] != 0]
    for r in rej:
        rep.case("compiler|%s|rejected-wellformed" % r["prog"]["id"], False,
                 "well-formed program %s is rejected by the compiler: %s" % (r["prog"]["id"], r["compile"]["out"][-300:]),
                 {"dsl": r["compile"]["dsl"], "out": r["compile"]["out"][-800:]})
    rep.cov["programs"] = len(allres)
    rep.cov["targets"] = use
    if allres:
        rep.sample({"program": allres[0]["prog"]["id"], "dsl": allres[0]["compile"]["dsl"][:400]})
    rep.assumptions += ["validity of emitted text is decided by the target toolchains (go, rustc, javac, g++, python ast) and, for Lua, by the "
                        "harness's own Lua parser", "the reference runtimes define the codec API"]
    return rep.finish("every DslGen cell x option settings + name-shape / omitted-package cells, all six targets; the recorded lifecycle "
                      "(files, build, marker, inventory) validated by TLC against TraceLifecycle.tla; distinct = (target, program, outcome)")


def validate_lifecycle(rep, events, meta):
    text = "\n".join(json.dumps(e, sort_keys=True) for e in events) + "\n"
    cfg = "SPECIFICATION Spec\nPOSTCONDITION Accepted\nCHECK_DEADLOCK FALSE\n"
    r = tlc.run_tlc("TraceLifecycle", cfg, workers=1, timeout=900, extra_files={"trace.ndjson": text})
    if not r.ok or r.depth != len(events) + 1:
        raise Infra("TraceLifecycle failed: rc=%s %s %s\n%s" % (r.rc, r.errors[:3], r.violated, r.out[-1500:]))
    rep.tlc(r, traces=sum(1 for e in events if e["ev"] == "program"))
    out = []
    for v in r.verdicts:
        v = dict(v)
        v["meta"] = meta[v["i"] - 1]
        out.append(v)
    return out


def check_c17(tier):
    rep = Report("C17", tier, "exploration")
    use = langs.available()
    progs, results, tmp = run_family(tier, use, None, rep)
    jobs = []
    for i, res in enumerate(results):
        for l in use:
            if l in res.get("dirs", {}):
                jobs.append((i, l))

    def one(job):
        i, l = job
        res = results[i]
        sc = os.path.join(tmp, "p%d" % i, "selftest_" + l)
        os.makedirs(sc, exist_ok=True)
        try:
            return job, langs.get(l).selftest(res["dirs"][l], sc)
        except Exception as e:
            raise Infra("selftest plug-in %s failed on %s: %s" % (l, res["prog"]["id"], e))
    sts = dict(pmap(one, jobs, workers=16))
    events, meta = [], []
    for i, res in enumerate(results):
        prog = res["prog"]
        events.append({"ev": "program", "id": prog["id"], "npackets": len(prog["pkts"]), "accepted": bool(res.get("dirs"))})
        meta.append({"prog": prog["id"]})
        for l in use:
            st = sts.get((i, l))
            if st is None:
                continue
            events.append({"ev": "selftest", "lang": l, "build": bool(st["build_ok"]), "ran": int(st["ran"]), "passed": int(st["passed"]), "failed": int(st["failed"])})
            meta.append({"prog": prog["id"], "lang": l, "log": st.get("log", "")[-700:], "failed": int(st["failed"]), "ran": int(st["ran"])})
    vs = validate_lifecycle(rep, events, meta)
    byid = {p["id"]: p for p in progs}
    failing = {}
    for v in vs:
        m = v["meta"]
        for f in v["fails"]:
            kind = f["kind"]
            if kind == "selftest-fails":
                kind = "selftest-fails:%dof%d" % (m.get("failed", 0), m.get("ran", 0))
            failing.setdefault("%s|%s|%s" % (m["lang"], m["prog"], kind), m)
    for e, m in zip(events, meta):
        if e["ev"] == "selftest" and not any(k.startswith("%s|%s|" % (m["lang"], m["prog"])) for k in failing):
            rep.case("%s|%s|ok" % (m["lang"], m["prog"]), True)
    for sig, m in sorted(failing.items()):
        rep.case(sig, False, "%s self-tests of program %s: %s %s" % (m["lang"], m["prog"], sig.split("|")[-1], m.get("log", "")[-300:]),
                 {"dsl": dsl.render(byid[m["prog"]]), "lang": m["lang"], "log": m.get("log"),
                  "how": "build and run the tests fin-protoc emitted for this target against /verif/runtimes/<lang> (+ stand-in test framework)"})
    rep.cov["programs"] = len(progs)
    rep.sample({"program": progs[0]["id"], "dsl": dsl.render(progs[0])[:400]})
    rep.assumptions += ["JUnit and gtest are replaced by stand-ins with the same assertion semantics; Go uses the real testify, Rust the built-in harness, Python unittest"]
    return rep.finish("every DslGen cell x option settings, five codec targets: emitted tests built and run; lifecycle validated by TLC "
                      "against TraceLifecycle.tla (tests build, at least one test per declared packet, all pass); distinct = (target, program, outcome)")


def crosscheck_real_lua(results):
    try:
        import lua_real
        lua_real.lib()
    except Exception as e:          # library not present: say so, the interpreter alone remains the trusted base
        return {"available": False, "why": str(e)[:200]}
    compared = agree = 0
    for res in results:
        s = res["sessions"].get("lua")
        if not s or s.get("unsupported") or s.get("crash") or not s.get("file"):
            continue
        path = os.path.join(res["dirs"]["lua"], s["file"])
        try:
            src = open(path, "rb").read()
            rs = lua_real.RealSession(src, s["file"])
        except Exception as e:
            raise Infra("real-Lua cross-check could not load %s: %s" % (res["prog"]["id"], e))
        if bool(rs.ok) != bool(s["build"]["ok"]):
            raise Infra("interpreter and real Lua disagree on loading the dissector of %s: %s / %s" % (res["prog"]["id"], s["build"]["log"][-200:], rs.log))
        byid = {e.get("id"): e for e in s["events"] if e.get("ev") == "dissect"}
        for rec in res["msgs"]:
            e = byid.get(rec["id"])
            if e is None or not rs.ok:
                continue
            r = rs.dissect(bytes(rec["ref"]))
            compared += 1
            a1 = [(a.get("kind"), a.get("name"), a.get("off"), a.get("len")) for a in e.get("adds", [])]
            a2 = [(a.get("kind"), a.get("name"), a.get("off"), a.get("len")) for a in r.get("adds", [])]
            if bool(e.get("ok")) != bool(r.get("ok")) or a1 != a2:
                raise Infra("interpreter and real Lua disagree on %s message %s: %s | %s" % (res["prog"]["id"], rec["label"], (e.get("err"), a1[:4]), (r.get("err"), a2[:4])))
            agree += 1
        rs.close()
    return {"available": True, "dissections_compared": compared, "agree": agree}


def mc_dissect_machine(rep, tier):
    """The operational dissector (offset threaded through sub-dissectors that return it, subtrees, key locals) attributes
    exactly the leaf segments of Wire.tla; each deviation switch (a defect found in the emitted Lua) must be refuted."""
    base = open(os.path.join(tlc.SPEC, "MCDissectMachine.cfg")).read()
    cfg = base if tier == "thorough" else base.replace('Shapes = {"S1", "S2"}', 'Shapes = {"S2"}')
    r = tlc.run_tlc("DissectMachine", cfg, workers=8, timeout=3000, heap="8g")
    tlc.require_ok(r, "DissectMachine (AttributesSegments, EndsAtMessageEnd, RangesInside, OffsetMonotone)")
    rep.tlc(r)
    for sw, shapes in (("DropOffsetAfterObject", '{"S1"}'), ("DropOffsetAfterMatch", '{"S2"}'), ("OneByteSubtree", '{"S2"}')):
        s = tlc.run_tlc("DissectMachine", base.replace('Shapes = {"S1", "S2"}', "Shapes = " + shapes).replace(sw + " = FALSE", sw + " = TRUE"),
                        workers=8, timeout=900, heap="8g")
        if not s.violated:
            raise Infra("DissectMachine with %s violates nothing: the specification is vacuous" % sw)
        rep.cov.setdefault("spec_sensitivity", {})[sw] = s.violated


def check_c15(tier):
    rep = Report("C15", tier, "model_checking")
    if langs.get("lua") is None:
        raise Infra("no Lua plug-in")
    from props_codec import mc_wire
    mc_wire(rep, "quick")
    mc_dissect_machine(rep, tier)
    progs, results, tmp = run_family(tier, ["lua"], None, rep)
    events, meta = codec.lua_trace_of(results)
    rs, verdicts = codec.validate(events, meta, shards=12, module="TraceDissect")
    for r in rs:
        rep.tlc(r)
    rep.cov["traces_validated_against_impl"] = sum(1 for e in events if e["ev"] == "dissect")
    byid = {p["id"]: p for p in progs}
    failing = {}
    for v in verdicts:
        m = v["meta"]
        for f in v["fails"]:
            sig = "lua|%s|%s%s" % (m["prog"], f["kind"], (":" + f["fk"]) if f.get("fk") not in (None, "-") else "")
            failing.setdefault(sig, (v, m))
    unsupported = 0
    for res in results:
        s = res["sessions"].get("lua")
        pid = res["prog"]["id"]
        if s is None:
            continue
        if s.get("unsupported") or s.get("crash"):
            unsupported += 1
            continue
        if not s["build"]["ok"]:
            failing.setdefault("lua|%s|script-does-not-load" % pid, ({"fails": []}, {"prog": pid, "err": s["build"]["log"][-300:]}))
        if not any(k.startswith("lua|%s|" % pid) for k in failing):
            rep.case("lua|%s|ok" % pid, True)
    for sig, (v, m) in sorted(failing.items()):
        rep.case(sig, False, "dissector of program %s on message '%s': %s %s" % (m["prog"], m.get("msg"), json.dumps(v.get("fails")), (m.get("err") or "")[:200]),
                 {"dsl": dsl.render(byid[m["prog"]]), "message": m.get("msg"), "fails": v.get("fails"), "lua_error": m.get("err"),
                  "how": "fin-protoc -l out; python3 harness/lua_interp.py out/root.lua --hex <canonical bytes>"})
    # the interpreter is not trusted blindly: every dissector is also run under the real Lua 5.3 (liblua5.3 through
    # ctypes, Wireshark stand-in written in Lua) and both must record the same adds; a disagreement is an
    # infrastructure failure (exit 2), never a verdict
    xc = crosscheck_real_lua(results)
    rep.cov["real_lua_crosscheck"] = xc
    rep.cov["programs"] = len(progs)
    rep.cov["unsupported_by_interpreter"] = unsupported
    if unsupported:
        rep.notes.append("%d dissectors use Lua outside the interpreter's subset: no verdict for them" % unsupported)
    rep.sample({"program": progs[0]["id"], "oracle": "field adds == Wire!Segments body parts (name, offset, length), ranges end at the message end"})
    rep.assumptions += ["the Lua-subset interpreter and Wireshark stubs (harness/lua_interp.py, lua_wireshark.py) are trusted; lenient mode: "
                        "TreeItem:le_add and ProtoField.int, which real Wireshark may not provide, are accepted"]
    return rep.finish("every DslGen cell x option settings; the emitted dissector interpreted over the canonical encoding of every sweep message; "
                      "every add validated by TLC against Wire!Segments; distinct = (program, outcome)")
