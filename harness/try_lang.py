#!/usr/bin/env python3
"""Developer smoke test for one language plug-in:
    python3 harness/try_lang.py <lang> [sample-id ...] [-v]
Compiles the sample programs with the real fin-protoc built from /repo, builds the emitted code for
<lang> against /verif/runtimes/<lang>, runs the driver, validates the recorded events with TLC
(spec/TraceCodec.tla) and prints build failures and failing verdicts."""
import json
import os
import sys

sys.path.insert(0, os.path.dirname(os.path.abspath(__file__)))
import codec  # noqa: E402
import common  # noqa: E402
import langs  # noqa: E402
import samples  # noqa: E402


def main():
    args = [a for a in sys.argv[1:] if not a.startswith("-")]
    verbose = "-v" in sys.argv
    nomemo = "--no-memo" in sys.argv
    lang = args[0]
    want = set(args[1:])
    if nomemo:
        langs.memo = lambda key, compute: compute()
    plug = langs.get(lang)
    if plug is None:
        print("no plug-in for", lang)
        return 2
    plug.setup()
    cli = common.build_cli()
    progs = [p for p in samples.SAMPLES if not want or p["id"] in want]
    with common.Scratch() as tmp:
        def one(p):
            return codec.run_prog(cli, p, "quick", os.path.join(tmp, p["id"]), [lang])
        results = common.pmap(one, progs)
        for res in results:
            pid = res["prog"]["id"]
            if res["compile"]["rc"] != 0:
                print("%-16s COMPILE rc=%s %s" % (pid, res["compile"]["rc"], res["compile"]["out"][-300:]))
                continue
            s = res["sessions"][lang]
            nops = len(res["msgs"]) + sum(1 for _ in res["keys"])
            print("%-16s build=%s events=%d crash=%s" % (pid, s["build"]["ok"], len(s["events"]), s.get("crash")))
            if not s["build"]["ok"] or verbose:
                print("    build log:", s["build"]["log"][-1200:].replace("\n", "\n      "))
            if plug.__class__.__dict__.get("_selftest"):
                st = plug.selftest(res["compile"]["dirs"][lang], os.path.join(tmp, pid, "scratch_" + lang))
                print("    selftest: build_ok=%s ran=%s passed=%s failed=%s" % (st["build_ok"], st["ran"], st["passed"], st["failed"]))
                if (st["failed"] or not st["build_ok"]) and verbose:
                    print("      ", st["log"][-800:].replace("\n", "\n       "))
        evs, meta = codec.trace_of(results, [lang])
        if not evs:
            print("no events")
            return 0
        rs, vs = codec.validate(evs, meta, shards=4)
        print("TLC validated %d events, %d failing verdicts" % (len(evs), len(vs)))
        seen = set()
        for v in vs:
            m = v["meta"]
            key = (m.get("prog"), json.dumps(v["fails"], sort_keys=True))
            if key in seen and not verbose:
                continue
            seen.add(key)
            print("  %-14s %-6s msg=%-10s %s %s" % (m.get("prog"), v["ev"], m.get("msg", m.get("key")), json.dumps(v["fails"]), (m.get("err") or "")[:160]))
    return 0


if __name__ == "__main__":
    sys.exit(main())
