"""Run Wireshark dissectors (and plain Lua chunks) under the REAL Lua 5.3 (liblua5.3.so through ctypes; there is no
`lua` executable in the sandbox) with the Wireshark stand-in harness/lua_wsstub.lua, which mirrors lua_wireshark.py.

Purpose: a second, independent implementation to cross-check the trusted base lua_interp.py + lua_wireshark.py
(see lua_diff.py).  `RealSession` has the observable surface of `lua_wireshark.Session`:

    s = RealSession(src_bytes, "root.lua")        # strict=False: ProtoField.int and TreeItem:le_add are accepted
    s.ok, s.log, s.unsupported (always None), s.api_notes()
    s.dissect(data) -> {"ok", "err", "adds": [{"kind","abbr","name","off","len","le","text","parent"}], "ret", "cols"}

`run_plain(src)` runs a chunk without a dissector and returns its returned / emitted / printed values in a
serialised form that `ser()` reproduces for values of the Python interpreter, so the two can be compared textually.

Every run (top-level chunk, each dissect call) has an instruction-count limit (a Lua count hook installed by the
stub with debug.sethook; pcall/xpcall are wrapped so that a script cannot swallow the limit error).
"""
import ctypes
import ctypes.util
import math
import os

HERE = os.path.dirname(os.path.abspath(__file__))
STUB = os.path.join(HERE, "lua_wsstub.lua")
DEFAULT_LIMIT = 50000000


class RealLuaUnavailable(Exception):
    pass


def _load_lib():
    for name in ("liblua5.3.so.0", "liblua5.3.so", ctypes.util.find_library("lua5.3")):
        if not name:
            continue
        try:
            return ctypes.CDLL(name)
        except OSError:
            continue
    raise RealLuaUnavailable("liblua5.3 shared library not found")


_lua = None
LUA_CFUNCTION = ctypes.CFUNCTYPE(ctypes.c_int, ctypes.c_void_p)


def lib():
    global _lua
    if _lua is not None:
        return _lua
    l = _load_lib()
    vp, ci, cp = ctypes.c_void_p, ctypes.c_int, ctypes.c_char_p
    l.luaL_newstate.restype = vp
    l.luaL_openlibs.argtypes = [vp]
    l.luaL_openlibs.restype = None
    l.luaL_loadbufferx.argtypes = [vp, cp, ctypes.c_size_t, cp, cp]
    l.luaL_loadbufferx.restype = ci
    l.lua_pcallk.argtypes = [vp, ci, ci, ci, vp, vp]
    l.lua_pcallk.restype = ci
    l.lua_tolstring.argtypes = [vp, ci, ctypes.POINTER(ctypes.c_size_t)]
    l.lua_tolstring.restype = vp
    l.lua_settop.argtypes = [vp, ci]
    l.lua_settop.restype = None
    l.lua_close.argtypes = [vp]
    l.lua_close.restype = None
    l.lua_setglobal.argtypes = [vp, cp]
    l.lua_setglobal.restype = None
    l.lua_pushlstring.argtypes = [vp, cp, ctypes.c_size_t]
    l.lua_pushlstring.restype = vp
    l.lua_pushcclosure.argtypes = [vp, LUA_CFUNCTION, ci]
    l.lua_pushcclosure.restype = None
    l.lua_newuserdata.argtypes = [vp, ctypes.c_size_t]
    l.lua_newuserdata.restype = vp
    _lua = l
    return l


@LUA_CFUNCTION
def _newud(L):
    """lua_CFunction: return a fresh full userdata (never raises a Lua error, so no longjmp crosses Python frames)."""
    _lua.lua_newuserdata(L, 1)
    return 1


_STUB_SRC = None


def _stub_src():
    global _STUB_SRC
    if _STUB_SRC is None:
        with open(STUB, "rb") as f:
            _STUB_SRC = f.read()
    return _STUB_SRC


class LuaFailure(Exception):
    """An error of the host plumbing or of the stub itself (not of the script under test)."""


class State:
    """One lua_State with the stub loaded."""

    def __init__(self, limit=DEFAULT_LIMIT, strict=False):
        l = lib()
        self.L = l.luaL_newstate()
        if not self.L:
            raise LuaFailure("luaL_newstate failed")
        l.luaL_openlibs(self.L)
        l.lua_pushcclosure(self.L, _newud, 0)
        l.lua_setglobal(self.L, b"__ws_newud")
        err = self.load(_stub_src(), "@lua_wsstub.lua")
        if err is not None:
            raise LuaFailure("lua_wsstub.lua does not compile: " + err.decode("latin-1"))
        if l.lua_pcallk(self.L, 0, 0, 0, None, None) != 0:
            raise LuaFailure("lua_wsstub.lua failed: " + self._pop_string().decode("latin-1"))
        self.call("__ws_config(%d, %s)" % (limit, "true" if strict else "false"), 0)

    def close(self):
        if self.L:
            lib().lua_close(self.L)
            self.L = None

    def __del__(self):
        try:
            self.close()
        except Exception:
            pass

    def _pop_string(self):
        l = lib()
        n = ctypes.c_size_t(0)
        p = l.lua_tolstring(self.L, -1, ctypes.byref(n))
        s = ctypes.string_at(p, n.value) if p else b"(error object is not a string)"
        l.lua_settop(self.L, 0)
        return s

    def load(self, src, chunkname):
        """Compile src; on success the function is left on the stack and None is returned, else the message."""
        if isinstance(src, str):
            src = src.encode("latin-1")
        if isinstance(chunkname, str):
            chunkname = chunkname.encode("utf-8")
        # what luaL_loadfile (used by Wireshark and the lua executable) does before compiling: skip a UTF-8 BOM and
        # a first line starting with '#' (the newline stays, so line numbers are unchanged)
        if src.startswith(b"\xef\xbb\xbf"):
            src = src[3:]
        if src.startswith(b"#"):
            nl = src.find(b"\n")
            src = b"" if nl < 0 else src[nl:]
        rc = lib().luaL_loadbufferx(self.L, src, len(src), chunkname, b"t")
        if rc != 0:
            return self._pop_string()
        return None

    def load_global(self, src, chunkname, gname=b"__ws_chunk"):
        err = self.load(src, chunkname)
        if err is not None:
            return err
        lib().lua_setglobal(self.L, gname)
        return None

    def set_bytes(self, name, data):
        l = lib()
        l.lua_pushlstring(self.L, bytes(data), len(data))
        l.lua_setglobal(self.L, name)

    def call(self, code, nres=1):
        """Run a line of host code (`return f(...)`); -> bytes of the single string result."""
        l = lib()
        err = self.load(code, "=host")
        if err is not None:
            raise LuaFailure("host code does not compile: %s" % err.decode("latin-1"))
        if l.lua_pcallk(self.L, 0, nres, 0, None, None) != 0:
            raise LuaFailure("host call failed: %s" % self._pop_string().decode("latin-1"))
        if nres:
            return self._pop_string()
        l.lua_settop(self.L, 0)
        return None


def _unhex(h):
    return bytes.fromhex(h.decode("ascii") if isinstance(h, bytes) else h)


def _text(h):
    return _unhex(h).decode("utf-8", "replace")


def _unser_number(s):
    if s.startswith("i:"):
        return int(s[2:])
    if s.startswith("f:"):
        return float(s[2:])
    return None


class RealSession:
    """Counterpart of lua_wireshark.Session running under liblua5.3."""

    def __init__(self, src, chunk="dissector.lua", strict=False, max_instr=DEFAULT_LIMIT):
        self.ok = False
        self.log = ""
        self.unsupported = None
        self.chunk = chunk
        self.strict = strict
        self.st = State(max_instr, strict)
        if isinstance(src, str):
            src = src.encode("latin-1")
        err = self.st.load_global(src, "@" + chunk)
        if err is not None:
            self.log = "syntax error: %s" % err.decode("utf-8", "replace")
            return
        r = self.st.call("return __ws_load()").split(b"\t")
        if r[0] == b"OK":
            self.ok = True
        else:
            self.log = _text(r[1])

    def close(self):
        self.st.close()

    def set_limit(self, max_instr):
        """instruction limit of the following dissect() calls (0 = none)"""
        self.st.call("__ws_config(%d, %s)" % (max_instr, "true" if self.strict else "false"), 0)

    def api_notes(self):
        r = self.st.call("return __ws_notes()")
        return [_text(x) for x in r.split(b"\n") if x]

    def emitted(self):
        """emit(...) lines since the last load / dissect / emitted() call"""
        r = self.st.call("return __ws_emitted()")
        return [x.decode("ascii") for x in r.split(b"\n")] if r else []

    def global_repr(self, name):
        return self.st.call("return __ws_repr(%r)" % name).decode("ascii")

    def dissect(self, data):
        if not self.ok:
            raise LuaFailure("dissect() on a session that did not load: " + self.log)
        self.st.set_bytes(b"__ws_data", bytes(data))
        raw = self.st.call("return __ws_dissect(__ws_data)")
        lines = raw.split(b"\n")
        head = lines[0].split(b"\t")
        out = {"ok": head[0] == b"OK", "adds": [], "ret": None, "err": None, "cols": {}, "emit": []}
        if out["ok"]:
            out["ret"] = _unser_number(head[1].decode("ascii"))
        else:
            out["err"] = _text(head[1])
        for ln in lines[1:]:
            f = ln.split(b"\t")
            if f[0] == b"A":
                out["adds"].append({"kind": f[1].decode("ascii"), "abbr": _text(f[2]), "name": _text(f[3]), "off": int(f[4]),
                                    "len": int(f[5]), "le": f[6] == b"1", "text": _text(f[7]), "parent": int(f[8])})
            elif f[0] == b"C":
                out["cols"][_text(f[1])] = _text(f[2])
            elif f[0] == b"E":
                out["emit"].append(f[1].decode("ascii") if len(f) > 1 else "")
        return out


def run_plain(src, chunk="t", max_instr=DEFAULT_LIMIT):
    """Run a chunk under real Lua (the Wireshark globals are defined but unused).
    -> {"loaded": bool, "ok": bool, "err": text|None, "errser": ser of the error value, "ret": [ser], "emit": [line], "out": [text]}"""
    st = State(max_instr, False)
    try:
        res = {"loaded": True, "ok": False, "err": None, "errser": None, "ret": [], "emit": [], "out": []}
        err = st.load_global(src, "@" + chunk)
        if err is not None:
            res["loaded"] = False
            res["err"] = err.decode("utf-8", "replace")
            return res
        lines = st.call("return __ws_run()").split(b"\n")
        head = lines[0].split(b"\t")
        if head[0] == b"OK":
            res["ok"] = True
        else:
            res["errser"] = head[1].decode("ascii")
            res["err"] = _text(head[2])
        for ln in lines[1:]:
            f = ln.split(b"\t")
            if f[0] == b"R":
                res["ret"].append(f[1].decode("ascii"))
            elif f[0] == b"E":
                res["emit"].append(f[1].decode("ascii") if len(f) > 1 else "")
            elif f[0] == b"P":
                res["out"].append(_text(f[1]) if len(f) > 1 else "")
        return res
    finally:
        st.close()


# ---------------------------------------------------------------------------------------------------------
# the same serialisation for values of the Python interpreter

def ser(v):
    """Serialise a lua_interp value exactly as `ser` of lua_wsstub.lua does for the real one."""
    import lua_interp as LI
    if v is None:
        return "nil"
    t = type(v)
    if t is bool:
        return "true" if v else "false"
    if t is int:
        return "i:%d" % v
    if t is float:
        if v != v:
            return "f:nan"
        if v in (math.inf, -math.inf):
            return "f:inf" if v > 0 else "f:-inf"
        return "f:%.17g" % v
    if t is str:
        return "s:" + v.encode("latin-1", "replace").hex()
    if t is LI.LuaTable:
        return "table"
    if t in (LI.LuaFunction, LI.Builtin):
        return "function"
    if isinstance(v, LI.LuaUserdata):
        return "u:%s:%s" % (v.TYPENAME, LI.tostr(v).encode("latin-1", "replace").hex())
    return "?" + repr(v)


if __name__ == "__main__":
    import json
    import sys
    if len(sys.argv) < 2:
        print("usage: lua_real.py file.lua [--hex 0102...]   (dissect under real Lua 5.3, print the recorded adds)")
        sys.exit(2)
    with open(sys.argv[1], "rb") as fh:
        s = RealSession(fh.read(), os.path.basename(sys.argv[1]), strict="--strict" in sys.argv)
    print("parse/load:", "ok" if s.ok else "FAILED", s.log)
    if s.ok and "--hex" in sys.argv:
        r = s.dissect(bytes.fromhex(sys.argv[sys.argv.index("--hex") + 1]))
        print("dissect:", "ok ret=%r" % (r["ret"],) if r["ok"] else "ERROR " + r["err"])
        for a in r["adds"]:
            print("  " + json.dumps(a, ensure_ascii=False))
        print("cols:", json.dumps(r["cols"], ensure_ascii=False))
    for n in (s.api_notes() if s.st.L else []):
        print("api-note:", n)
