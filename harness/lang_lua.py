"""Language plug-in for the Lua/Wireshark target: the emitted dissector is interpreted in-process by
harness/lua_interp.py with the Wireshark stubs of harness/lua_wireshark.py (no Lua is installed here).

case = {"prog": prog, "ops": [{"op": "dissect", "id": ..., "bytes": [..]}, ...]}  (optional "strict": true ->
non-Wireshark API names such as TreeItem:le_add / ProtoField.int are errors, as in real Wireshark)

result = {"build": {"ok", "log"}, "events": [...], "crash": None, ["unsupported": text], "api_notes": [...], "file": name}
  build.ok  the emitted .lua parses AND its top-level chunk runs without a Lua error AND it registered a Proto with
            a dissector.  A construct outside the interpreter's subset gives build.ok = True + "unsupported": text
            (infrastructure limitation, not a defect of the dissector) and one ok:false event per op with "unsupported".
  event     {"ev": "dissect", "id", "ok": true,  "adds": [...], "ret": number|null}
            {"ev": "dissect", "id", "ok": false, "err": "<Lua error message>", "adds": [adds before the error]}
"""
import os
import sys

sys.path.insert(0, os.path.dirname(os.path.abspath(__file__)))

from common import sha  # noqa: E402
from langs import Lang, emitted_hash  # noqa: E402
import json  # noqa: E402
import lua_interp  # noqa: E402
import lua_wireshark  # noqa: E402

_SELF_HASH = None


def _self_hash():
    global _SELF_HASH
    if _SELF_HASH is None:
        h = ""
        for m in (lua_interp, lua_wireshark, sys.modules[__name__]):
            with open(m.__file__.replace(".pyc", ".py"), "rb") as f:
                h += sha(f.read())
        _SELF_HASH = sha(h)
    return _SELF_HASH


class Lua(Lang):
    name = "lua"

    def toolchain(self):
        return "lua_interp-py%d.%d-%s" % (sys.version_info[0], sys.version_info[1], _self_hash()[:16])

    def key(self, outdir, case, what):
        return sha("|".join([self.name, what, emitted_hash(outdir), self.toolchain(),
                             sha(json.dumps(case, sort_keys=True)) if case is not None else ""]))

    def _session(self, outdir, case, scratch):
        files = sorted(f for f in os.listdir(outdir) if f.endswith(".lua")) if os.path.isdir(outdir) else []
        res = {"build": {"ok": False, "log": ""}, "events": [], "crash": None, "api_notes": [], "file": None}
        if not files:
            res["build"]["log"] = "no .lua file emitted"
            return res
        # the root dissector is the only file the generator writes; if there are several take each in turn and
        # use the first that registers a protocol
        ses = None
        logs = []
        for f in files:
            with open(os.path.join(outdir, f), "rb") as fh:
                src = fh.read()
            try:
                s = lua_wireshark.Session(src, f, strict=bool(case.get("strict")))
            except Exception as e:      # interpreter bug: infrastructure, not a verdict
                res["crash"] = "interpreter failure loading %s: %s: %s" % (f, type(e).__name__, e)
                return res
            logs.append("%s: %s" % (f, s.log or "ok"))
            if ses is None or (s.ok and not ses.ok):
                ses = s
                res["file"] = f
        res["build"]["ok"] = ses.ok
        res["build"]["log"] = "\n".join(logs)[-1500:]
        if ses.unsupported:
            res["unsupported"] = ses.unsupported
        for op in case.get("ops", []):
            if op.get("op") != "dissect":
                continue
            ev = {"ev": "dissect", "id": op.get("id")}
            if not ses.ok or ses.unsupported or ses.proto is None:
                ev.update(ok=False, err="dissector not loaded: " + (ses.unsupported or ses.log), adds=[])
                if ses.unsupported:
                    ev["unsupported"] = ses.unsupported
                res["events"].append(ev)
                continue
            try:
                r = ses.dissect(bytes(op["bytes"]))
            except lua_interp.Unsupported as e:
                res["unsupported"] = str(e)
                ev.update(ok=False, err="unsupported: %s" % e, adds=list(ses.env.adds), unsupported=str(e))
                res["events"].append(ev)
                continue
            except Exception as e:      # interpreter bug
                res["crash"] = "interpreter failure in op %s: %s: %s" % (op.get("id"), type(e).__name__, e)
                ev.update(ok=False, err="crash", cls="crash", adds=[])
                res["events"].append(ev)
                continue
            if r["ok"]:
                ev.update(ok=True, adds=r["adds"], ret=r["ret"])
            else:
                ev.update(ok=False, err=r["err"], adds=r["adds"])
            ev["cols"] = r.get("cols")
            res["events"].append(ev)
        res["api_notes"] = ses.api_notes()
        return res

    def _selftest(self, outdir, scratch):
        return {"build_ok": True, "ran": 0, "passed": 0, "failed": 0, "log": "fin-protoc emits no self-tests for lua"}


PLUGIN = Lua()
