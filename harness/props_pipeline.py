"""C13 (determinism) and C14 (independence of targets) -- Pipeline.tla / TracePipeline.tla."""
import itertools
import json
import os
import subprocess

import corpus
import tlc
from common import (Infra, Scratch, build_cli, build_driver, pmap, run, seed, sha, write)
from evidence import Report

LANGS = ["lua", "rust", "go", "java", "py", "cpp"]
FLAG = {"lua": "-l", "rust": "-r", "go": "-g", "java": "-j", "py": "-p", "cpp": "-c"}


def form(padchar_left):
    pc, left = padchar_left.rsplit("|", 1)
    m = {"' '": "SP", "'0'": "ZERO", "'\x00'": "RAW", "'\\x00'": "ESCX", "'\\0'": "ESC0", "'\\u0000'": "ESCU"}
    return m.get(pc, "OTHER:" + pc.encode().hex()) + ("/L" if left == "true" else "")


def cells_of(c):
    return {k: form(v) for k, v in (c or {}).items()} or {"none": ""}


def short(files):
    return {k: v[:12] for k, v in (files or {}).items()} or {"none": ""}


def cli_tree(cli, dsl_path, langs, root, with_word=False, timeout=240):
    """Run the real CLI with the given targets; return (rc, stdout, {lang: {relpath: sha}})."""
    args = [cli] + (["compile"] if with_word else []) + ["-f", dsl_path]
    for l in langs:
        args += [FLAG[l], os.path.join(root, l)]
    r = run(args, timeout=timeout)
    tree = {}
    for l in langs:
        d = os.path.join(root, l)
        fm = {}
        for dp, _, fs in os.walk(d):
            for f in fs:
                p = os.path.join(dp, f)
                with open(p, "rb") as fh:
                    fm[os.path.relpath(p, d)] = sha(fh.read())
        tree[l] = fm
    return r, tree


def mc_design(rep, thorough):
    r = tlc.run_tlc("Pipeline", "MCPipeline.cfg", workers=8, timeout=600)
    tlc.require_ok(r, "Pipeline design (switches off)")
    rep.tlc(r)
    # sensitivity of the specification itself: with a deviation switched on TLC must find the violation
    sens = {}
    for sw, inv in (("InPlaceNormalise", "ModelUntouched"), ("IterateMap", "Deterministic")):
        cfg = ("SPECIFICATION Spec\nCONSTANTS\n  InPlaceNormalise = %s\n  IterateMap = %s\n  NPackets = 3\n"
               "INVARIANTS Independent ModelUntouched Deterministic\nVIEW View\nCHECK_DEADLOCK FALSE\n") % (
            "TRUE" if sw == "InPlaceNormalise" else "FALSE", "TRUE" if sw == "IterateMap" else "FALSE")
        s = tlc.run_tlc("Pipeline", cfg, workers=4, timeout=300)
        sens[sw] = s.violated
        if not s.violated:
            raise Infra("Pipeline.tla with %s=TRUE does not violate anything: specification is vacuous" % sw)
    rep.cov["spec_sensitivity"] = sens
    return r


def gen_orders():
    r = tlc.run_tlc("Pipeline", "GenOrders.cfg", workers=1, timeout=300)
    tlc.require_ok(r, "GenOrders")
    orders = [tuple(t["order"]) for t in r.testcases]
    if len(set(orders)) != 1957:
        raise Infra("expected 1957 generator orders from TLC, got %d" % len(set(orders)))
    return r, sorted(set(orders), key=lambda o: (len(o), o))


def validate(rep, events, meta, inplace=False):
    """Run TracePipeline on the events; returns list of failing verdicts (with event meta attached)."""
    text = "\n".join(json.dumps(e, sort_keys=True) for e in events) + "\n"
    cfg = ("SPECIFICATION Spec\nCONSTANTS\n  InPlaceNormalise = %s\nPOSTCONDITION Accepted\nCHECK_DEADLOCK FALSE\n"
           % ("TRUE" if inplace else "FALSE"))
    r = tlc.run_tlc("TracePipeline", cfg, workers=1, timeout=1200, extra_files={"trace.ndjson": text}, heap="8g")
    if r.timed_out or r.errors or r.rc != 0 or r.violated:
        raise Infra("trace validation failed to run: rc=%s %s %s\n%s" % (r.rc, r.errors[:3], r.violated, r.out[-2000:]))
    if r.depth != len(events) + 1:
        raise Infra("trace not fully consumed: depth %d, events %d" % (r.depth, len(events)))
    out = []
    for v in r.verdicts:
        v = dict(v)
        v["meta"] = meta[v["i"] - 1]
        out.append(v)
    return r, out


def _write_programs(tmp, names):
    paths = {}
    for n in names:
        p = os.path.join(tmp, n + ".dsl")
        write(p, corpus.PIPE[n])
        paths[n] = p
    return paths


def check_c14(tier):
    rep = Report("C14", tier, "model_checking")
    thorough = tier == "thorough"
    cli = build_cli()
    drv = build_driver()
    mc_design(rep, thorough)
    gr, orders = gen_orders()
    rep.tlc(gr)
    names = list(corpus.PIPE)
    if not thorough:
        # quick: every order on the two programs with the richest cells, a seeded sample on the others
        import random
        rnd = random.Random(seed())
        full = {"padforms", "metashare"}
    with Scratch() as tmp:
        paths = _write_programs(tmp, names)
        events, meta = [], []

        def ev(e, m):
            events.append(e)
            meta.append(m)
        n_hist = 0
        for n in names:
            if drv is None:
                break
            use = orders
            if not thorough and n not in full:
                use = [o for o in orders if len(o) <= 2] + rnd.sample([o for o in orders if len(o) > 2], 150)
            inp = "\n".join(",".join(o) for o in use) + "\n"
            r = run([drv, "seqs", paths[n]], input=inp, timeout=900)
            if r.returncode != 0:
                raise Infra("driver seqs failed: " + r.stderr[-500:])
            lines = [json.loads(x) for x in r.stdout.splitlines() if x.strip()]
            if len(lines) != len(use):
                raise Infra("driver returned %d histories for %d orders" % (len(lines), len(use)))
            ev({"ev": "load", "cells": cells_of(lines[0]["c0"])}, {"prog": n})
            # alone events: RunGen(l) on fresh parses, repeated KA times (determinism guard, DESIGN 5)
            KA = 1000 if thorough else 250

            def alone(l, n=n):
                r = run([drv, "rep", paths[n], l, str(KA)], timeout=900)
                if r.returncode != 0:
                    raise Infra("driver rep failed: " + r.stderr[-400:])
                return l, json.loads(r.stdout)
            for l, o in pmap(alone, LANGS):
                files = {f: sorted(x[:12] for x in d) for f, d in o["perfile"].items()} or {"none": [""]}
                if len(o["filesets"]) != 1:
                    files = {"<unstable file set>": ["-"]}
                ev({"ev": "alone", "l": l, "files": files}, {"prog": n})
            for h in lines:
                n_hist += 1
                ev({"ev": "parse", "cells": cells_of(h["c0"])}, {"prog": n, "order": h["order"]})
                prev = []
                for s in h["steps"]:
                    if s.get("p"):
                        rep.notes.append("generator panic in %s/%s: %s" % (n, s["l"], s["p"][:80]))
                    ev({"ev": "gen", "l": s["l"], "files": short(s["f"]), "cells": cells_of(s["c"])},
                       {"prog": n, "order": h["order"], "prev": list(prev)})
                    prev.append(s["l"])
            # the 64 flag subsets through the real CLI (separate processes)
            subsets = [c for k in range(0, 7) for c in itertools.combinations(LANGS, k)]
            if not thorough and n not in full:
                subsets = [c for c in subsets if len(c) in (1, 2, 6)]

            def one(sub, n=n):
                root = os.path.join(tmp, "cli", n, "_".join(sub) or "none")
                os.makedirs(root, exist_ok=True)
                r, tree = cli_tree(cli, paths[n], sub, root)
                return sub, r.returncode, tree
            for sub, rc, tree in pmap(one, subsets):
                if rc != 0:
                    rep.case("%s|cli-exit|%s" % (n, ",".join(sub)), False, "CLI exit %s for accepted program" % rc,
                             {"program": corpus.PIPE[n], "langs": sub})
                    continue
                ev({"ev": "cli", "langs": list(sub), "files": {l: short(tree[l]) for l in sub} or {"none": {"none": ""}}},
                   {"prog": n, "cli": list(sub)})
        if drv is None:
            rep.notes.append("overlay driver did not build; only the 64 CLI flag subsets were explored")
            # alone = single-target CLI runs
            raise Infra("overlay driver unavailable and CLI-only fallback for alone events not recorded")
        tr, verdicts = validate(rep, events, meta)
        rep.tlc(tr, traces=n_hist)
        failing_events = set()
        for v in verdicts:
            m = v["meta"]
            failing_events.add(v["i"])
            lang = v["lang"] if isinstance(v["lang"], str) else ",".join(sorted(v["lang"]))
            sig = "%s|%s|%s" % (m["prog"], v["kind"], lang)
            rep.case(sig, False, "history %s over program %s: %s for %s" % (m.get("order", m.get("cli")), m["prog"], v["kind"], lang),
                     {"program": corpus.PIPE[m["prog"]], "order": m.get("order"), "cli_langs": m.get("cli"), "verdict": {k: v[k] for k in v if k != "meta"}})
        # passing cases: one per (program, kind, lang) that was exercised and did not fail
        for i, (e, m) in enumerate(zip(events, meta), 1):
            if e["ev"] == "gen":
                for kind in ("independent", "untouched"):
                    rep.case("%s|%s|%s" % (m["prog"], kind, e["l"]), True)
            elif e["ev"] == "cli":
                for l in e["langs"]:
                    rep.case("%s|independent-cli|%s" % (m["prog"], l), True)
        rep.sample({"program": "padforms", "history": "parse; RunGen(java); RunGen(py)", "oracle": "files = alone[L] and cells unchanged",
                    "events": [e for e, m in zip(events, meta) if m.get("order") == "java,py"][:3]})
        rep.assumptions += ["model state is observed through reflection over the exported model (Padding objects) and a structural digest",
                            "C++ banner year (time.Now) is not varied"]
        return rep.finish("all %d ordered sequences of distinct targets (TLC GenOrders) x %d programs through the overlay driver, "
                          "all 64 flag subsets through the real CLI; distinct = (program, verdict kind, target)" % (len(orders), len(names)),
                          exhaustive=thorough, extra={"histories": n_hist, "events": len(events)})


def check_c13(tier):
    rep = Report("C13", tier, "model_checking")
    thorough = tier == "thorough"
    cli = build_cli()
    drv = build_driver()
    mc_design(rep, thorough)
    K = 20000 if thorough else 1500
    NCLI = 100 if thorough else 12
    names = list(corpus.PIPE)
    with Scratch() as tmp:
        paths = _write_programs(tmp, names)
        events, meta = [], []
        jobs = [(n, l) for n in names for l in LANGS]
        probe_orders = 0

        def one(job):
            n, l = job
            if drv is None:
                return job, None
            r = run([drv, "rep", paths[n], l, str(K)], timeout=1800)
            if r.returncode != 0:
                raise Infra("driver rep failed: " + r.stderr[-400:])
            return job, json.loads(r.stdout)
        results = pmap(one, jobs)
        for n in names:
            events.append({"ev": "load", "cells": {"none": ""}})
            meta.append({"prog": n})
            for (jn, l), o in results:
                if jn != n or o is None:
                    continue
                probe_orders = max(probe_orders, o.get("probe_orders", 0))
                perfile = {f: sorted(d)[:8] for f, d in o["perfile"].items()}
                perfile["<file set>"] = sorted(o["filesets"])[:8]
                events.append({"ev": "rep", "l": l, "k": o["k"], "perfile": {f: [x[:12] for x in v] for f, v in perfile.items()}})
                meta.append({"prog": n, "lang": l, "src": "in-process x%d" % K})
            # separate processes through the real CLI

            def cli_once(i, n=n):
                root = os.path.join(tmp, "cli", n, str(i))
                os.makedirs(root, exist_ok=True)
                r, tree = cli_tree(cli, paths[n], LANGS, root)
                return r.returncode, tree
            runs = pmap(cli_once, range(NCLI))
            for l in LANGS:
                perfile = {}
                for rc, tree in runs:
                    for f, h in tree[l].items():
                        perfile.setdefault(f, set()).add(h[:12])
                    perfile.setdefault("<file set>", set()).add(",".join(sorted(tree[l])))
                events.append({"ev": "rep", "l": l, "k": NCLI, "perfile": {f: sorted(v)[:8] for f, v in perfile.items()} or {"none": ["-"]}})
                meta.append({"prog": n, "lang": l, "src": "cli x%d" % NCLI})
        tr, verdicts = validate(rep, events, meta)
        rep.tlc(tr, traces=len([e for e in events if e["ev"] == "rep"]))
        bad = {}
        for v in verdicts:
            m = v["meta"]
            for f in v.get("files", []):
                bad[(m["prog"], m["lang"], f)] = m["src"]
        for e, m in zip(events, meta):
            if e["ev"] != "rep":
                continue
            for f in e["perfile"]:
                fk = _file_class(f)
                sig = "%s|%s|%s" % (m["prog"], m["lang"], fk)
                if (m["prog"], m["lang"], f) in bad:
                    rep.case(sig, False, "%s output file %s of program %s differs between runs (%s)" % (m["lang"], f, m["prog"], m["src"]),
                             {"program": corpus.PIPE[m["prog"]], "lang": m["lang"], "file": f, "distinct": e["perfile"][f], "how": m["src"]})
                else:
                    rep.case(sig, True)
        rep.sample({"program": "manypk", "history": "K x (Parse; RunGen(rust))", "oracle": "one distinct digest per emitted file",
                    "event": next((e for e, m in zip(events, meta) if m.get("prog") == "manypk" and m.get("lang") == "rust"), None)})
        rep.assumptions += ["map-iteration orders are sampled (Go randomises every range); probe map of 4 keys showed %d distinct orders in this run" % probe_orders,
                            "the year stamped by the C++ generator (time.Now) is not varied"]
        return rep.finish("%d in-process repetitions and %d separate CLI processes per (program, target), %d programs; "
                          "distinct = (program, target, emitted file class)" % (K, NCLI, len(names)),
                          extra={"repetitions_in_process": K, "cli_processes": NCLI, "probe_map_orders_seen": probe_orders})


def _file_class(f):
    return f
