"""Stubs of the Wireshark Lua API (wslua) for lua_interp: enough to load the dissectors fin-protoc emits and to
run `<proto>.dissector(buf, pinfo, tree)` over a byte string while recording which byte ranges the dissector
attributes to which fields.

Faithfulness notes (checked against wslua_tvb.c / wslua_tree.c / wslua_proto_field.c semantics):
  * Tvb / TvbRange: `buf(off, len)`; len omitted = rest; "Range is out of bounds" when off+len exceeds the buffer,
    "negative length in tvb range" for len < 0; uint()/int() handle 1..4 bytes, uint64()/int64() 1..8, float() 4 or 8.
  * TvbRange:uint64()/int64() return UInt64/Int64 USERDATA (not Lua numbers): `..` works (they have __concat),
    `+` gives a UInt64, `== number` is always false, passing one where a number is expected (buf(off, len64),
    `for i=1,len64`) is an error, exactly as in Wireshark.  Set INT64_AS_NUMBER = True to get plain integers.
  * TvbRange:string() stops at the first NUL (lua_pushstring semantics) and maps bytes >= 0x80 to U+FFFD (ENC_ASCII).
  * tree:add(field, range): integer fields accept 1..4 byte ranges (64-bit ones 1..8), float 4, double 8.
  * NON-STANDARD NAMES accepted on request of the verification harness, but noted in Session.api_notes():
    `TreeItem:le_add` (the Wireshark method is `add_le`) and `ProtoField.int` (Wireshark has int8/16/24/32/64 only).
    With strict=True they behave as in Wireshark (error).

Recording: every add / le_add / add_le call appends
  {"kind": "field"|"proto"|"text"|"nil", "abbr", "name", "off", "len", "le", "text", "parent"}.
"""
import struct

from lua_interp import (Builtin, Interp, LuaError, LuaFunction, LuaSyntaxError, LuaTable, LuaUserdata, Unsupported,
                        fmt_number, lua_text, methods, tointeger, tonumber, tostr, type_name)

INT64_AS_NUMBER = False

M64 = 0xFFFFFFFFFFFFFFFF


def _opt_int(v, default, n, fname):
    """luaL_optinteger"""
    if v is None:
        return default
    if isinstance(v, LuaUserdata) or type(v) in (LuaTable, bool, LuaFunction, Builtin):
        raise LuaError("bad argument #%d to '%s' (number expected, got %s)" % (n, fname, type_name(v)))
    return tointeger(v, "bad argument #%d to '%s' (" % (n, fname))


# ---------------------------------------------------------------------------------------------------------
# UInt64 / Int64

class _I64(LuaUserdata):
    SIGNED = False
    TYPENAME = "UInt64"

    def __init__(self, v):
        v &= M64
        if self.SIGNED and v >= 1 << 63:
            v -= 1 << 64
        self.v = v

    @classmethod
    def coerce(cls, x):
        if isinstance(x, _I64):
            return x.v
        if type(x) in (int, float):
            return int(x)
        if type(x) is str:
            try:
                return int(x.strip(), 0)
            except ValueError:
                pass
        raise LuaError("bad argument (number, string, UInt64 or Int64 expected, got %s)" % type_name(x))

    def lua_tostring(self):
        return "%d" % self.v

    def lua_concat(self, a, b):
        return tostr(a) + tostr(b)

    def lua_arith(self, op, a, b):
        x, y = self.coerce(a), self.coerce(b)
        cls = type(self)
        if op == "+":
            return cls(x + y)
        if op == "-":
            return cls(x - y)
        if op == "*":
            return cls(x * y)
        if op in ("/", "//"):
            if y == 0:
                raise LuaError("Trying to divide %s by zero" % self.TYPENAME)
            return cls(int(x / y) if self.SIGNED else x // y)
        if op == "%":
            if y == 0:
                raise LuaError("Trying to modulo %s by zero" % self.TYPENAME)
            return cls(x % y)
        if op == "^":
            return cls(x ** y if y >= 0 else 0)
        if op == "unm":
            return cls(-x)
        return NotImplemented

    def lua_eq(self, other):
        return isinstance(other, _I64) and self.v == other.v

    def lua_lt(self, a, b):
        return self.coerce(a) < self.coerce(b)

    def lua_le(self, a, b):
        return self.coerce(a) <= self.coerce(b)

    def m_tonumber(self, *_):
        return float(self.v)

    def m_tohex(self, n=16, *_):
        return ("%016x" % (self.v & M64))[-abs(tointeger(n)):]

    def m_lower(self, *_):
        return self.v & 0xFFFFFFFF

    def m_higher(self, *_):
        return (self.v >> 32) & 0xFFFFFFFF


@methods
class UInt64(_I64):
    SIGNED = False
    TYPENAME = "UInt64"


@methods
class Int64(_I64):
    SIGNED = True
    TYPENAME = "Int64"


def _mk64(cls, v):
    x = cls(v)
    return x.v if INT64_AS_NUMBER else x


# ---------------------------------------------------------------------------------------------------------
# ByteArray (result of TvbRange:bytes())

@methods
class ByteArray(LuaUserdata):
    TYPENAME = "ByteArray"

    def __init__(self, data):
        self.data = bytes(data)

    def lua_tostring(self):
        return self.data.hex()

    def lua_concat(self, a, b):
        if isinstance(a, ByteArray) and isinstance(b, ByteArray):
            return ByteArray(a.data + b.data)
        return tostr(a) + tostr(b)

    def lua_eq(self, other):
        return isinstance(other, ByteArray) and self.data == other.data

    def lua_len(self):
        return len(self.data)

    def m_len(self, *_):
        return len(self.data)

    def m_get_index(self, i=None, *_):
        i = _opt_int(i, None, 1, "get_index")
        if i is None or not 0 <= i < len(self.data):
            raise LuaError("bad argument #1 to 'get_index' (index out of range)")
        return self.data[i]

    def m_tohex(self, lower=None, sep=None, *_):
        h = self.data.hex() if lower else self.data.hex().upper()
        if type(sep) is str:
            h = sep.join(h[i:i + 2] for i in range(0, len(h), 2))
        return h

    def m_raw(self, *_):
        return self.data.decode("latin-1")

    def m_subset(self, off=None, ln=None, *_):
        off, ln = _opt_int(off, 0, 1, "subset"), _opt_int(ln, 0, 2, "subset")
        if off < 0 or ln < 0 or off + ln > len(self.data):
            raise LuaError("Out Of Bounds")
        return ByteArray(self.data[off:off + ln])


# ---------------------------------------------------------------------------------------------------------
# Tvb / TvbRange

def _push_range(tvb, offset, ln, fname):
    """push_TvbRange of wslua_tvb.c"""
    n = len(tvb.data)
    if ln == -1:
        if offset < 0:
            offset += n
        if offset < 0 or offset > n:
            raise LuaError("out of bounds")
        ln = n - offset
    elif ln < 0:
        raise LuaError("negative length in tvb range")
    elif offset < 0:
        # (guint)(len + offset) > length in C; a negative offset counts from the end in tvbuff.c
        if ln + offset < 0 or n + offset < 0 or n + offset + ln > n:
            raise LuaError("Range is out of bounds")
        offset += n
    elif ln + offset > n:
        raise LuaError("Range is out of bounds")
    return TvbRange(tvb, offset, ln)


@methods
class Tvb(LuaUserdata):
    TYPENAME = "Tvb"

    def __init__(self, data):
        self.data = bytes(data)

    def lua_call(self, args):
        off = _opt_int(args[0] if len(args) > 0 else None, 0, 1, "Tvb")
        ln = _opt_int(args[1] if len(args) > 1 else None, -1, 2, "Tvb")
        return _push_range(self, off, ln, "Tvb")

    def lua_tostring(self):
        h = self.data[:24].hex()
        return "TVB(%d) : %s%s" % (len(self.data), h, "..." if len(self.data) > 24 else "")

    def lua_concat(self, a, b):
        return tostr(a) + tostr(b)

    def m_range(self, off=None, ln=None, *_):
        return _push_range(self, _opt_int(off, 0, 1, "range"), _opt_int(ln, -1, 2, "range"), "range")

    def m_len(self, *_):
        return len(self.data)

    m_reported_len = m_len
    m_captured_len = m_len

    def m_reported_length_remaining(self, off=None, *_):
        off = _opt_int(off, 0, 1, "reported_length_remaining")
        return len(self.data) - off if 0 <= off <= len(self.data) else -1

    def m_offset(self, *_):
        return 0

    def m_bytes(self, off=None, ln=None, *_):
        return _push_range(self, _opt_int(off, 0, 1, "bytes"), _opt_int(ln, -1, 2, "bytes"), "bytes").m_bytes()

    def m_raw(self, off=None, ln=None, *_):
        return _push_range(self, _opt_int(off, 0, 1, "raw"), _opt_int(ln, -1, 2, "raw"), "raw").m_raw()


@methods
class TvbRange(LuaUserdata):
    TYPENAME = "TvbRange"
    __slots__ = ("tvb", "off", "ln")

    def __init__(self, tvb, off, ln):
        self.tvb = tvb
        self.off = off
        self.ln = ln

    def raw(self):
        return self.tvb.data[self.off:self.off + self.ln]

    def lua_call(self, args):
        return self.m_range(*args[:2])

    def lua_tostring(self):
        b = self.raw()
        return b[:24].hex() + ("..." if len(b) > 24 else "")

    def lua_concat(self, a, b):
        return tostr(a) + tostr(b)

    def _int(self, name, maxlen, little, signed):
        n = self.ln
        if n < 1 or n > maxlen:
            raise LuaError("TvbRange:%s() does not handle %d byte integers" % (name, n))
        return int.from_bytes(self.raw(), "little" if little else "big", signed=signed)

    def m_uint(self, *_):
        return self._int("uint", 4, False, False)

    def m_le_uint(self, *_):
        return self._int("le_uint", 4, True, False)

    def m_int(self, *_):
        return self._int("int", 4, False, True)

    def m_le_int(self, *_):
        return self._int("le_int", 4, True, True)

    def m_uint64(self, *_):
        return _mk64(UInt64, self._int("uint64", 8, False, False))

    def m_le_uint64(self, *_):
        return _mk64(UInt64, self._int("le_uint64", 8, True, False))

    def m_int64(self, *_):
        return _mk64(Int64, self._int("int64", 8, False, True))

    def m_le_int64(self, *_):
        return _mk64(Int64, self._int("le_int64", 8, True, True))

    def _float(self, name, little):
        if self.ln == 4:
            return struct.unpack("<f" if little else ">f", self.raw())[0]
        if self.ln == 8:
            return struct.unpack("<d" if little else ">d", self.raw())[0]
        raise LuaError("TvbRange:%s() does not handle %d byte floating numbers" % (name, self.ln))

    def m_float(self, *_):
        return self._float("float", False)

    def m_le_float(self, *_):
        return self._float("le_float", True)

    def m_string(self, enc=None, *_):
        b = self.raw()
        z = b.find(b"\0")
        if z >= 0:
            b = b[:z]
        return "".join(chr(c) if c < 0x80 else "\xef\xbf\xbd" for c in b)

    m_ustring = m_string
    m_le_ustring = m_string

    def m_stringz(self, enc=None, *_):
        b = self.raw()
        z = b.find(b"\0")
        if z < 0:
            raise LuaError("out of bounds")
        return "".join(chr(c) if c < 0x80 else "\xef\xbf\xbd" for c in b[:z])

    def m_strsize(self, *_):
        b = self.raw()
        z = b.find(b"\0")
        if z < 0:
            raise LuaError("out of bounds")
        return z + 1

    def m_bytes(self, *_):
        return ByteArray(self.raw())

    def m_raw(self, off=None, ln=None, *_):
        off = _opt_int(off, 0, 1, "raw")
        ln = _opt_int(ln, -1, 2, "raw")
        b = self.raw()
        if off < 0 or off > len(b):
            raise LuaError("offset beyond end of Tvb")
        if ln == -1:
            ln = len(b) - off
        if ln < 0 or off + ln > len(b):
            raise LuaError("length beyond end of Tvb")
        return b[off:off + ln].decode("latin-1")

    def m_len(self, *_):
        return self.ln

    def m_offset(self, *_):
        return self.off

    def m_tvb(self, *_):
        return Tvb(self.raw())

    def m_range(self, off=None, ln=None, *_):
        off = _opt_int(off, 0, 1, "range")
        ln = _opt_int(ln, -1, 2, "range")
        if ln == -1:
            ln = self.ln - off
        if off < 0 or ln < 0 or off + ln > self.ln:
            raise LuaError("Range is out of bounds")
        return TvbRange(self.tvb, self.off + off, ln)

    def m_bitfield(self, pos=None, ln=None, *_):
        pos = _opt_int(pos, 0, 1, "bitfield")
        ln = _opt_int(ln, 1, 2, "bitfield")
        if pos + ln > self.ln * 8:
            raise LuaError("Requested bitfield out of range")
        if ln > 64:
            raise LuaError("TvbRange:bitfield() does not handle %d bits" % ln)
        v = int.from_bytes(self.raw(), "big")
        v = (v >> (self.ln * 8 - pos - ln)) & ((1 << ln) - 1)
        return v if ln <= 32 else _mk64(UInt64, v)


# ---------------------------------------------------------------------------------------------------------
# ProtoField / Proto / DissectorTable

REAL_PROTOFIELD = {"uint8", "uint16", "uint24", "uint32", "uint64", "int8", "int16", "int24", "int32", "int64", "framenum", "bool",
                   "absolute_time", "relative_time", "float", "double", "string", "stringz", "bytes", "ubytes", "none", "ipv4",
                   "ipv6", "ether", "guid", "oid", "protocol", "rel_oid", "systemid", "eui64", "char", "new"}
# kind -> allowed range lengths for tree:add(field, range) (proto_tree_add_item); None = any
KIND_LEN = {"uint8": range(1, 5), "uint16": range(1, 5), "uint24": range(1, 5), "uint32": range(1, 5), "char": range(1, 5),
            "int8": range(1, 5), "int16": range(1, 5), "int24": range(1, 5), "int32": range(1, 5), "int": range(1, 5),
            "framenum": range(1, 5), "uint64": range(1, 9), "int64": range(1, 9), "bool": range(1, 9),
            "float": (4,), "double": (8,), "ipv4": (4,), "ipv6": (16,), "ether": (6,), "guid": (16,), "eui64": (8,)}
_INT_KINDS = {"uint8", "uint16", "uint24", "uint32", "char", "int8", "int16", "int24", "int32", "int", "framenum"}


class ProtoFieldObj(LuaUserdata):
    TYPENAME = "ProtoField"

    def __init__(self, kind, abbrev, name, extra):
        self.kind = kind
        self.abbrev = abbrev
        self.name = name
        self.extra = extra
        self.registered = False

    def lua_tostring(self):
        return "ProtoField(%s): %s %s" % (self.kind, self.abbrev, self.name)

    def lua_concat(self, a, b):
        return tostr(a) + tostr(b)


@methods
class ProtoObj(LuaUserdata):
    TYPENAME = "Proto"

    def __init__(self, name, desc):
        self.name = name
        self.desc = desc
        self.fields = LuaTable()
        self.dissector = None
        self.attrs = {"prefs": LuaTable(), "experts": LuaTable()}

    def lua_index(self, k):
        if k == "fields":
            return self.fields
        if k == "dissector":
            return self.dissector
        if k == "name":
            return self.name
        if k == "description":
            return self.desc
        if k in self.attrs:
            return self.attrs[k]
        m = self.METHODS.get(k)
        if m is None and type(k) is str:
            raise LuaError("No such '%s' getter attribute/field for object type 'Proto'" % k)
        return m

    def lua_newindex(self, k, v):
        if k == "dissector":
            if type(v) not in (LuaFunction, Builtin):
                raise LuaError("bad argument #3 to 'dissector' (The dissector of a protocol must be a function)")
            self.dissector = v
        elif k == "fields":
            if type(v) is not LuaTable:
                raise LuaError("bad argument #3 to 'fields' (either a ProtoField or an array of protofields)") \
                    if not isinstance(v, ProtoFieldObj) else LuaError("single ProtoField assignment is not modelled")
            for _, f in v.items():
                if not isinstance(f, ProtoFieldObj):
                    raise LuaError("bad argument #3 to 'fields' (ProtoField expected, got %s)" % type_name(f))
            self.fields = v
        elif k in ("init", "prefs_changed"):
            if type(v) not in (LuaFunction, Builtin):
                raise LuaError("bad argument #3 to '%s' (function expected)" % k)
            self.attrs[k] = v
        elif k in ("experts", "prefs"):
            self.attrs[k] = v
        else:
            raise LuaError("No such '%s' setter attribute/field for object type 'Proto'" % tostr(k))

    def lua_tostring(self):
        return "Proto: %s" % self.name

    def lua_call(self, args):
        raise LuaError("attempt to call a userdata value")

    def m_register_heuristic(self, *_):
        return ()


class DissectorObj(LuaUserdata):
    TYPENAME = "Dissector"

    def __init__(self, name):
        self.name = name

    def lua_tostring(self):
        return self.name

    def lua_index(self, k):
        if k == "call":
            return Builtin(lambda *_: 0, "call")
        return None


@methods
class DissectorTableObj(LuaUserdata):
    TYPENAME = "DissectorTable"

    def __init__(self, name, env):
        self.name = name
        self.env = env
        self.entries = []

    def lua_tostring(self):
        return "DissectorTable %s" % self.name

    def m_add(self, pattern=None, what=None, *_):
        if isinstance(what, ProtoObj):
            if what.dissector is None:
                raise LuaError("bad argument #2 to 'add' (a Protocol that does not have a dissector cannot be added to a table)")
        elif not isinstance(what, DissectorObj):
            raise LuaError("bad argument #2 to 'add' (must be either Proto or Dissector)")
        if type(pattern) not in (int, float, str):
            raise LuaError("bad argument #1 to 'add' (number or string expected, got %s)" % type_name(pattern))
        self.entries.append((pattern, what))
        self.env.registered.append((self.name, pattern, what))
        return ()

    m_set = m_add
    m_add_for_decode_as = lambda self, what=None, *_: ()

    def m_remove(self, *_):
        return ()

    def m_remove_all(self, *_):
        return ()

    def m_try(self, *_):
        return 0

    def m_get_dissector(self, *_):
        return None


# ---------------------------------------------------------------------------------------------------------
# TreeItem / Pinfo / Columns

@methods
class TreeItem(LuaUserdata):
    TYPENAME = "TreeItem"

    def __init__(self, env, index):
        self.env = env
        self.index = index           # index of the add that created this item (-1 = root)

    def lua_index(self, k):
        m = self.METHODS.get(k)
        if m is not None:
            if k == "le_add":
                self.env.note("TreeItem:le_add is not a Wireshark method (the real name is add_le): "
                              "Wireshark reports \"No such 'le_add' method/field for object type 'TreeItem'\"")
                if self.env.strict:
                    raise LuaError("No such 'le_add' method/field for object type 'TreeItem'")
            return m
        if k in ("text", "visible", "generated", "hidden", "len"):
            return None
        if type(k) is str:
            raise LuaError("No such '%s' method/field for object type 'TreeItem'" % k)
        return None

    def lua_newindex(self, k, v):
        if k in ("text", "visible", "generated", "hidden", "len"):
            return
        raise LuaError("No such '%s' setter attribute/field for object type 'TreeItem'" % tostr(k))

    def lua_tostring(self):
        return "TreeItem"

    def _add(self, little, args):
        env = self.env
        args = list(args)
        kind, abbr, name, fkind = "text", "", "", None
        first = args[0] if args else None
        if isinstance(first, ProtoFieldObj):
            kind, abbr, name, fkind = "field", first.abbrev, first.name, first.kind
            args.pop(0)
        elif isinstance(first, ProtoObj):
            kind, name = "proto", first.name
            args.pop(0)
        elif first is None and args:
            kind = "nil"                       # e.g. fields.no_such_entry
            args.pop(0)
        elif type(first) in (str, int, float):
            # Text first (not the documented order tree:add(range, text)): wslua finds no range at index 1,
            # makes a text-only item; the remaining arguments (the range) are appended to the label.
            name = tostr(first)
            args.pop(0)
        off = ln = 0
        rng = None
        if args and isinstance(args[0], TvbRange):
            rng = args.pop(0)
            off, ln = rng.off, rng.ln
        elif args and isinstance(args[0], Tvb):
            t = args.pop(0)
            off, ln = 0, len(t.data)
        value = None
        if kind == "field":
            allowed = KIND_LEN.get(fkind)
            if args:
                value = args.pop(0)
                if fkind in _INT_KINDS or fkind in ("float", "double"):
                    if tonumber(value) is None:
                        raise LuaError("bad argument #3 to '%s' (number expected, got %s)" % ("add_le" if little else "add", type_name(value)))
                elif fkind in ("uint64", "int64"):
                    if tonumber(value) is None and not isinstance(value, _I64):
                        raise LuaError("bad argument #3 to '%s' (UInt64/Int64 expected, got %s)" % ("add_le" if little else "add", type_name(value)))
                elif fkind in ("string", "stringz"):
                    if type(value) not in (str, int, float):
                        raise LuaError("bad argument #3 to '%s' (string expected, got %s)" % ("add_le" if little else "add", type_name(value)))
            elif rng is not None and allowed is not None and ln not in allowed:
                if fkind in ("float", "double"):
                    raise LuaError("Trying to fetch a %s with length %d" % ("float" if fkind == "float" else "double", ln))
                raise LuaError("Trying to fetch %s integer with length %d" % (
                    "an unsigned" if fkind.startswith("u") or fkind in ("char", "framenum", "bool") else "a signed", ln))
        text = " ".join(tostr(a) for a in args)
        if kind == "text" and not name and text:
            name, text = text, ""
        rec = {"kind": kind, "abbr": lua_text(abbr), "name": lua_text(name), "off": off, "len": ln, "le": bool(little),
               "text": lua_text(text), "parent": self.index}
        env.adds.append(rec)
        return TreeItem(env, len(env.adds) - 1)

    def m_add(self, *args):
        return self._add(False, args)

    def m_add_le(self, *args):
        return self._add(True, args)

    def m_le_add(self, *args):          # NON-STANDARD: see lua_index
        return self._add(True, args)

    def m_add_packet_field(self, *args):
        return self._add(False, args[:2])

    def m_set_text(self, *_):
        return self

    m_append_text = m_set_text
    m_prepend_text = m_set_text
    m_add_expert_info = m_set_text
    m_add_proto_expert_info = m_set_text
    m_add_tvb_expert_info = m_set_text
    m_set_generated = m_set_text
    m_set_hidden = m_set_text
    m_set_len = m_set_text

    def m_referenced(self, *_):
        return True


@methods
class Column(LuaUserdata):
    TYPENAME = "Column"

    def __init__(self, name):
        self.name = name
        self.text = ""

    def lua_tostring(self):
        return self.text

    def lua_concat(self, a, b):
        return tostr(a) + tostr(b)

    def _s(self, v, fname):
        if type(v) not in (str, int, float):
            raise LuaError("bad argument #1 to '%s' (string expected, got %s)" % (fname, "no value" if v is None else type_name(v)))
        return tostr(v)

    def m_set(self, v=None, *_):
        self.text = self._s(v, "set")
        return ()

    def m_append(self, v=None, *_):
        self.text += self._s(v, "append")
        return ()

    def m_prepend(self, v=None, *_):
        self.text = self._s(v, "prepend") + self.text
        return ()

    m_preppend = m_prepend

    def m_clear(self, *_):
        self.text = ""
        return ()

    def m_fence(self, *_):
        return ()

    m_clear_fence = m_fence


COLUMN_NAMES = {"number", "abs_time", "utc_time", "cls_time", "rel_time", "date", "date_doy", "utc_date", "utc_date_doy", "delta_time",
                "delta_time_displayed", "src", "src_res", "src_unres", "dl_src", "dl_src_res", "dl_src_unres", "net_src", "net_src_res",
                "net_src_unres", "dst", "dst_res", "dst_unres", "dl_dst", "dl_dst_res", "dl_dst_unres", "net_dst", "net_dst_res",
                "net_dst_unres", "src_port", "src_port_res", "src_port_unres", "dst_port", "dst_port_res", "dst_port_unres", "protocol",
                "info", "packet_len", "cumulative_bytes", "direction", "vsan", "tx_rate", "rssi", "dce_call"}


class Columns(LuaUserdata):
    TYPENAME = "Columns"

    def __init__(self):
        self.cols = {}

    def lua_index(self, k):
        if type(k) is not str:
            return None
        if k not in self.cols:
            self.cols[k] = Column(k)
        return self.cols[k]

    def lua_newindex(self, k, v):
        col = self.lua_index(k)
        if col is None:
            raise LuaError("bad argument #2 to '__newindex' (string expected)")
        if type(v) not in (str, int, float):
            raise LuaError("bad argument #3 to '__newindex' (string expected, got %s)" % type_name(v))
        col.text = tostr(v)

    def lua_tostring(self):
        return "Columns"


class Pinfo(LuaUserdata):
    TYPENAME = "Pinfo"

    def __init__(self, nbytes):
        self.cols = Columns()
        self.attrs = {"number": 1, "len": nbytes, "caplen": nbytes, "visited": False, "src_port": 12345, "dst_port": 8080,
                      "desegment_len": 0, "desegment_offset": 0, "can_desegment": 0, "port_type": 2, "match_uint": 8080,
                      "private": LuaTable(), "in_error_pkt": False}

    def lua_index(self, k):
        if k in ("cols", "columns"):
            return self.cols
        return self.attrs.get(k)

    def lua_newindex(self, k, v):
        if k in ("cols", "columns"):
            raise LuaError("No such 'cols' setter attribute/field for object type 'Pinfo'")
        self.attrs[k] = v

    def lua_tostring(self):
        return "Pinfo"


# ---------------------------------------------------------------------------------------------------------
# Environment

class WsEnv:
    """Global Wireshark state for one loaded script."""

    def __init__(self, interp, strict=False):
        self.interp = interp
        self.strict = strict
        self.protos = []
        self.registered = []         # (table name, pattern, Proto|Dissector)
        self.adds = []
        self.notes = []
        self.install()

    def note(self, text):
        if text not in self.notes:
            self.notes.append(text)

    def install(self):
        G = self.interp.globals
        env = self

        def mk_proto(name=None, desc=None, *_):
            if type(name) is not str or not name:
                raise LuaError("bad argument #1 to 'Proto' (string expected, got %s)" % ("no value" if name is None else type_name(name)))
            if type(desc) is not str:
                raise LuaError("bad argument #2 to 'Proto' (string expected, got %s)" % ("no value" if desc is None else type_name(desc)))
            for p in env.protos:
                if p.name.lower() == name.lower() or p.desc == desc:
                    raise LuaError("bad argument #1 to 'Proto' (there cannot be two protocols with the same name)")
            p = ProtoObj(name, desc)
            env.protos.append(p)
            return p
        proto_ctor = LuaTable()
        proto_ctor.set("new", Builtin(mk_proto, "new"))
        pm = LuaTable()
        pm.set("__call", Builtin(lambda self_, *a: mk_proto(*a), "Proto"))
        proto_ctor.meta = pm
        G.set("Proto", proto_ctor)

        PF = LuaTable()

        def field_ctor(kind):
            def ctor(abbrev=None, name=None, *extra):
                if type(abbrev) is not str:
                    raise LuaError("bad argument #1 to '%s' (string expected, got %s)" % (kind, "no value" if abbrev is None else type_name(abbrev)))
                if not abbrev:
                    raise LuaError("bad argument #1 to '%s' (Missing abbrev)" % kind)
                for c in abbrev:
                    if not (c.isalnum() and c.isascii()) and c not in "-_.":
                        raise LuaError("bad argument #1 to '%s' (Invalid char in abbrev)" % kind)
                if name is None:
                    name = abbrev
                elif type(name) not in (str, int, float):
                    raise LuaError("bad argument #2 to '%s' (string expected, got %s)" % (kind, type_name(name)))
                return ProtoFieldObj(kind, abbrev, tostr(name), extra)
            return ctor
        for kind in sorted(REAL_PROTOFIELD - {"new"}):
            PF.set(kind, Builtin(field_ctor(kind), kind))
        PF.set("new", Builtin(lambda name=None, abbrev=None, ftype=None, *extra: field_ctor("new")(abbrev, name, ftype, *extra), "new"))
        # NON-STANDARD (harness request): ProtoField.int does not exist in Wireshark
        int_ctor = Builtin(field_ctor("int"), "int")
        pfm = LuaTable()

        def pf_index(t, k):
            if k == "int":
                env.note("ProtoField.int is not a Wireshark function (only int8/int16/int24/int32/int64 exist): "
                         "Wireshark reports \"attempt to call a nil value (field 'int')\"")
                return None if env.strict else int_ctor
            return None
        pfm.set("__index", Builtin(pf_index, "__index"))
        PF.meta = pfm
        G.set("ProtoField", PF)

        base = LuaTable()
        for i, nm in enumerate(["NONE", "DEC", "HEX", "OCT", "DEC_HEX", "HEX_DEC", "CUSTOM"]):
            base.set(nm, i)
        for nm, v in [("UNIT_STRING", 0x1000), ("RANGE_STRING", 0x100), ("ASCII", 0), ("UNICODE", 7), ("DOT", 8), ("DASH", 9),
                      ("COLON", 10), ("SPACE", 11), ("LOCAL", 1000), ("UTC", 1001), ("DOY_UTC", 1002), ("NETMASK", 12)]:
            base.set(nm, v)
        G.set("base", base)
        ft = LuaTable()
        for i, nm in enumerate(["NONE", "PROTOCOL", "BOOLEAN", "CHAR", "UINT8", "UINT16", "UINT24", "UINT32", "UINT40", "UINT48", "UINT56",
                                "UINT64", "INT8", "INT16", "INT24", "INT32", "INT40", "INT48", "INT56", "INT64", "IEEE_11073_SFLOAT",
                                "IEEE_11073_FLOAT", "FLOAT", "DOUBLE", "ABSOLUTE_TIME", "RELATIVE_TIME", "STRING", "STRINGZ",
                                "UINT_STRING", "ETHER", "BYTES", "UINT_BYTES", "IPv4", "IPv6", "IPXNET", "FRAMENUM", "GUID", "OID"]):
            ft.set(nm, i)
        G.set("ftypes", ft)
        for nm, v in [("ENC_BIG_ENDIAN", 0), ("ENC_LITTLE_ENDIAN", 0x80000000), ("ENC_NA", 0), ("ENC_ASCII", 0), ("ENC_UTF_8", 2),
                      ("DESEGMENT_ONE_MORE_SEGMENT", 0x0FFFFFFF), ("DESEGMENT_UNTIL_FIN", 0x0FFFFFFE),
                      ("PI_MALFORMED", 0x07000000), ("PI_ERROR", 0x00800000), ("PI_WARN", 0x00600000), ("PI_NOTE", 0x00400000),
                      ("PI_CHAT", 0x00200000), ("PI_PROTOCOL", 0x09000000), ("PI_UNDECODED", 0x05000000)]:
            G.set(nm, v)

        DT = LuaTable()
        tables = {}

        def dt_get(name=None, *_):
            if type(name) is not str:
                raise LuaError("bad argument #1 to 'get' (string expected, got %s)" % ("no value" if name is None else type_name(name)))
            if name not in tables:
                tables[name] = DissectorTableObj(name, env)
            return tables[name]
        DT.set("get", Builtin(dt_get, "get"))
        DT.set("new", Builtin(dt_get, "new"))
        DT.set("list", Builtin(lambda *_: LuaTable(), "list"))
        G.set("DissectorTable", DT)
        D = LuaTable()
        D.set("get", Builtin(lambda name=None, *_: DissectorObj(tostr(name)), "get"))
        D.set("list", Builtin(lambda *_: LuaTable(), "list"))
        G.set("Dissector", D)

        def ctor64(cls):
            t = LuaTable()

            def new(a=None, hi=None, *_):
                v = 0 if a is None else _I64.coerce(a)
                if hi is not None:
                    v = (v & 0xFFFFFFFF) | ((_I64.coerce(hi) & 0xFFFFFFFF) << 32)
                return cls(v)
            t.set("new", Builtin(new, "new"))
            t.set("max", Builtin(lambda *_: cls((1 << 63) - 1 if cls.SIGNED else M64), "max"))
            t.set("min", Builtin(lambda *_: cls(-(1 << 63) if cls.SIGNED else 0), "min"))
            t.set("fromhex", Builtin(lambda h=None, *_: cls(int(h, 16)), "fromhex"))
            m = LuaTable()
            m.set("__call", Builtin(lambda self_, *a: new(*a), cls.TYPENAME))
            t.meta = m
            return t
        G.set("UInt64", ctor64(UInt64))
        G.set("Int64", ctor64(Int64))
        BA = LuaTable()
        BA.set("new", Builtin(lambda h=None, *_: ByteArray(bytes.fromhex("".join(c for c in (h or "") if c in "0123456789abcdefABCDEF"))), "new"))
        G.set("ByteArray", BA)
        for fn in ("register_postdissector", "register_menu", "set_plugin_info", "debug", "info", "message", "warn", "critical",
                   "report_failure"):
            G.set(fn, Builtin(lambda *_: (), fn))
        G.set("get_version", Builtin(lambda *_: "4.0.0", "get_version"))


class Session:
    """Load one dissector script once; dissect any number of byte strings.

    .ok           the script parsed and its top-level chunk ran without error
    .log          error text when not ok
    .unsupported  text when the script uses a construct outside the interpreter's subset (then ok stays True)
    """

    def __init__(self, src, chunk="dissector.lua", strict=False, max_steps=2000000):
        self.ok = False
        self.log = ""
        self.unsupported = None
        self.interp = None
        self.env = None
        self.proto = None
        self.max_steps = max_steps
        try:
            it = Interp(chunk, max_steps=max_steps)
            self.interp = it
            self.env = WsEnv(it, strict)
            main = it.load(src)
        except Unsupported as e:
            self.unsupported = str(e)
            self.ok = True
            return
        except LuaSyntaxError as e:
            self.log = "syntax error: %s" % lua_text(str(e))
            return
        try:
            it.call(main)
        except Unsupported as e:
            self.unsupported = str(e)
            self.ok = True
            return
        except LuaError as e:
            self.log = "error loading script: %s" % lua_text(str(e))
            return
        # registration (Proto_commit): every value of proto.fields must be a ProtoField
        for p in self.env.protos:
            for _, f in p.fields.items():
                if not isinstance(f, ProtoFieldObj):
                    self.log = "error registering protocol %s: ProtoField expected in fields, got %s" % (p.name, type_name(f))
                    return
                f.registered = True
        regs = [w for _, _, w in self.env.registered if isinstance(w, ProtoObj)]
        cands = regs or [p for p in self.env.protos if p.dissector is not None]
        if not cands:
            self.log = "the script registered no protocol with a dissector"
            return
        self.proto = cands[-1]
        self.ok = True

    def api_notes(self):
        return list(self.env.notes) if self.env else []

    def dissect(self, data):
        """-> {"ok", "adds", "ret", "err", "cols"}"""
        env = self.env
        env.adds = []
        data = bytes(data)
        tvb = Tvb(data)
        pinfo = Pinfo(len(data))
        tree = TreeItem(env, -1)
        self.interp.output = []
        out = {"ok": True, "adds": env.adds, "ret": None, "err": None}
        try:
            r = self.interp.call(self.proto.dissector, tvb, pinfo, tree)
            v = r[0] if r else None
            if type(v) in (int, float):
                out["ret"] = v
        except LuaError as e:
            out["ok"] = False
            out["err"] = lua_text(str(e))
        out["cols"] = {k: lua_text(c.text) for k, c in pinfo.cols.cols.items()}
        return out
