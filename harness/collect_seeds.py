#!/usr/bin/env python3
"""Developer tool: copy the confirmed seeded changes from the sub-agents' scratch worktrees into /verif/seeded/
and write meta.json from the evaluation logs (seedtest.py output)."""
import json
import os
import re
import shutil
import sys

SRC = "/tmp/wt"
DST = os.path.join(os.path.dirname(os.path.dirname(os.path.abspath(__file__))), "seeded")


def parse_logs(paths):
    res = {}
    cur = None
    for p in paths:
        if not os.path.exists(p):
            continue
        for line in open(p):
            m = re.match(r"=== (C\d+[a-z]?) (m\d+) (verify|detect)", line)
            if m:
                cur = (m.group(1), m.group(2))
                res.setdefault(cur, {"verify": None, "detect": {}})
                continue
            if cur and line.startswith("build rc="):
                res[cur]["verify"] = line.strip()
            m = re.match(r"(C\d+) rc=(\d+) violations=(\d+) (\[.*?\])", line)
            if cur and m:
                res[cur]["detect"][m.group(1)] = {"rc": int(m.group(2)), "violations": int(m.group(3)), "signatures": m.group(4)[:600]}
    return res


def parse_demos(path):
    """lines '<id> <m> with=<rc> without=<rc>' written by my own re-run of every demonstration"""
    out = {}
    if os.path.exists(path):
        for line in open(path):
            m = re.match(r"(C\d+[a-z]?) (m\d+) with=(\d+) without=(\d+)", line)
            if m:
                out[(m.group(1), m.group(2))] = (int(m.group(3)), int(m.group(4)))
    return out


def main():
    logs = sorted(x for x in sys.argv[1:] if not x.startswith("--demos="))
    demos = {}
    for x in sys.argv[1:]:
        if x.startswith("--demos="):
            demos.update(parse_demos(x[len("--demos="):]))
    res = parse_logs(logs)
    os.makedirs(DST, exist_ok=True)
    rows = []
    for (pid, m), r in sorted(res.items()):
        src = os.path.join(SRC, pid, "_seed", m)
        if not os.path.isdir(src):
            continue
        dst = os.path.join(DST, "%s-%s" % (pid, m))
        if os.path.isdir(dst):
            shutil.rmtree(dst)
        shutil.copytree(src, dst, ignore=shutil.ignore_patterns("_bin", "target", "*.class", "__pycache__", "out*", "build"))
        readme = ""
        rp = os.path.join(src, "README.md")
        if os.path.exists(rp):
            readme = open(rp).read()
        needs = ""
        mm = re.search(r"(?is)(needs?[^\n]*\n(?:.*?\n){0,12})", readme)
        if mm:
            needs = mm.group(1).strip()[:1200]
        detected = [k for k, v in r["detect"].items() if v["rc"] == 1]
        meta = {"property": pid, "mutant": m, "breaks": pid,
                "needs_to_manifest": needs or "see README.md",
                "confirmed": {"applied in scratch worktree /tmp/wt/%s" % pid: r["verify"],
                              "demo": ("re-run by me in the scratch worktree: exit status %d with the change, %d without" % demos[(pid, m)])
                              if (pid, m) in demos else "run by the authoring sub-agent (fails with the change, passes without); see README.md"},
                "checks_run": r["detect"],
                "detected_by": detected,
                "what_i_ran": "python3 harness/seedtest.py verify /tmp/wt/%s <seed> ; python3 harness/seedtest.py detect <seed> %s  (git -C /repo apply patch.diff; quick checks; git -C /repo checkout -- .); re-tests after a strengthening: git -C /tmp/wt/%s apply patch.diff; VERIF_REPO=/tmp/wt/%s python3 harness/verif.py check <id> --tier quick; git -C /tmp/wt/%s checkout -- ." % (pid, ",".join(r["detect"]), pid, pid, pid)}
        with open(os.path.join(dst, "meta.json"), "w") as f:
            json.dump(meta, f, indent=1)
        rows.append((pid, m, detected, r["verify"]))
    for row in rows:
        print(row)


if __name__ == "__main__":
    main()
