#!/usr/bin/env python3
"""Regenerates /verif/MANIFEST.json from the table below (single source of truth)."""
import json
import os

VERIF = os.path.dirname(os.path.dirname(os.path.abspath(__file__)))
ALL = ["C%02d" % i for i in range(1, 18)]

CHECKS = {
    "C01": {'level': 'model_checking', 'design': '6 (C01), 3.5-3.7', 'text': 'Wire.tla defines Layout declaratively; MCWire checks it exhaustively on a bounded universe (SegsAreLayout, SegmentsTile, RoundTrip ...). TLC (DslGen.tla) enumerates every program cell x option setting; each is compiled by the real CLI, the emitted encoders of Go, Rust, Java, Python and C++ are built against reference runtimes and run on a value-class sweep; every enc event is validated by TLC: bytes = Layout(p, m), first divergent field named from Segments.', 'note': "Trusted: the reference codec runtimes and drivers in /verif/runtimes (written for this project; DESIGN 4.4), the target toolchains; values are drawn from the domain MCWire derives. Cells whose emitted code does not build are invisible here and reported under C07. The harness's own reference encoder is not trusted (TLC checks ref = Layout on every message).", 'technique': 'TLC model checking of Wire.tla (MCWire) + TLC-generated programs (DslGen) compiled and run in 5 languages + TLC trace validation (TraceCodec)'},
    "C02": {'level': 'model_checking', 'design': '6 (C02), 3.5', 'text': 'Same programs; every decoder is fed Layout(p,m) followed by tails <<>>, <<EE>>, <<FF FF 00 01>>; TLC validates value = Norm(p,m), consumed = Len(Layout), re-encoding = Layout for every dec event, also when the receiver object already holds the previous message (reused-receiver histories). MCWire proves RoundTrip on the specification and derives the value domain; ReadMachine.tla (operational decoder: cursor, work list, a receiver that may hold any earlier message) is model-checked to refine Wire!Decode and shown sensitive (switches AppendWithoutReset, KeepOnEmptyString, SignedPrefix).', 'note': "Trusted: the reference codec runtimes and drivers in /verif/runtimes (written for this project; DESIGN 4.4), the target toolchains; values are drawn from the domain MCWire derives. Cells whose emitted code does not build are invisible here and reported under C07. The harness's own reference encoder is not trusted (TLC checks ref = Layout on every message).", 'technique': 'TLC model checking of Wire.tla (MCWire) and ReadMachine.tla + TLC-generated programs (DslGen) compiled and run in 5 languages + TLC trace validation (TraceCodec)'},
    "C03": {'level': 'model_checking', 'design': '6 (C03), 3.7', 'text': 'Agreement matrix: TLC compares the bytes of all encoders per message (agree events: who drifts from the canonical layout) and every decoder is run on the canonical bytes the other languages produce; a language whose encoder or decoder deviates is reported per cell.', 'note': "Trusted: the reference codec runtimes and drivers in /verif/runtimes (written for this project; DESIGN 4.4), the target toolchains; values are drawn from the domain MCWire derives. Cells whose emitted code does not build are invisible here and reported under C07. The harness's own reference encoder is not trusted (TLC checks ref = Layout on every message).", 'technique': 'TLC model checking of Wire.tla (MCWire) + TLC-generated programs (DslGen) compiled and run in 5 languages + TLC trace validation (TraceCodec)'},
    "C04": {'level': 'model_checking', 'design': '6 (C04)', 'text': "MCWire invariant LenOf on the specification; WireMachine.tla (operational encoder: work list, zero placeholder, back-patch after the target, "
       "checksum over the prefix written so far) is model-checked to refine Wire!Layout (1.3 M states; AppendOnlyExceptPatch, PrimsDiscipline) and shown sensitive "
       "(switch MeasureFromPlaceholder); in the thorough tier Apalache additionally discharges an inductive invariant of the same discipline over unbounded byte counts (LenPatchInd.tla) and tlapm re-checks its TLAPS proof (proofs/LenPatchProof.tla); programs with a length-of field of every unsigned width, match and object targets, all payload alternatives incl. empty and > 255 bytes, caller-supplied garbage; TLC validates the length field's bytes in every enc event and the decoded value. USED-BUFFER histories: WireMachine.tla is also checked started on a buffer that already holds bytes, part of them consumed (PreUntouched, OnlyChecksumsSeePre; deviation PosFromReadable refuted), and every encoder is run into such buffers (encinto events: pre of 3 bytes, and 5 bytes of which 2 are consumed): TLC validates that the earlier bytes stay, the length field is the target's byte count wherever the message starts, and the placeholder is patched in place.", 'note': "Trusted: the reference codec runtimes and drivers in /verif/runtimes (written for this project; DESIGN 4.4), the target toolchains; values are drawn from the domain MCWire derives. Cells whose emitted code does not build are invisible here and reported under C07. The harness's own reference encoder is not trusted (TLC checks ref = Layout on every message).", 'technique': 'TLC model checking of Wire.tla (MCWire) + TLC-generated programs (DslGen) compiled and run in 5 languages + TLC trace validation (TraceCodec)'},
    "C05": {'level': 'model_checking', 'design': '6 (C05)', 'text': 'MCWire invariants Dispatch / UnknownKeyFails; match tables of 5 forms x 7 key kinds; every key in the table is encoded and decoded (dynamic type of the payload observed), two keys outside the table are decoded (deckey events must report an error).', 'note': "Trusted: the reference codec runtimes and drivers in /verif/runtimes (written for this project; DESIGN 4.4), the target toolchains; values are drawn from the domain MCWire derives. Cells whose emitted code does not build are invisible here and reported under C07. The harness's own reference encoder is not trusted (TLC checks ref = Layout on every message).", 'technique': 'TLC model checking of Wire.tla (MCWire) + TLC-generated programs (DslGen) compiled and run in 5 languages + TLC trace validation (TraceCodec)'},
    "C06": {'level': 'model_checking', 'design': '6 (C06)', 'text': 'MCWire invariant Cksum; checksum fields of 4 widths, registered (VSUM<w>) and unregistered algorithm, followed or last; TLC validates the checksum bytes in enc events and that every recorded calc call covered exactly the bytes preceding a checksum field. USED-BUFFER histories (WireMachine.tla on a buffer that already holds bytes): every encoder is also run into a buffer holding 3 earlier bytes and one holding 5 of which 2 are consumed; TLC validates that a registered checksum covers every byte that precedes it IN THE BUFFER (both readings of consumed bytes are accepted, they are the business of the buffer), an unregistered one stays the value of the caller.', 'note': "Trusted: the reference codec runtimes and drivers in /verif/runtimes (written for this project; DESIGN 4.4), the target toolchains; values are drawn from the domain MCWire derives. Cells whose emitted code does not build are invisible here and reported under C07. The harness's own reference encoder is not trusted (TLC checks ref = Layout on every message).", 'technique': 'TLC model checking of Wire.tla (MCWire) + TLC-generated programs (DslGen) compiled and run in 5 languages + TLC trace validation (TraceCodec)'},
    "C07": {'level': 'exploration', 'design': '6 (C07), 3.8', 'text': "Pipeline.tla's lifecycle (Validate -> RunGen -> WriteFiles -> Build) gives the requirement; TLC-generated programs (every DslGen cell x options) plus name-shape / omitted-package cells are compiled for all six targets; whether the emitted files are valid programs is decided by the target toolchains (go, rustc, javac, g++, python ast, the harness Lua parser); marker texts and member inventories are observed; the recorded lifecycle is validated by TLC against TraceLifecycle.tla.", 'note': 'The deciding observer is the target toolchain, so the level is exploration; reference runtimes define the API; the known findings at this commit are listed by root cause in DESIGN 0.5.', 'technique': 'TLC-generated programs + target toolchains as oracles + TLC validation of the recorded lifecycle (TraceLifecycle)'},
    "C15": {'level': 'model_checking', 'design': '6 (C15), 4.5', 'text': "Wire!Segments gives every leaf field's byte range (SegmentsTile checked by MCWire); the emitted Lua dissector is interpreted (own Lua-subset interpreter with lexical name resolution + Wireshark stubs) over the canonical encoding of every sweep message of every DslGen program; TLC validates every recorded tree:add against Segments (field, offset, length), the end offset and the absence of Lua errors (TraceDissect).", 'note': 'Trusted: harness/lua_interp.py and lua_wireshark.py (345 unit checks), lenient about TreeItem:le_add / ProtoField.int; every run is cross-checked against the real Lua 5.3 library when it is installed (a disagreement is exit 2). DissectMachine.tla (operational dissector: offset threaded through sub-dissectors that return it) is model-checked (AttributesSegments, EndsAtMessageEnd, RangesInside, OffsetMonotone) and shown sensitive (DropOffsetAfterObject, DropOffsetAfterMatch, OneByteSubtree).', 'technique': 'TLC model checking of Wire.tla and DissectMachine.tla + interpretation of the emitted dissector + TLC trace validation (TraceDissect)'},
    "C17": {'level': 'exploration', 'design': '6 (C17), 3.8', 'text': 'The self-tests fin-protoc emits for Go (real testify), Rust (rustc --test), Java (JUnit stand-in), Python (unittest), C++ (gtest stand-in) are built and run for every DslGen program; the recorded SelfTest lifecycle (builds, one test per declared packet, all pass) is validated by TLC against TraceLifecycle.tla; the outcome of a cell says how many of the emitted tests fail, so another failing test in a cell that already fails is a new finding.', 'note': 'JUnit and gtest are stand-ins with the same assertion semantics; toolchains decide validity (exploration).', 'technique': 'TLC-generated programs + running the emitted tests + TLC validation of the recorded lifecycle'},
    "C08": dict(
        level="model_checking", design="6 (C08), 3.10",
        text="Respell.tla: Meaning(p) is the normal form (MetaData resolved, padding resolved to byte/side, effective configuration); TLC checks "
             "Meaning' = Meaning for every respelling site of three composite base programs built from DslGen cells and enumerates every (base, site); "
             "both texts are compiled by the real CLI for all six targets and TLC validates that the outputs are byte-identical (TraceRespell.tla). "
             "The converse ('an attribute applies only to the field it is written on') is the inline / inlineall sites on MetaData-shared fields.",
        note="Single-site respellings in quick; the renderer (harness/dsl.py) only lays out tokens, every structural rewrite is proved meaning-preserving by TLC first.",
        technique="TLC check of Meaning-preservation + TLC-enumerated respellings compiled by the CLI + TLC trace validation"),
    "C09": dict(
        level="model_checking", design="6 (C09), 3.9",
        text="Format.tla (document history machine: Format / Relayout(k) / Compile; ems never changes, errors only on invalid "
             "text, compile sees ems only) is model-checked and its histories (length <= 3) enumerated by TLC; each is replayed "
             "on syntax-rich documents through the real library formatter and the real compiler; a comment is inserted at every "
             "token boundary (same line / own line); brace-dropping / truncating mutations and characters no token can start with give invalid texts. Every recorded "
             "step (ems of the output by an independent tokenizer, parse status, compile digest) is validated by TLC against "
             "TraceFormat.tla.",
        note="Trusted: the harness tokenizer (cross-checked against the ANTLR token stream on every run). The document set is "
             "hand-written (harness/docs.py: 6 documents incl. multi-line documentation strings and a comment-only text); the comment positions the formatter drops are recorded as known findings. Grammar.tla (PacketDsl.g4 as a recogniser) decides 'syntactically valid' for every token-level mutation (TraceGrammar).",
        technique="TLC model checking of Format.tla + TLC-enumerated histories replayed into the formatter/compiler + TLC trace validation"),
    "C10": dict(
        level="model_checking", design="6 (C10), 3.9",
        text="Same machinery as C09; the verdicts are idempotence (Format;Format returns the same text) and layout canonicity "
             "(Relayout(k);Format equals Format of the original for k in one-token-per-line, fewest lines, tabs+CRLF, blank "
             "lines, seeded random), for every history TLC enumerates and every comment-at-boundary document.",
        note="Same trusted base as C09; canonicity is only judged when the token stream survived (a lost comment is C09's).",
        technique="TLC model checking of Format.tla + replay of Format/Relayout histories + TLC trace validation"),
    "C11": dict(
        level="exploration", design="6 (C11), 3.10",
        text="Entry.tla admits only the outcomes result | diagnostic for every entry point; every recorded call (format -d, format -f, "
             "FormatPacketDslExport in a child process, compile with six targets) is validated by TLC against it (TraceEntry.tla: panic, abort "
             "and hang are rejected). Inputs: all documents, token mutations Truncate/Drop/Dup at every 4th token (every token in thorough), "
             "~45 optional-element forms, every fault case of Validate.tla, deep nesting, long inputs, seeded byte-level mutations and binary strings.",
        note="Arbitrary byte strings can only be sampled; failures are identified at panic-site granularity (entry point + innermost fin-protoc frame).",
        technique="input classes enumerated from the specs + seeded mutations, every call validated by TLC against Entry.tla outcomes"),
    "C16": dict(
        level="model_checking", design="6 (C16), 3.10",
        text="Entry.tla (file / stdout / exit / tree machine) is model-checked (StdoutExact, FileUntouchedOnError, LibIsResult, TreeExact) and shown "
             "sensitive (DebugPrintArgc and LibMemo switches); TLC enumerates all call histories of length <= 2; each is replayed on concrete texts through the real CLI "
             "and the C library - the library calls of one history go into ONE process that keeps the library loaded, and a longer library session asks every text twice in a row; compile is run for target subsets x {with, without the subcommand word} x {relative, absolute, nested, pre-existing, named like subcommands, one shared} "
             "directories; TLC validates every call against the library result / generator file maps obtained in-process (TraceEntry.tla).",
        note="Trusted: the overlay driver's in-process FormatPacketDsl / generator file maps as 'the library result'; 'nowhere else' observed by listing "
             "an empty working directory with HOME/TMPDIR redirected.",
        technique="TLC model checking of Entry.tla + TLC-enumerated call histories replayed into CLI and C library + TLC trace validation"),
    "C12": dict(
        level="model_checking", design="6 (C12), 3.4",
        text="Validate.tla states well-formedness twice (declarative IllFormed, operational Check machine in the compiler's "
             "pass order); TLC checks that both agree and that every single injected fault (16 classes x every site of 5 "
             "bases) yields exactly its class, and emits each case. Every case is rendered at several line shifts, "
             "compiled by the real CLI with all six outputs, and the observed exit status / diagnostics / files are "
             "validated by TLC against TraceValidate.tla (reject => non-zero exit, a diagnostic of the class at the line, "
             "no file; accept => exit 0, no diagnostic, files).",
        note="Message text is mapped to offence classes by lenient keyword match; columns are ignored; the fault universe "
             "is class x site over five hand-written bases; the accept side is every documented option value plus EVERY program DslGen enumerates (front end run in-process, 'frontend|<program>|rejected'); the model the front end builds is compared with Model.tla (ModelOf) by TLC (TraceModel), a mere difference is reported as a note, not as a verdict.",
        technique="TLC model checking of Validate.tla + TLC-enumerated fault cases replayed into the CLI + TLC trace validation (TraceValidate); Model.tla / TraceModel for the accept side"),
    "C13": dict(
        level="model_checking", design="6 (C13), 3.8",
        text="Pipeline.tla (design: generators never consult map order) is model-checked exhaustively by TLC; the real "
             "generators are then run K times in one process and in separate CLI processes per (program, target) and the "
             "recorded rep-events are validated by TLC against TracePipeline.tla (Deterministic: one distinct digest per "
             "emitted file). The schedule dimension (Go map iteration order) can only be sampled.",
        note="Trusted: sha256, the overlay driver's digesting. Map iteration orders are sampled, not enumerated; the C++ "
             "banner year (time.Now) is not varied.",
        technique="TLC model checking of Pipeline.tla + TLC trace validation of repeated-generation histories"),
    "C14": dict(
        level="model_checking", design="6 (C14), 3.8",
        text="Pipeline.tla is model-checked exhaustively (Independent, ModelUntouched, GenFrame; 337k states) and shown "
             "sensitive (switch InPlaceNormalise => counterexample). TLC enumerates all 1957 ordered sequences of distinct "
             "targets; each is replayed on one parsed model through the overlay driver, all 64 flag subsets through the real "
             "CLI; every recorded step (files digests + the model's padding cells after the step) is validated by TLC "
             "against TracePipeline.tla.",
        note="Trusted: reflection-based observation of the model (Padding objects + structural digest) in the overlay "
             "driver; programs are the hand-written corpus in harness/corpus.py (pad forms, config padding, shared MetaData).",
        technique="TLC model checking + TLC-enumerated generator orders replayed into the real generators + TLC trace validation"),
}

REASON_PENDING = "not yet claimed: the check for this property is still being built in this round (see DESIGN.md 6)"


def main():
    checks = []
    for pid in ALL:
        c = CHECKS.get(pid)
        if not c:
            continue
        checks.append({
            "property_id": pid,
            "quick_cmd": "python3 harness/verif.py check %s --tier quick" % pid,
            "thorough_cmd": "python3 harness/verif.py check %s --tier thorough" % pid,
            "evidence_file": "/verif/evidence/%s.json" % pid,
            "replay_cmd_template": "python3 harness/verif.py replay {path}",
            "engine": "tlc",
            "level_claimed": {"category": c["level"], "text": c["text"], "design_ref": "DESIGN.md " + c["design"]},
            "level_note": c["note"],
            "technique": c["technique"],
        })
    m = {
        "version": 1,
        "setup_cmd": "python3 harness/verif.py setup",
        "hooks": {
            "guard": "verif",
            "enable": "none needed: the checks build /repo's working tree as is; in-process access to internal packages uses "
                      "`go build -overlay` with /verif/drv/main.go placed virtually at internal/zz_verifdrv (no file added to /repo)",
            "baseline_off_cmd": "sh harness/baseline.sh",
            "source_commits": [],
            "add_only": True,
        },
        "engines": [
            {"name": "tlc", "path": "/opt/veriftools/tla/tla2tools.jar", "serves_properties": sorted(CHECKS),
             "kind_free_text": "TLC 1.8.0 explicit-state model checker: exhaustive checking of spec/*.tla, test-case "
                               "generation (PrintT TESTCASE), trace validation of ndjson traces recorded from the real code"},
        ],
        "checks": checks,
        "not_applicable": [{"property_id": p, "reason": REASON_PENDING} for p in ALL if p not in CHECKS],
        "notes": "Exit codes of every check: 0 held (known findings printed as KNOWN-FINDING), 1 VIOLATION, 2 infrastructure "
                 "failure (never a verdict). known_findings.jsonl lists recorded and fixed defects.",
    }
    with open(os.path.join(VERIF, "MANIFEST.json"), "w") as f:
        json.dump(m, f, indent=1)
    print("MANIFEST.json written: %d checks, %d not_applicable" % (len(checks), len(m["not_applicable"])))


if __name__ == "__main__":
    main()
