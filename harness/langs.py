"""Language plug-ins: build the emitted code against the reference runtime, run the driver on a case,
run the emitted self-tests.  Results are memoised content-addressed (DESIGN 5, Caching): the key covers
the emitted files, the runtime, the driver, the case and the toolchain, so a change in an emitter
re-builds exactly the programs whose emitted text changed."""
import fcntl
import json
import os
import shutil
import subprocess
import sys

from common import RUNTIMES, WORK, Infra, run, sha, tree_hash, write, read

MEMO = os.path.join(WORK, "memo")
FLAG = {"lua": "-l", "rust": "-r", "go": "-g", "java": "-j", "py": "-p", "cpp": "-c"}
CODEC = ["py", "go", "java", "cpp", "rust"]


def emitted_hash(outdir):
    return tree_hash(outdir) if os.path.isdir(outdir) else "none"


_RT_HASH = {}


def runtime_hash(lang):
    if lang not in _RT_HASH:
        _RT_HASH[lang] = tree_hash(os.path.join(RUNTIMES, lang), skip=(".git", "target", "__pycache__", "build"))
    return _RT_HASH[lang]


def memo(key, compute):
    os.makedirs(MEMO, exist_ok=True)
    p = os.path.join(MEMO, key[:2], key + ".json")
    if os.path.exists(p):
        try:
            return json.load(open(p))
        except ValueError:
            pass
    os.makedirs(os.path.dirname(p), exist_ok=True)
    val = compute()
    import threading
    tmp = p + ".tmp%d.%d" % (os.getpid(), threading.get_ident())
    with open(tmp, "w") as f:
        json.dump(val, f)
    os.replace(tmp, p)
    return val


def parse_events(text):
    evs = []
    for line in text.splitlines():
        line = line.strip()
        if line.startswith("{"):
            try:
                evs.append(json.loads(line))
            except ValueError:
                pass
    return evs


class Lang:
    name = ""

    def toolchain(self):
        return ""

    def setup(self):
        pass

    def key(self, outdir, case, what):
        return sha("|".join([self.name, what, emitted_hash(outdir), runtime_hash(self.name), self.toolchain(),
                             sha(json.dumps(case, sort_keys=True)) if case is not None else ""]))

    def session(self, outdir, case, scratch):
        """-> {"build": {"ok", "log"}, "events": [...], "crash": str|None}"""
        return memo(self.key(outdir, case, "session"), lambda: self._session(outdir, case, scratch))

    def selftest(self, outdir, scratch):
        """-> {"build_ok", "ran", "passed", "failed", "log"}"""
        return memo(self.key(outdir, None, "selftest"), lambda: self._selftest(outdir, scratch))


def py_undefined_names(path, extra_defined):
    """Names a Python file loads but never binds anywhere (any scope counts as binding: over-approximation,
    so no false alarm) and that neither the builtins nor the star-imported modules provide."""
    import ast
    import builtins
    tree = ast.parse(open(path, encoding="utf-8", errors="replace").read(), path)
    defined = set(dir(builtins)) | set(extra_defined)
    for node in ast.walk(tree):
        if isinstance(node, (ast.FunctionDef, ast.AsyncFunctionDef, ast.ClassDef)):
            defined.add(node.name)
        elif isinstance(node, (ast.Import, ast.ImportFrom)):
            for a in node.names:
                if a.name != "*":
                    defined.add((a.asname or a.name).split(".")[0])
        elif isinstance(node, ast.Name) and isinstance(node.ctx, (ast.Store, ast.Del)):
            defined.add(node.id)
        elif isinstance(node, ast.arg):
            defined.add(node.arg)
        elif isinstance(node, ast.ExceptHandler) and node.name:
            defined.add(node.name)
    used = {n.id for n in ast.walk(tree) if isinstance(n, ast.Name) and isinstance(n.ctx, ast.Load)}
    return sorted(used - defined)


def py_runtime_names():
    import ast
    names = set()
    d = os.path.join(RUNTIMES, "py")
    for f in os.listdir(d):
        if f.endswith(".py") and f != "driver.py":
            names.add(f[:-3])
            tree = ast.parse(open(os.path.join(d, f)).read())
            for node in tree.body:
                if isinstance(node, (ast.FunctionDef, ast.ClassDef)):
                    names.add(node.name)
                elif isinstance(node, ast.Assign):
                    for t in node.targets:
                        if isinstance(t, ast.Name):
                            names.add(t.id)
                elif isinstance(node, (ast.Import, ast.ImportFrom)):
                    for a in node.names:
                        if a.name != "*":
                            names.add((a.asname or a.name).split(".")[0])
    return names


class Py(Lang):
    name = "py"

    def toolchain(self):
        # the build check lives in this file, so it is part of the memo key
        return sys.version + sha(read(os.path.abspath(__file__)))

    def _env(self):
        env = dict(os.environ)
        env["PYTHONDONTWRITEBYTECODE"] = "1"
        env["PYTHONPATH"] = os.path.join(RUNTIMES, "py")
        return env

    def _session(self, outdir, case, scratch):
        files = [f for f in sorted(os.listdir(outdir)) if f.endswith(".py")] if os.path.isdir(outdir) else []
        log = ""
        ok = bool(files)
        for f in files:
            r = run([sys.executable, "-c", "import sys,ast;ast.parse(open(sys.argv[1]).read(), sys.argv[1])", os.path.join(outdir, f)], timeout=60)
            if r.returncode != 0:
                ok = False
                log += "%s: %s\n" % (f, r.stderr.strip().splitlines()[-1] if r.stderr.strip() else "syntax error")
            elif not f.endswith("_test.py"):
                # names that nothing defines (e.g. a Go-style `true`): the file is not a valid program against the runtime API
                try:
                    und = py_undefined_names(os.path.join(outdir, f), py_runtime_names())
                except SyntaxError:
                    und = []
                if und:
                    ok = False
                    log += "%s: undefined name(s) %s\n" % (f, ", ".join(und[:6]))
        cp = os.path.join(scratch, "case_py.json")
        write(cp, json.dumps(case))
        r = run([sys.executable, os.path.join(RUNTIMES, "py", "driver.py"), outdir, cp], env=self._env(), timeout=300)
        evs = parse_events(r.stdout)
        crash = None
        if r.returncode != 0 or r.timed_out:
            crash = "driver exit %s: %s" % (r.returncode, r.stderr[-400:])
        load = next((e for e in evs if e.get("ev") == "load"), None)
        if load is not None and not load.get("ok"):
            ok = False
            log += "import: %s\n" % load.get("err")
        return {"build": {"ok": ok, "log": log[-1500:]}, "events": [e for e in evs if e.get("ev") != "load"], "crash": crash}

    def _selftest(self, outdir, scratch):
        tests = [f for f in sorted(os.listdir(outdir)) if f.endswith("_test.py")] if os.path.isdir(outdir) else []
        if not tests:
            return {"build_ok": False, "ran": 0, "passed": 0, "failed": 0, "log": "no *_test.py emitted"}
        env = self._env()
        env["PYTHONPATH"] = outdir + ":" + env["PYTHONPATH"]
        ran = passed = failed = 0
        log = ""
        build_ok = True
        for t in tests:
            r = run([sys.executable, "-m", "unittest", "-v", t[:-3]], cwd=outdir, env=env, timeout=300)
            out = r.stderr + r.stdout
            import re
            m = re.search(r"Ran (\d+) test", out)
            n = int(m.group(1)) if m else 0
            ran += n
            if r.returncode == 0:
                passed += n
            else:
                fm = re.search(r"FAILED \((?:failures=(\d+))?(?:, )?(?:errors=(\d+))?", out)
                nf = sum(int(x) for x in fm.groups() if x) if fm else max(n, 1)
                failed += nf
                passed += max(0, n - nf)
                if n == 0:
                    build_ok = False
                log += out[-800:]
        return {"build_ok": build_ok, "ran": ran, "passed": passed, "failed": failed, "log": log[-1500:]}


REGISTRY = {"py": Py()}


def get(lang):
    if lang in REGISTRY:
        return REGISTRY[lang]
    try:
        mod = __import__("lang_" + lang)
    except ImportError:
        return None
    REGISTRY[lang] = mod.PLUGIN
    return REGISTRY[lang]


def available():
    return [l for l in CODEC if get(l) is not None]


def setup_all():
    for l in available():
        get(l).setup()
