"""Language plug-ins: build the emitted code against the reference runtime, run the driver on a case,
run the emitted self-tests.  Results are memoised content-addressed (DESIGN 5, Caching): the key covers
the emitted files, the runtime, the driver, the case and the toolchain, so a change in an emitter
re-builds exactly the programs whose emitted text changed."""
import fcntl
import json
import os
import shutil
import subprocess
import sys

from common import RUNTIMES, WORK, Infra, run, sha, tree_hash, write, read

MEMO = os.path.join(WORK, "memo")
FLAG = {"lua": "-l", "rust": "-r", "go": "-g", "java": "-j", "py": "-p", "cpp": "-c"}
CODEC = ["py", "go", "java", "cpp", "rust"]


def emitted_hash(outdir):
    return tree_hash(outdir) if os.path.isdir(outdir) else "none"


_RT_HASH = {}


def runtime_hash(lang):
    if lang not in _RT_HASH:
        _RT_HASH[lang] = tree_hash(os.path.join(RUNTIMES, lang), skip=(".git", "target", "__pycache__", "build"))
    return _RT_HASH[lang]


def memo(key, compute):
    os.makedirs(MEMO, exist_ok=True)
    p = os.path.join(MEMO, key[:2], key + ".json")
    if os.path.exists(p):
        try:
            return json.load(open(p))
        except ValueError:
            pass
    os.makedirs(os.path.dirname(p), exist_ok=True)
    val = compute()
    import threading
    tmp = p + ".tmp%d.%d" % (os.getpid(), threading.get_ident())
    with open(tmp, "w") as f:
        json.dump(val, f)
    os.replace(tmp, p)
    return val


def parse_events(text):
    evs = []
    for line in text.splitlines():
        line = line.strip()
        if line.startswith("{"):
            try:
                evs.append(json.loads(line))
            except ValueError:
                pass
    return evs


class Lang:
    name = ""

    def toolchain(self):
        return ""

    def setup(self):
        pass

    def key(self, outdir, case, what):
        return sha("|".join([self.name, what, emitted_hash(outdir), runtime_hash(self.name), self.toolchain(),
                             sha(json.dumps(case, sort_keys=True)) if case is not None else ""]))

    def session(self, outdir, case, scratch):
        """-> {"build": {"ok", "log"}, "events": [...], "crash": str|None}"""
        return memo(self.key(outdir, case, "session"), lambda: self._session(outdir, case, scratch))

    def selftest(self, outdir, scratch):
        """-> {"build_ok", "ran", "passed", "failed", "log"}"""
        return memo(self.key(outdir, None, "selftest"), lambda: self._selftest(outdir, scratch))


class Py(Lang):
    name = "py"

    def toolchain(self):
        return sys.version

    def _env(self):
        env = dict(os.environ)
        env["PYTHONDONTWRITEBYTECODE"] = "1"
        env["PYTHONPATH"] = os.path.join(RUNTIMES, "py")
        return env

    def _session(self, outdir, case, scratch):
        files = [f for f in sorted(os.listdir(outdir)) if f.endswith(".py")] if os.path.isdir(outdir) else []
        log = ""
        ok = bool(files)
        for f in files:
            r = run([sys.executable, "-c", "import sys,ast;ast.parse(open(sys.argv[1]).read(), sys.argv[1])", os.path.join(outdir, f)], timeout=60)
            if r.returncode != 0:
                ok = False
                log += "%s: %s\n" % (f, r.stderr.strip().splitlines()[-1] if r.stderr.strip() else "syntax error")
        cp = os.path.join(scratch, "case_py.json")
        write(cp, json.dumps(case))
        r = run([sys.executable, os.path.join(RUNTIMES, "py", "driver.py"), outdir, cp], env=self._env(), timeout=300)
        evs = parse_events(r.stdout)
        crash = None
        if r.returncode != 0 or r.timed_out:
            crash = "driver exit %s: %s" % (r.returncode, r.stderr[-400:])
        load = next((e for e in evs if e.get("ev") == "load"), None)
        if load is not None and not load.get("ok"):
            ok = False
            log += "import: %s\n" % load.get("err")
        return {"build": {"ok": ok, "log": log[-1500:]}, "events": [e for e in evs if e.get("ev") != "load"], "crash": crash}

    def _selftest(self, outdir, scratch):
        tests = [f for f in sorted(os.listdir(outdir)) if f.endswith("_test.py")] if os.path.isdir(outdir) else []
        if not tests:
            return {"build_ok": False, "ran": 0, "passed": 0, "failed": 0, "log": "no *_test.py emitted"}
        env = self._env()
        env["PYTHONPATH"] = outdir + ":" + env["PYTHONPATH"]
        ran = passed = failed = 0
        log = ""
        build_ok = True
        for t in tests:
            r = run([sys.executable, "-m", "unittest", "-v", t[:-3]], cwd=outdir, env=env, timeout=300)
            out = r.stderr + r.stdout
            import re
            m = re.search(r"Ran (\d+) test", out)
            n = int(m.group(1)) if m else 0
            ran += n
            if r.returncode == 0:
                passed += n
            else:
                fm = re.search(r"FAILED \((?:failures=(\d+))?(?:, )?(?:errors=(\d+))?", out)
                nf = sum(int(x) for x in fm.groups() if x) if fm else max(n, 1)
                failed += nf
                passed += max(0, n - nf)
                if n == 0:
                    build_ok = False
                log += out[-800:]
        return {"build_ok": build_ok, "ran": ran, "passed": passed, "failed": failed, "log": log[-1500:]}


REGISTRY = {"py": Py()}


def get(lang):
    if lang in REGISTRY:
        return REGISTRY[lang]
    try:
        mod = __import__("lang_" + lang)
    except ImportError:
        return None
    REGISTRY[lang] = mod.PLUGIN
    return REGISTRY[lang]


def available():
    return [l for l in CODEC if get(l) is not None]


def setup_all():
    for l in available():
        get(l).setup()
