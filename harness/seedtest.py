#!/usr/bin/env python3
"""Developer tool: evaluate one seeded change.
   seedtest.py verify <worktree> <seeddir>      apply patch in the scratch worktree, build, run the repo tests
   seedtest.py detect <seeddir> <C01,C02,...>   apply patch to /repo, run the quick checks, undo; prints which check alarms
Never leaves /repo modified."""
import json
import os
import subprocess
import sys

GO = "/root/go/pkg/mod/golang.org/toolchain@v0.0.1-go1.24.2.linux-amd64/bin/go"
ENV = dict(os.environ, GOFLAGS="-mod=mod", GOPROXY="off", GOTOOLCHAIN="local", GOSUMDB="off")
VERIF = os.path.dirname(os.path.dirname(os.path.abspath(__file__)))


def sh(cmd, cwd=None, timeout=1800):
    return subprocess.run(cmd, cwd=cwd, env=ENV, capture_output=True, text=True, timeout=timeout)


def verify(wt, seed):
    patch = os.path.join(seed, "patch.diff")
    assert sh(["git", "status", "--porcelain", "--untracked-files=no"], cwd=wt).stdout.strip() == "", "worktree dirty"
    r = sh(["git", "apply", patch], cwd=wt)
    if r.returncode != 0:
        print("APPLY FAILED", r.stderr)
        return 1
    try:
        b = sh([GO, "build", "./..."], cwd=wt)
        t = sh([GO, "test", "-vet=off", "-count=1", "./..."], cwd=wt)
        print("build rc=%d test rc=%d" % (b.returncode, t.returncode))
        if b.returncode or t.returncode:
            print((b.stderr + t.stdout)[-1500:])
            return 1
    finally:
        sh(["git", "checkout", "--", "."], cwd=wt)
    return 0


def detect(seed, pids, tier="quick"):
    patch = os.path.join(seed, "patch.diff")
    assert sh(["git", "status", "--porcelain", "--untracked-files=no"], cwd="/repo").stdout.strip() == "", "/repo dirty"
    r = sh(["git", "apply", patch], cwd="/repo")
    if r.returncode != 0:
        r = sh(["git", "apply", "--3way", patch], cwd="/repo")
        sh(["git", "reset", "-q"], cwd="/repo")
    if r.returncode != 0:
        print("APPLY FAILED on /repo", r.stderr)
        sh(["git", "checkout", "--", "."], cwd="/repo")     # a 3-way attempt may leave conflict markers behind
        return 2
    res = {}
    try:
        for pid in pids:
            c = sh([sys.executable, "harness/verif.py", "check", pid, "--tier", tier], cwd=VERIF, timeout=3000)
            viol = [l for l in c.stdout.splitlines() if l.startswith("VIOLATION")]
            sigs = [l.strip() for l in c.stdout.splitlines() if l.strip().startswith("signature:")]
            res[pid] = {"rc": c.returncode, "violations": len(viol), "signatures": sigs[:6]}
            print(pid, "rc=%d violations=%d" % (c.returncode, len(viol)), sigs[:3], (c.stderr[-300:] if c.returncode == 2 else ""))
            if viol and os.environ.get("SEED_FIRST") == "1":
                break           # developer shortcut: the first alarming check is enough
    finally:
        sh(["git", "checkout", "--", "."], cwd="/repo")
        # replays written while a seeded change was applied are not evidence of anything on the real tree
        sh(["git", "checkout", "--", "evidence"], cwd=VERIF)
        sh(["git", "clean", "-fdq", "replays"], cwd=VERIF)
    print(json.dumps(res))
    return 0


if __name__ == "__main__":
    if sys.argv[1] == "verify":
        sys.exit(verify(sys.argv[2], sys.argv[3]))
    sys.exit(detect(sys.argv[2], sys.argv[3].split(","), sys.argv[4] if len(sys.argv) > 4 else "quick"))
