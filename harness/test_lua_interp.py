#!/usr/bin/env python3
"""Unit tests of harness/lua_interp.py + lua_wireshark.py (plain asserts: `python3 test_lua_interp.py`).
Expectations follow the Lua 5.3 reference manual (there is no reference Lua in this sandbox)."""
import math
import os
import sys
import time

sys.path.insert(0, os.path.dirname(os.path.abspath(__file__)))
import lua_interp as L  # noqa: E402
import lua_wireshark as W  # noqa: E402

N = [0]


def run(src, **kw):
    """-> list of returned values"""
    it = L.Interp("t", **kw)
    return it.run(src)


def out(src):
    it = L.Interp("t")
    it.run(src)
    return it.output


def err(src, **kw):
    """-> error message of the LuaError the chunk raises"""
    try:
        run(src, **kw)
    except L.LuaError as e:
        return str(e)
    raise AssertionError("no error raised by: " + src)


def eq(got, exp, what=""):
    N[0] += 1
    if got != exp or (type(got) is not type(exp) and not (isinstance(got, list))):
        raise AssertionError("%s\n   got: %r\n  want: %r" % (what, got, exp))


def ret(src, *exp):
    got = run(src)
    N[0] += 1
    if len(got) != len(exp) or any(g != e or type(g) is not type(e) for g, e in zip(got, exp)):
        raise AssertionError("%s\n   got: %r\n  want: %r" % (src, got, list(exp)))


def has(msg, part):
    N[0] += 1
    if part not in msg:
        raise AssertionError("error message %r does not contain %r" % (msg, part))


def test_scoping():
    # a local function declared AFTER its use is not visible: the reference is a global lookup -> nil call
    e = err("local function a() return b() end\nlocal function b() return 1 end\nreturn a()")
    eq(e, "t:1: attempt to call a nil value (global 'b')")
    # ... but a GLOBAL function defined later is found at run time
    ret("local function a() return b() end\nfunction b() return 7 end\nreturn a()", 7)
    # a later local does not capture an earlier reference even if the global is assigned afterwards
    ret("x = 1\nlocal function f() return x end\nlocal x = 2\nreturn f(), x", 1, 2)
    # local function may recurse, `local f = function` may not
    ret("local function f(n) if n == 0 then return 0 end return 1 + f(n - 1) end return f(5)", 5)
    has(err("local f = function(n) if n == 0 then return 0 end return f(n - 1) end return f(3)"), "attempt to call a nil value (global 'f')")
    # shadowing and block scope
    ret("local x = 1 do local x = 2 end return x", 1)
    ret("local x = 1 do x = 2 end return x", 2)
    ret("local x = 1 local x = x + 1 return x", 2)
    ret("local x = 10 local function f() return x end local x = 20 return f(), x", 10, 20)
    ret("do local y = 5 end return y", None)
    ret("local a, b, c = 1, 2 return a, b, c", 1, 2, None)
    ret("local a, b = (function() return 1, 2, 3 end)() return a, b", 1, 2)
    # local x = x reads the outer (global) x
    ret("x = 5 local x = x return x", 5)
    ret("local x = x return x", None)
    # closures capture variables, not values
    ret("local n = 0 local function inc() n = n + 1 return n end inc() inc() return n", 2)
    ret("local function counter() local c = 0 return function() c = c + 1 return c end end "
        "local a, b = counter(), counter() a() a() return a(), b()", 3, 1)
    # each loop iteration has a fresh variable
    ret("local fs = {} for i = 1, 3 do fs[i] = function() return i end end return fs[1](), fs[2](), fs[3]()", 1, 2, 3)
    ret("local fs = {} for _, v in ipairs({10, 20}) do fs[#fs + 1] = function() return v end end return fs[1](), fs[2]()", 10, 20)
    ret("local fs = {} local i = 0 while i < 2 do i = i + 1 local j = i fs[i] = function() j = j + 1 return j end end return fs[1](), fs[1](), fs[2]()", 2, 3, 3)
    # loop variable is local to the loop
    ret("for i = 1, 3 do end return i", None)
    ret("local i = 99 for i = 1, 3 do end return i", 99)
    # repeat-until condition sees the body's locals
    ret("local n = 0 repeat local done = n >= 2 n = n + 1 until done return n", 3)
    # upvalue through two levels
    ret("local x = 1 local function f() return function() x = x + 1 return x end end return f()(), x", 2, 2)
    # parameters are locals; assignment to a parameter does not touch the caller
    ret("local function f(a) a = a + 1 return a end local v = 1 return f(v), v", 2, 1)
    # globals assigned inside functions are visible outside
    ret("local function f() g = 3 end f() return g", 3)
    # function a.b.c() / a:m()
    ret("local a = {b = {}} function a.b.c(x) return x * 2 end function a:m(y) return self == a, y end return a.b.c(4), a:m(5)", 8, True, 5)
    has(err("local a = {} function a.b.c() end"), "attempt to index a nil value (field 'b')")
    # upvalue error naming
    has(err("local t local function f() return t.x end return f()"), "attempt to index a nil value (upvalue 't')")


def test_operators():
    ret("return 1 + 2 * 3, (1 + 2) * 3, 2 ^ 3 ^ 2, -2 ^ 2, 7 // 2, 7 % 3, -7 % 3, 7 % -3, 7 / 2", 7, 9, 512.0, -4.0, 3, 1, 2, -2, 3.5)
    ret("return 1 .. 2 .. 3, 'a' .. 'b' .. 'c'", "123", "abc")
    ret("return 1 .. '', 1.5 .. '', 10 / 2 .. '', 2^53 .. '', -0.0 .. '', 1e15 .. '', 1e100 .. ''", "1", "1.5", "5.0", "9.007199254741e+15", "-0.0", "1e+15", "1e+100")
    ret("return 3 == 3.0, '1' == 1, 1 < 2, 'a' < 'b', 'a' < 'B', 2 <= 2, 3 > 2, 3 >= 4, 1 ~= 2", True, False, True, True, False, True, True, False, True)
    ret("return not nil, not 0, not '', not false", True, False, False, True)
    ret("return nil and 1, false or 'x', 0 and 'zero', nil or false, 1 and 2 or 3, nil and 2 or 3", None, "x", "zero", False, 2, 3)
    ret("return 1 < 2 == true, 'x' .. 1 + 2, not 1 == 2", True, "x3", False)
    ret("return #'abc', #{1, 2, 3}, #{}, #{n = 1}, -(-3), - -3", 3, 3, 0, 0, 3, 3)
    ret("return 1 + 1, 1 + 1.0, '10' + 5, '3' * '4', 10 - 2.5, 2 * 3.0", 2, 2.0, 15, 12, 7.5, 6.0)
    ret("return 5 // 0.0, -5 // 0.0, 5 % math.huge, -5 % math.huge, 1 / 0, -1 / 0", math.inf, -math.inf, 5.0, math.inf, math.inf, -math.inf)
    ret("return 3 & 5, 3 | 5, 3 ~ 5, ~0, 1 << 4, 256 >> 4, 1 << 64, -1 >> 60", 1, 7, 6, -1, 16, 16, 0, 15)
    ret("return math.maxinteger + 1 == math.mininteger, math.maxinteger * 2", True, -2)
    ret("return 0x10, 0xff, 1e2, .5, 3., 0x.8p1, 9223372036854775807, 9223372036854775808", 16, 255, 100.0, 0.5, 3.0, 1.0, 9223372036854775807, 9223372036854775808.0)
    ret("local t = {} return t == t, {} == {}, 'a' == 'a'", True, False, True)
    ret("return 2^-1, 10 // 3.0, 7.5 % 2, -7.5 % 2", 0.5, 3.0, 1.5, 0.5)
    ret("return 1 == 1.0, math.type(1), math.type(1.0), math.type('1'), 3 // 1, 3.0 // 1", True, "integer", "float", None, 3, 3.0)
    nan = run("return 0/0")[0]
    eq(nan != nan, True)
    ret("local n = 0/0 return n == n, n ~= n", False, True)
    # and/or short circuit does not evaluate the other side
    ret("local c = 0 local function f() c = c + 1 return true end local _ = false and f() local _ = true or f() return c", 0)
    # comparison chain precedence: concat binds tighter than comparison, looser than arithmetic
    ret("return 'a' .. 'b' == 'ab', 1 + 1 .. '' == '2'", True, True)


def test_errors():
    eq(err("local t = nil\nreturn t.x"), "t:2: attempt to index a nil value (local 't')")
    eq(err("return undefinedvar.x"), "t:1: attempt to index a nil value (global 'undefinedvar')")
    eq(err("local t = {}\nreturn t.a.b"), "t:2: attempt to index a nil value (field 'a')")
    eq(err("local t = {}\nt.a.b = 1"), "t:2: attempt to index a nil value (field 'a')")
    eq(err("undefinedfn()"), "t:1: attempt to call a nil value (global 'undefinedfn')")
    eq(err("local t = {}\nt.f()"), "t:2: attempt to call a nil value (field 'f')")
    eq(err("local t = {}\nt:m()"), "t:2: attempt to call a nil value (method 'm')")
    eq(err("local s = 5\ns()"), "t:2: attempt to call a number value (local 's')")
    eq(err("local x\nreturn x + 1"), "t:2: attempt to perform arithmetic on a nil value (local 'x')")
    eq(err("return 1 + nil"), "t:1: attempt to perform arithmetic on a nil value")
    eq(err("return 1 + {}"), "t:1: attempt to perform arithmetic on a table value")
    eq(err("return 'abc' + 1"), "t:1: attempt to perform arithmetic on a string value (constant 'abc')")
    eq(err("y = nil return 'a' .. y"), "t:1: attempt to concatenate a nil value (global 'y')")
    eq(err("return 'a' .. {}"), "t:1: attempt to concatenate a table value")
    eq(err("return 1 < nil"), "t:1: attempt to compare number with nil")
    eq(err("return nil < 1"), "t:1: attempt to compare nil with number")
    eq(err("return 1 < 'x'"), "t:1: attempt to compare number with string")
    eq(err("return {} < {}"), "t:1: attempt to compare two table values")
    eq(err("return 2 > nil"), "t:1: attempt to compare nil with number")        # a > b is b < a
    eq(err("return #nil"), "t:1: attempt to get length of a nil value")
    eq(err("local n return #n"), "t:1: attempt to get length of a nil value (local 'n')")
    eq(err("return -{}"), "t:1: attempt to perform arithmetic on a table value")
    eq(err("for i = 1, nil do end"), "t:1: 'for' limit must be a number")
    eq(err("for i = nil, 1 do end"), "t:1: 'for' initial value must be a number")
    eq(err("for i = 1, 2, {} do end"), "t:1: 'for' step must be a number")
    eq(err("for i = 1, 2, 0 do end"), "t:1: 'for' step is zero")
    eq(err("return 1 // 0"), "t:1: attempt to perform 'n//0'")
    eq(err("return 1 % 0"), "t:1: attempt to perform 'n%%0'")
    eq(err("return 1.5 | 1"), "t:1: number has no integer representation")
    eq(err("local t = {} t[nil] = 1"), "t:1: table index is nil")
    eq(err("local t = {} t[0/0] = 1"), "t:1: table index is NaN")
    eq(err("error('boom')"), "t:1: boom")
    eq(err("error('boom', 0)"), "boom")
    eq(err("\n\nlocal function f() error('deep') end\nf()"), "t:3: deep")
    eq(err("assert(false)"), "t:1: assertion failed!")
    eq(err("assert(nil, 'msg')"), "msg")
    eq(err("for k in pairs(nil) do end"), "t:1: bad argument #1 to 'for iterator' (table expected, got no value)")
    eq(err("for k in 5 do end"), "t:1: attempt to call a number value (for iterator 'for iterator')")
    eq(err("string.rep()"), "t:1: bad argument #1 to 'rep' (string expected, got no value)")
    has(err("return ('x'):nomethod()"), "attempt to call a nil value (method 'nomethod')")
    has(err("return (1).x"), "attempt to index a number value")
    has(err("local b = true return b.x"), "attempt to index a boolean value (local 'b')")
    # error objects and pcall
    ret("local ok, e = pcall(function() local x = nil; return x.y end) return ok, e", False, "t:1: attempt to index a nil value (local 'x')")
    ret("local ok, e = pcall(error, {code = 7}) return ok, e.code", False, 7)
    ret("return pcall(function(a, b) return a + b, 'x' end, 1, 2)", True, 3, "x")
    ret("return select('#', pcall(error))", 2)
    # step / recursion limits
    has(err("while true do end", max_steps=10000), "step limit")
    has(err("local function g() end while true do g() end", max_steps=10000), "step limit")
    has(err("local function f() return f() end f()"), "stack overflow")       # no proper tail calls: reported as stack overflow
    has(err("repeat until false", max_steps=10000), "step limit")
    has(err("for i = 1, 1e18 do end", max_steps=10000), "step limit")
    has(err("local function f(n) return 1 + f(n + 1) end return f(1)"), "stack overflow")
    ret("local ok, e = pcall(function() local function f(n) return 1 + f(n + 1) end return f(1) end) return ok", False)
    has(err("local ok = pcall(function() while true do end end) return ok", max_steps=10000), "step limit")   # pcall cannot swallow it


def test_syntax():
    def syn(src, part):
        N[0] += 1
        try:
            L.Interp("t").load(src)
        except L.LuaSyntaxError as e:
            assert part in str(e), (src, str(e))
            return
        raise AssertionError("no syntax error: " + src)

    def unsup(src):
        N[0] += 1
        try:
            L.Interp("t").load(src)
        except L.Unsupported:
            return
        raise AssertionError("not Unsupported: " + src)
    syn("local = 1", "<name> expected")
    syn("x = ", "unexpected symbol")
    syn("if x then", "'end' expected")
    syn("for i = 1 do end", "',' expected")
    syn("x = 'abc", "unfinished string")
    syn("x = 1 +* 2", "unexpected symbol")
    syn("f(", "unexpected symbol")
    syn("return 1 2", "expected")
    syn("break", "break outside a loop")
    syn("x = 3x", "malformed number")
    syn("x = }", "unexpected symbol")
    syn("local t = {1, 2", "'}' expected")
    syn("x = '\\q'", "invalid escape sequence")
    syn("a.b:c = 1", "function arguments expected")
    syn("1 = x", "unexpected symbol")
    syn("f() = 1", "syntax error")
    syn("x = @", "unexpected symbol")
    syn("function f(...) end function g() return ... end", "cannot use '...' outside a vararg function")
    syn("--[[ unterminated", "unfinished long")
    unsup("goto done ::done::")
    unsup("::top:: x = 1")
    unsup("local x <const> = 1")
    unsup("do local y <close> = nil end")
    # run-time: libraries that are not provided raise Unsupported, not a misleading nil error
    N[0] += 1
    try:
        run("return os.time()")
    except L.Unsupported:
        pass
    else:
        raise AssertionError("os.time should be Unsupported")
    # things that must parse
    for src in ["", ";;;", "-- only a comment", "--[[ long\ncomment ]] x = 1", "--[==[ a ]] b ]==] x = 1", "local t = {1, 2, 3,}", "local t = {1; 2; x = 3;}",
                "f = function(...) local a, b = ... return select('#', ...) end", "x = a.b['c'].d", "local s = [[long\nstring]]", "local s = [==[a]]b]==]",
                "do end", "while false do end", "repeat until true", "if a then elseif b then else end", "return", "return;", "f'x' f{1} f[[y]]",
                "local a <= 1" if False else "x = 1 <= 2", "a.b.c = 1; a['x'] = 2", "local function f() return end", "#!/usr/bin/lua\nx = 1",
                "x = 0xA + 1e-3 + 3e+2 + .5e1", "t = {[1] = 'a', ['k'] = 'b', c = 'd', 'e', f(), ...}", "goto_ = 1  gotox = 2"]:
        N[0] += 1
        L.Interp("t").load(src)


def test_numeric_for():
    ret("local s = '' for i = 1, 3 do s = s .. i end return s", "123")
    ret("local s = '' for i = 3, 1 do s = s .. i end return s", "")
    ret("local s = '' for i = 3, 1, -1 do s = s .. i end return s", "321")
    ret("local s = '' for i = 1, 10, 4 do s = s .. i .. ',' end return s", "1,5,9,")
    ret("local s = '' for i = 10, 1, -4 do s = s .. i .. ',' end return s", "10,6,2,")
    ret("local s = '' for i = 1, 0 do s = s .. i end return s", "")
    ret("local s = '' for i = 1, 1 do s = s .. i end return s", "1")
    ret("local s = '' for i = 1, 2.5 do s = s .. i .. ',' end return s", "1,2,")             # integer loop, float limit floored
    ret("local s = '' for i = 1.0, 3 do s = s .. i .. ',' end return s", "1.0,2.0,3.0,")       # float loop
    ret("local s = '' for i = 1, 2, 0.5 do s = s .. i .. ',' end return s", "1.0,1.5,2.0,")
    ret("local s = '' for i = -1, -3, -1 do s = s .. i .. ',' end return s", "-1,-2,-3,")
    ret("local n = 0 for i = 1, 3 do i = i * 10 n = n + i end return n", 60)                 # assigning the loop var does not affect iteration
    ret("local n = 0 for i = 1, 10 do if i > 3 then break end n = n + i end return n", 6)
    ret("local c = 0 local function lim() c = c + 1 return 3 end for i = 1, lim() do end return c", 1)   # limit evaluated once
    ret("for i = 1, 3 do if i == 2 then return i end end", 2)
    ret("local n = 0 for i = 1, 3 do for j = 1, 3 do if j == 2 then break end n = n + 1 end end return n", 3)
    ret("local n = 0 for i = '1', '3' do n = n + i end return n", 6)                         # 5.3 coerces strings in for
    ret("local s = 0 for i = math.maxinteger - 1, math.huge do s = s + 1 end return s", 2)   # clipped limit, no overflow loop
    ret("local n = 0 local i = 0 while i < 5 do i = i + 1 if i % 2 == 0 then n = n + i end end return n", 6)
    ret("local i = 0 repeat i = i + 1 if i == 3 then break end until false return i", 3)


def test_tables():
    ret("local t = {10, 20, 30, x = 1, [5] = 50, ['a b'] = 2} return t[1], t[3], t.x, t[5], t['a b'], #t >= 3", 10, 30, 1, 50, 2, True)
    ret("local t = {} t[1] = 'a' t[2] = 'b' t[#t + 1] = 'c' return #t, t[3]", 3, "c")
    ret("local t = {1, 2, 3} t[#t] = nil return #t", 2)
    ret("local t = {} t[1.0] = 'x' return t[1], next(t)", "x", 1, "x")
    ret("local t = {} t[true] = 'T' t[1] = 'one' return t[true], t[1], t[false]", "T", "one", None)
    ret("local t = {x = 1} t.x = nil return next(t)", None)
    ret("local function f() return 1, 2, 3 end local t = {f(), f()} return #t", 4)
    ret("local function f() return 1, 2, 3 end local t = {f(), (f())} return #t", 2)
    ret("local function f(...) return {...} end return #f(1, nil, 3) >= 1, #f()", True, 0)
    ret("local t = {n = 0} local keys = {} for k, v in pairs({a = 1, b = 2, c = 3}) do keys[#keys + 1] = k .. v end table.sort(keys) return table.concat(keys, ',')", "a1,b2,c3")
    ret("local s = 0 for i, v in ipairs({1, 2, nil, 4}) do s = s + v end return s", 3)
    ret("local t = {a = 1, b = 2, c = 3} for k in pairs(t) do t[k] = nil end return next(t)", None)      # clearing during traversal is allowed
    ret("local t = {} table.insert(t, 'a') table.insert(t, 1, 'b') table.insert(t, 'c') return table.concat(t), table.remove(t), table.remove(t, 1), #t", "bac", "c", "b", 1)
    ret("local t = {3, 1, 2} table.sort(t) return t[1], t[2], t[3]", 1, 2, 3)
    ret("local t = {3, 1, 2} table.sort(t, function(a, b) return a > b end) return t[1], t[2], t[3]", 3, 2, 1)
    ret("return table.unpack({1, 2, 3})", 1, 2, 3)
    ret("return select('#', table.unpack({}, 1, 3))", 3)
    ret("local t = table.pack(1, nil, 3) return t.n", 3)
    ret("local t = {} t.a = {} t.a.b = 5 return t.a.b, t['a']['b']", 5, 5)
    ret("local a, b = 1, 2 a, b = b, a return a, b", 2, 1)
    ret("local t = {1, 2} local i = 1 i, t[i] = i + 1, 20 return i, t[1], t[2]", 2, 20, 2)
    ret("local k = {} local t = {[k] = 'v'} return t[k], t[{}]", "v", None)
    ret("return type(nil), type(1), type('s'), type({}), type(print), type(function() end), type(true)", "nil", "number", "string", "table", "function", "function", "boolean")
    ret("return rawget({5}, 1), rawequal('a', 'a'), rawlen({1, 2})", 5, True, 2)
    # metatables
    ret("local t = setmetatable({}, {__index = function(t, k) return k .. '!' end}) return t.x, rawget(t, 'x')", "x!", None)
    ret("local base = {greet = function(self) return 'hi ' .. self.name end} local o = setmetatable({name = 'bob'}, {__index = base}) return o:greet()", "hi bob")
    ret("local log = {} local t = setmetatable({}, {__newindex = function(t, k, v) rawset(t, k, v * 2) end}) t.a = 1 t.a = 5 return t.a", 5)
    ret("local V = {} V.__index = V V.__add = function(a, b) return setmetatable({x = a.x + b.x}, V) end V.__eq = function(a, b) return a.x == b.x end "
        "V.__tostring = function(v) return 'V(' .. v.x .. ')' end V.__len = function() return 42 end V.__call = function(self, y) return self.x + y end "
        "V.__concat = function(a, b) return 'cat' end V.__lt = function(a, b) return a.x < b.x end V.__le = function(a, b) return a.x <= b.x end V.__unm = function(a) return 'neg' end "
        "local a, b = setmetatable({x = 1}, V), setmetatable({x = 2}, V) "
        "return (a + b).x, a == b, a == setmetatable({x = 1}, V), tostring(a), #a, a(10), a .. 'z', a < b, a >= b, -a",
        3, False, True, "V(1)", 42, 11, "cat", True, False, "neg")
    ret("return getmetatable('x').__index == string", True)


def test_calls_methods_varargs():
    ret("local o = {v = 3} function o:get(a) return self.v + a end return o:get(1), o.get(o, 2), o.get({v = 10}, 0)", 4, 5, 10)
    ret("local o = {f = function(...) return select('#', ...) end} return o:f(1, 2), o.f(1, 2)", 3, 2)
    ret("local function f(...) return ... end return f(1, 2, 3)", 1, 2, 3)
    ret("local function f(...) return ... end return (f(1, 2, 3))", 1)
    ret("local function f(...) return ..., 'x' end return f(1, 2, 3)", 1, "x")
    ret("local function f(...) local a, b = ... return b, a end return f(1, 2, 3)", 2, 1)
    ret("local function f(a, b) return a, b end return f(1), f(1, 2, 3)", 1, 1, 2)
    ret("local function f() end return f(), 1", None, 1)
    ret("local function f() end return select('#', f()), select('#', (f()))", 0, 1)
    ret("local function f() return 1, 2 end local function g(...) return select('#', ...) end return g(f()), g(f(), 10), g((f()))", 2, 2, 1)
    ret("local function f(t) return t.x end return f{x = 5}, #('abc'), ('%d'):format(7), string.len'four'", 5, 3, "7", 4)
    ret("local s = 'hello' return s:sub(2, 3), s:upper(), s:len(), s:rep(2, '-'), s:byte(1), s:reverse(), ('x'):rep(0)", "el", "HELLO", 5, "hello-hello", 104, "olleh", "")
    ret("return select(-1, 'a', 'b', 'c'), select(2, 'a', 'b', 'c')", "c", "b", "c")
    ret("local t = {f = function() return function() return 'deep' end end} return t.f()()", "deep")
    ret("return (function(...) return select('#', ...) end)(nil, nil)", 2)
    ret("return tostring(1), tostring(1.0), tostring(-0.5), tostring(nil), tostring(true), tostring('s'), tonumber('0x10'), tonumber('  12  '), tonumber('1e1'), tonumber('z'), tonumber('10', 2), tonumber(nil)",
        "1", "1.0", "-0.5", "nil", "true", "s", 16, 12, 10.0, None, 2, None)
    eq(out("print(1, 'a', nil, 2.0) print()"), ["1\ta\tnil\t2.0", ""])
    # recursion depth that must work
    ret("local function f(n) if n == 0 then return 0 end return 1 + f(n - 1) end return f(150)", 150)


def test_strings():
    ret(r"return 'a\nb', 'tab\there', 'q\'q', " + r'"d\"d", "\65\066\x43", "\z' + "\n   " + r'x", "\u{48}\u{20AC}", "back\\slash", "\0" == "\x00", #"\0ab"',
        "a\nb", "tab\there", "q'q", 'd"d', "ABC", "x", "H\xe2\x82\xac", "back\\slash", True, 3)
    ret("return [[a\\n]], [[\nfirst newline skipped]], [==[x]]y]==], #[[\n\n]]", "a\\n", "first newline skipped", "x]]y", 1)
    ret("return 'line1\\\nline2'", "line1\nline2")
    ret("return #'h\xc3\xa9llo'", 6)                          # strings are byte strings
    ret("return ('%5d|%-5d|%05.1f|%x|%X|%s|%q|%c|%%|%g|%i'):format(42, 42, 3.14159, 255, 255, 'str', 'q\"', 65, 0.5, 3)",
        "   42|42   |003.1|ff|FF|str|\"q\\\"\"|A|%|0.5|3")
    ret("return ('%s %s %s'):format(nil, true, {} ~= nil), ('%d'):format(3.0), ('%.3f'):format(1)", "nil true true", "3", "1.000")
    has(err("return ('%d'):format(3.5)"), "number has no integer representation")
    ret("return ('hello world'):find('o w'), ('hello'):find('l+'), ('hello'):find('xyz'), ('a.b'):find('.', 1, true), ('hello'):find('l', 4)", 5, 3, None, 2, 4, 4)
    ret("return ('hello'):find('l+')", 3, 4)
    ret("return ('a.b'):find('.', 1, true)", 2, 2)
    ret("return ('key = value'):match('(%w+)%s*=%s*(%w+)'), ('abc123'):match('%d+'), ('abc'):match('^(b)'), ('  trim  '):match('^%s*(.-)%s*$')", "key", "123", None, "trim")
    ret("return ('key = value'):match('(%w+)%s*=%s*(%w+)')", "key", "value")
    ret("return ('abc'):find('(b)(c)'), ('abc'):match('()b()')", 2, 2, 3)
    ret("return ('hello world'):gsub('o', '0'), ('abc'):gsub('%w', '%0%0'), ('hello'):gsub('l', {l = 'L'}), ('abc'):gsub('b', function(c) return c:upper() end), ('aaa'):gsub('a', 'b', 2)",
        "hell0 w0rld", "aabbcc", "heLLo", "aBc", "bba", 2)
    ret("local t = {} for w in ('one two  three'):gmatch('%a+') do t[#t + 1] = w end return table.concat(t, '|')", "one|two|three")
    ret("local t = {} for k, v in ('a=1, b=2'):gmatch('(%w+)=(%w+)') do t[#t + 1] = k .. v end return table.concat(t)", "a1b2")
    ret("return ('x(y(z))w'):match('%b()'), ('THE (quick) fox'):find('%((%a+)%)'), ('[test]'):match('%[(.-)%]'), ('f(a)'):match('^[%a_][%w_]*')", "(y(z))", 5, "test", "f")
    ret("return ('THE (quick) fox'):find('%((%a+)%)')", 5, 11, "quick")
    ret("return ('abc'):byte(1, -1), string.char(72, 105), ('abc'):sub(-2), ('abc'):sub(2, 10), ('abc'):sub(0), ('abc'):sub(3, 2)", 97, "Hi", "bc", "bc", "abc", "")
    ret("return ('abc'):byte(1, -1)", 97, 98, 99)
    ret("return 10 .. 20, 'a' < 'b', 'Z' < 'a', 'abc' < 'abd', '' < 'a', 'a' <= 'a'", "1020", True, True, True, True, True)
    ret("return math.floor(3.7), math.ceil(3.2), math.floor(-3.5), math.max(1, 5, 3), math.min(2, 0.5), math.abs(-4), math.huge > 1e308, math.tointeger(3.0), math.fmod(7, 3), math.sqrt(16)",
        3, 4, -4, 5, 0.5, 4, True, 3, 1, 4.0)
    ret("return bit32.band(0xFF, 0x0F), bit32.bor(1, 2), bit32.bxor(3, 1), bit32.lshift(1, 4), bit32.rshift(256, 4), bit32.bnot(0), bit.band(0xF0, 0x3C), bit.lshift(1, 31)",
        15, 3, 2, 16, 16, 0xFFFFFFFF, 0x30, -(1 << 31))


SCRIPT = r"""
local p = Proto("Demo", "Demo Protocol")
local fields = {
    a = ProtoField.uint32("demo.a", "a", base.DEC),
    -- Unsupported type: match
    s = ProtoField.string("demo.s", "s"),
    d = ProtoField.uint64("demo.d", "d", base.DEC),
    f = ProtoField.float("demo.f", "f"),
}
for _, field in pairs(fields) do
    p.fields[field] = field
end
local function sub(buf, pinfo, tree, offset)
    local st = tree:add(p, buf(offset, 1), "Sub")
    st:add(fields.a, buf(offset, 2))
    return offset + 2
end
function p.dissector(buf, pinfo, tree)
    pinfo.cols.protocol = "demo"
    local offset = 0
    local n = buf(offset, 1):uint()
    tree:add("n: " .. n, buf(offset, 1))
    offset = offset + 1
    for i = 1, n do
        offset = sub(buf, pinfo, tree, offset)
        pinfo.cols.info:append(" [" .. i .. "]")
    end
    local len = buf(offset, 1):uint()
    offset = offset + 1
    tree:add(fields.s, buf(offset, len))
    offset = offset + len
    tree:add_le(fields.d, buf(offset, 8))
    return offset + 8
end
local tcp_table = DissectorTable.get("tcp.port")
tcp_table:add(8080, p)
"""


def test_wireshark():
    ses = W.Session(SCRIPT, "demo.lua")
    eq((ses.ok, ses.log, ses.unsupported), (True, "", None))
    data = bytes([2, 0, 1, 0, 2, 3]) + b"abc" + bytes(range(8))
    r = ses.dissect(data)
    eq(r["ok"], True, r["err"])
    eq(r["ret"], len(data))
    got = [(a["kind"], a["abbr"], a["name"], a["off"], a["len"], a["le"], a["parent"]) for a in r["adds"]]
    eq(got, [("text", "", "n: 2", 0, 1, False, -1), ("proto", "", "Demo", 1, 1, False, -1), ("field", "demo.a", "a", 1, 2, False, 1),
             ("proto", "", "Demo", 3, 1, False, -1), ("field", "demo.a", "a", 3, 2, False, 3), ("field", "demo.s", "s", 6, 3, False, -1),
             ("field", "demo.d", "d", 9, 8, True, -1)])
    eq(r["adds"][1]["text"], "Sub")
    eq(r["cols"], {"protocol": "demo", "info": " [1] [2]"})
    # truncated buffer: error message + the adds recorded before it
    r = ses.dissect(data[:10])
    eq(r["ok"], False)
    eq(r["err"], "demo.lua:32: Range is out of bounds")
    eq(len(r["adds"]), 6)
    r = ses.dissect(b"")
    eq(r["err"], "demo.lua:21: Range is out of bounds")
    # adds of one dissection do not leak into the next
    eq(len(ses.dissect(data)["adds"]), 7)

    def ws(body, data=b"\x01\x02\x03\x04\x05\x06\x07\x08\x09\x0a", strict=False):
        src = "local p = Proto('T', 'T Protocol')\nlocal f = {u = ProtoField.uint32('t.u', 'u'), q = ProtoField.uint64('t.q', 'q'), s = ProtoField.string('t.s', 's'), " \
              "fl = ProtoField.float('t.fl', 'fl'), db = ProtoField.double('t.db', 'db'), c = ProtoField.char('t.c', 'c', base.OCT), by = ProtoField.bytes('t.by', 'by')}\n" \
              "p.fields = f\nfunction p.dissector(buf, pinfo, tree)\n" + body + "\nend\nDissectorTable.get('tcp.port'):add(1, p)"
        s = W.Session(src, "w.lua", strict=strict)
        assert s.ok, s.log
        r = s.dissect(data)
        r["notes"] = s.api_notes()
        return r

    def wv(expr, data=b"\x01\x02\x03\x04\x05\x06\x07\x08\x09\x0a"):
        r = ws("result = " + expr + "\nreturn 0", data)
        assert r["ok"], r["err"]
        return r

    def werr(body, **kw):
        r = ws(body, **kw)
        assert not r["ok"], body
        return r["err"]

    def val(expr, data=b"\x01\x02\x03\x04\x05\x06\x07\x08\x09\x0a"):
        src = "local p = Proto('T', 'T')\nfunction p.dissector(buf, pinfo, tree)\n out = " + expr + "\nend\nDissectorTable.get('tcp.port'):add(1, p)"
        s = W.Session(src, "v.lua")
        r = s.dissect(data)
        assert r["ok"], r["err"]
        return s.interp.getglobal("out")

    eq(val("buf(0, 1):uint()"), 1)
    eq(val("buf(0, 2):uint()"), 0x0102)
    eq(val("buf(0, 3):uint()"), 0x010203)
    eq(val("buf(0, 4):uint()"), 0x01020304)
    eq(val("buf(0, 4):le_uint()"), 0x04030201)
    eq(val("buf(0, 2):le_uint()"), 0x0201)
    eq(val("buf(0, 1):int()", b"\xff"), -1)
    eq(val("buf(0, 2):int()", b"\xff\xfe"), -2)
    eq(val("buf(0, 2):le_int()", b"\xfe\xff"), -2)
    eq(val("buf(0, 4):int()", b"\x80\0\0\0"), -(1 << 31))
    eq(val("buf(0, 3):le_int()", b"\xfd\xff\xff"), -3)
    eq(val("tostring(buf(0, 8):uint64())"), "72623859790382856")
    eq(val("tostring(buf(0, 8):le_uint64())"), str(0x0807060504030201))
    eq(val("tostring(buf(0, 8):int64())", b"\xff" * 8), "-1")
    eq(val("tostring(buf(0, 8):uint64())", b"\xff" * 8), "18446744073709551615")
    eq(val("tostring(buf(0, 8):le_int64())", b"\xfe" + b"\xff" * 7), "-2")
    eq(val("'n=' .. buf(0, 8):uint64()"), "n=72623859790382856")
    eq(val("type(buf(0, 8):uint64())"), "userdata")
    eq(val("buf(0, 8):uint64() == 72623859790382856"), False)          # userdata vs number: never equal in Lua
    eq(val("buf(0, 8):uint64() == UInt64(0x05060708, 0x01020304)"), True)
    eq(val("tostring(buf(0, 8):uint64() + 1)"), "72623859790382857")
    eq(val("buf(0, 8):uint64() > 5"), True)
    eq(val("buf(0, 8):uint64():tonumber()"), 72623859790382856.0)
    eq(val("buf(0, 2):uint64():tonumber()"), 258.0)
    eq(val("buf(0, 4):float()", b"\x3f\xc0\0\0"), 1.5)
    eq(val("buf(0, 4):le_float()", b"\0\0\xc0\x3f"), 1.5)
    eq(val("buf(0, 8):float()", b"\x3f\xf8\0\0\0\0\0\0"), 1.5)
    eq(val("buf(0, 8):le_float()", b"\0\0\0\0\0\0\xf8\x3f"), 1.5)
    eq(val("buf(0, 3):string()", b"abcdef"), "abc")
    eq(val("buf(0, 6):string()", b"ab\0def"), "ab")                    # stops at the first NUL
    eq(val("buf(2):string()", b"abcdef"), "cdef")
    eq(val("buf(0, 0):string()", b"abc"), "")
    eq(val("buf(3, 0):len()", b"abc"), 0)                              # empty range at the very end is fine
    eq(val("buf:len()"), 10)
    eq(val("buf(2, 3):len() * 100 + buf(2, 3):offset()"), 302)
    eq(val("buf():len()"), 10)
    eq(val("buf(4):len()"), 6)
    eq(val("buf(2, 4)(1, 2):offset()"), 3)
    eq(val("buf(2, 4):range(1, 2):uint()"), 0x0405)
    eq(val("tostring(buf(0, 3))"), "010203")
    eq(val("tostring(buf(1, 2):bytes())"), "0203")
    eq(val("buf(1, 2):bytes():len()"), 2)
    eq(val("buf:range(1, 2):uint()"), 0x0203)
    eq(val("buf(0, 1):bitfield(7, 1)"), 1)
    eq(val("buf(0, 2.0):uint()"), 0x0102)                               # floats with integer value are accepted
    eq(val("buf(0, '2'):uint()"), 0x0102)
    has(werr("buf(9, 2)"), "w.lua:5: Range is out of bounds")
    has(werr("buf(11, 0)"), "Range is out of bounds")
    has(werr("buf(0, 11)"), "Range is out of bounds")
    has(werr("buf(0, -2)"), "negative length in tvb range")
    has(werr("buf(11)"), "out of bounds")
    has(werr("buf(0, 1.5)"), "number has no integer representation")
    has(werr("buf(0, {})"), "bad argument #2 to 'Tvb' (number expected, got table)")
    has(werr("local n = buf(0, 8):uint64() buf(8, n)"), "bad argument #2 to 'Tvb' (number expected, got userdata)")
    has(werr("local n = buf(0, 8):uint64() for i = 1, n do end"), "'for' limit must be a number")
    has(werr("buf(0, 5):uint()"), "TvbRange:uint() does not handle 5 byte integers")
    has(werr("buf(0, 0):uint()"), "TvbRange:uint() does not handle 0 byte integers")
    has(werr("buf(0, 8):le_uint()"), "TvbRange:le_uint() does not handle 8 byte integers")
    has(werr("buf(0, 8):int()"), "TvbRange:int() does not handle 8 byte integers")
    has(werr("buf(0, 9):uint64()"), "TvbRange:uint64() does not handle 9 byte integers")
    has(werr("buf(0, 9):le_int64()"), "TvbRange:le_int64() does not handle 9 byte integers")
    has(werr("buf(0, 2):float()"), "TvbRange:float() does not handle 2 byte floating numbers")
    has(werr("buf(0, 2):nosuch()"), "attempt to call a nil value (method 'nosuch')")
    has(werr("tree:add(f.u, buf(0, 8))"), "Trying to fetch an unsigned integer with length 8")
    has(werr("tree:add(f.fl, buf(0, 8))"), "Trying to fetch a float with length 8")
    has(werr("tree:add(f.db, buf(0, 4))"), "Trying to fetch a double with length 4")
    has(werr("tree:nosuch(f.u, buf(0, 1))"), "No such 'nosuch' method/field for object type 'TreeItem'")
    has(werr("local t = nil t:add(f.u, buf(0, 1))"), "attempt to index a nil value (local 't')")
    has(werr("subtree:add(f.u, buf(0, 1))"), "attempt to index a nil value (global 'subtree')")
    has(werr("pinfo.cols.info:set(nil)"), "bad argument #1 to 'set' (string expected, got no value)")
    has(werr("p.nosuch = 1"), "No such 'nosuch' setter attribute/field for object type 'Proto'")
    # tree:add forms
    r = ws("local st = tree:add(p, buf(0, 4), 'Hdr') st:add(f.u, buf(0, 4)):append_text(' x') st:add_le(f.q, buf(2, 8)) st:add(f.s, buf(1, 2), 'val', 'more') "
           "tree:add(buf(0, 2), 'label') tree:add('label first', buf(3, 1)) tree:add(f.u, 7) tree:add(f.nosuch, buf(0, 1)) tree:add(f.by, buf()) "
           "st:set_text('t') st:add_expert_info(1, 2, 'x') tree:add(f.c, buf(0, 1)) tree:add(f.s, buf(10, 0))")
    eq(r["ok"], True, r["err"])
    got = [(a["kind"], a["abbr"], a["off"], a["len"], a["le"], a["parent"]) for a in r["adds"]]
    eq(got, [("proto", "", 0, 4, False, -1), ("field", "t.u", 0, 4, False, 0), ("field", "t.q", 2, 8, True, 0), ("field", "t.s", 1, 2, False, 0),
             ("text", "", 0, 2, False, -1), ("text", "", 3, 1, False, -1), ("field", "t.u", 0, 0, False, -1), ("nil", "", 0, 1, False, -1),
             ("field", "t.by", 0, 10, False, -1), ("field", "t.c", 0, 1, False, -1), ("field", "t.s", 10, 0, False, -1)])
    eq([a["name"] for a in r["adds"][4:6]], ["label", "label first"])
    eq(r["adds"][3]["text"], "more")
    # non-standard API names: lenient by default (noted), errors in strict mode
    r = ws("tree:le_add(f.u, buf(0, 2))")
    eq((r["ok"], r["adds"][0]["le"], len(r["notes"])), (True, True, 1))
    has(r["notes"][0], "le_add")
    has(werr("tree:le_add(f.u, buf(0, 2))", strict=True), "No such 'le_add' method/field for object type 'TreeItem'")
    s = W.Session("local p = Proto('I', 'I') local f = ProtoField.int('i.x', 'x', base.DEC) function p.dissector() end DissectorTable.get('tcp.port'):add(1, p)", "i.lua")
    eq((s.ok, len(s.api_notes())), (True, 1))
    s = W.Session("local p = Proto('I', 'I')\nlocal f = ProtoField.int('i.x', 'x', base.DEC)", "i.lua", strict=True)
    eq((s.ok, s.log), (False, "error loading script: i.lua:2: attempt to call a nil value (field 'int')"))
    # load-time failures
    s = W.Session("local p = Proto('A', 'A')\nlocal t = DissectorTable.get('tcp.port')\nt:add(1, p)", "x.lua")
    eq(s.ok, False)
    has(s.log, "x.lua:3: bad argument #2 to 'add' (a Protocol that does not have a dissector cannot be added to a table)")
    s = W.Session("local p = Proto('A', 'A')\np.dissector = 5", "x.lua")
    has(s.log, "The dissector of a protocol must be a function")
    s = W.Session("local p = Proto('A', 'A'\n", "x.lua")
    eq(s.ok, False)
    has(s.log, "syntax error: x.lua:2: ')' expected (to close '(' at line 1) near '<eof>'")
    s = W.Session("local p = Proto('A', 'A') function p.dissector() end goto x", "x.lua")
    eq((s.ok, s.unsupported is not None), (True, True))
    s = W.Session("local x = 1", "x.lua")
    eq((s.ok, s.log), (False, "the script registered no protocol with a dissector"))
    s = W.Session("local p = Proto('A', 'A') local q = Proto('a', 'B')", "x.lua")
    has(s.log, "there cannot be two protocols with the same name")
    s = W.Session("local f = ProtoField.uint8('bad abbrev', 'x')", "x.lua")
    has(s.log, "Invalid char in abbrev")
    # runaway dissector is stopped
    s = W.Session("local p = Proto('A', 'A') function p.dissector(buf, pinfo, tree) while true do tree:add('x', buf(0, 0)) end end DissectorTable.get('tcp.port'):add(1, p)", "x.lua", max_steps=20000)
    r = s.dissect(b"abc")
    eq(r["ok"], False)
    has(r["err"], "step limit")


def test_speed():
    src = "local p = Proto('S', 'S')\nlocal f = {e = ProtoField.uint32('s.e', 'e', base.DEC)}\np.fields = f\n" \
          "function p.dissector(buf, pinfo, tree)\n local offset = 0\n local n = buf(offset, 2):uint()\n tree:add('n: ' .. n, buf(offset, 2))\n offset = offset + 2\n" \
          " for i = 1, n do\n  tree:add(f.e, buf(offset, 4))\n  offset = offset + 4\n  pinfo.cols.info:append(' e[' .. i .. ']')\n end\nend\nDissectorTable.get('tcp.port'):add(1, p)"
    t0 = time.time()
    s = W.Session(src, "s.lua")
    t_load = time.time() - t0
    n = 300
    data = n.to_bytes(2, "big") + bytes(4 * n)
    t0 = time.time()
    r = s.dissect(data)
    dt = time.time() - t0
    eq((r["ok"], len(r["adds"])), (True, n + 1))
    assert dt < 0.25, "300-element list took %.3f s" % dt
    n = 20000
    data = n.to_bytes(2, "big") + bytes(4 * n)
    t0 = time.time()
    r = s.dissect(data)
    dt2 = time.time() - t0
    eq((r["ok"], len(r["adds"])), (True, n + 1))
    t0 = time.time()
    run("local s = 0 for i = 1, 300000 do s = s + i % 7 end return s")
    dt3 = time.time() - t0
    t0 = time.time()
    run("local function fib(n) if n < 2 then return n end return fib(n - 1) + fib(n - 2) end return fib(20)")
    dt4 = time.time() - t0
    print("speed: load %.1f ms; 300-element list %.1f ms; 20000-element list %.0f ms (%.1f us/element); "
          "300k-iteration arithmetic loop %.0f ms; fib(20) = 21891 calls %.0f ms" % (t_load * 1e3, dt * 1e3, dt2 * 1e3, dt2 / n * 1e6, dt3 * 1e3, dt4 * 1e3))


def main():
    tests = [test_scoping, test_operators, test_errors, test_syntax, test_numeric_for, test_tables, test_calls_methods_varargs, test_strings,
             test_wireshark, test_speed]
    want = set(sys.argv[1:])
    failed = 0
    for t in tests:
        if want and t.__name__ not in want:
            continue
        n0 = N[0]
        try:
            t()
            print("ok    %-28s %d checks" % (t.__name__, N[0] - n0))
        except AssertionError as e:
            failed += 1
            print("FAIL  %-28s after %d checks: %s" % (t.__name__, N[0] - n0, e))
        except (L.LuaError, L.Unsupported) as e:
            failed += 1
            print("FAIL  %-28s after %d checks: unexpected %s: %s" % (t.__name__, N[0] - n0, type(e).__name__, e))
    print("%d checks, %d failed test groups" % (N[0], failed))
    return 1 if failed else 0


if __name__ == "__main__":
    sys.exit(main())
