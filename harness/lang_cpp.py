"""C++ language plug-in (harness/PROTOCOL.md section 5).

The emitted header(s) are compiled against the reference runtime in /verif/runtimes/cpp.  C++ has no
reflection, so the driver is GENERATED per program: the emitted `struct X : public codec::BinaryCodec {`
declarations are parsed for their data members (C++ type and name, declaration order); emitted types are
paired with DSL packets by normalised name and members with declared fields POSITIONALLY (the emitter's
case conversions are never re-implemented).  The generated code only calls the conversion templates of
runtimes/cpp/driver/drv.hpp, which look at the member's native type via decltype.

One translation unit per program (precompiled runtime header, -O0): driver.cpp includes the emitted
header(s), so a successful driver build also is the C07 build check; only when it fails the header(s) are
compiled alone to tell an emitter defect from a driver problem."""
import fcntl
import json
import os
import re
import shutil
import signal

import dsl
from common import RUNTIMES, WORK, run, sha, write
from langs import Lang, parse_events, runtime_hash

RT = os.path.join(RUNTIMES, "cpp")
CXX = "g++"
CXXFLAGS = ["-std=c++17", "-O0", "-w", "-pipe", "-fno-diagnostics-color", "-fmax-errors=15"]
PCH_NAME = "verif_pch.hpp"
PCH_TEXT = """// precompiled: standard headers the emitted code includes + reference runtime + driver support + gtest stand-in
#include <cstdint>
#include <functional>
#include <iomanip>
#include <iostream>
#include <map>
#include <memory>
#include <sstream>
#include <string>
#include <typeinfo>
#include <unordered_map>
#include <vector>
#include "%(rt)s/include/bytebuf.hpp"
#include "%(rt)s/include/codec.hpp"
#include "%(rt)s/include/checksum.hpp"
#include "%(rt)s/include/message_factory.hpp"
#include "%(rt)s/driver/drv.hpp"
#include "%(rt)s/gtest/gtest.h"
"""


with open(__file__.replace(".pyc", ".py"), "rb") as _fh:
    _SELF_HASH = sha(_fh.read())


def normname(s):
    return s.replace("_", "").lower()


def cstr(s):
    """Python str -> C++ string literal (ASCII, everything else escaped)."""
    out = []
    for b in s.encode("utf-8"):
        c = chr(b)
        if c == '"' or c == "\\":
            out.append("\\" + c)
        elif 32 <= b < 127 and c != "?":
            out.append(c)
        else:
            out.append("\\%03o" % b)
    return '"' + "".join(out) + '"'


# --------------------------------------------------------------------------------------------------
# emitted struct declarations

def _blank_literals(text):
    """Replace comments, string and character literals by blanks of the same length (so that braces,
    semicolons and parentheses inside them do not disturb the structural scan)."""
    out = []
    i, n = 0, len(text)
    while i < n:
        c = text[i]
        if text.startswith("//", i):
            j = text.find("\n", i)
            j = n if j < 0 else j
            out.append(" " * (j - i))
            i = j
        elif text.startswith("/*", i):
            j = text.find("*/", i + 2)
            j = n if j < 0 else j + 2
            out.append(re.sub(r"[^\n]", " ", text[i:j]))
            i = j
        elif c == '"' or (c == "'" and not (i > 0 and text[i - 1].isdigit() and i + 1 < n and text[i + 1].isalnum())):  # 1'000 is no literal
            q = c
            j = i + 1
            while j < n and text[j] != q:
                if text[j] == "\\":
                    j += 1
                if j < n and text[j] == "\n" and q == "'":
                    break
                j += 1
            j = min(n, j + 1)
            out.append(q + re.sub(r"[^\n]", " ", text[i + 1:j - 1]) + q if j - i >= 2 else text[i:j])
            i = j
        else:
            out.append(c)
            i += 1
    return "".join(out)


_STRUCT_RE = re.compile(r"\b(?:struct|class)\s+([A-Za-z_]\w*)\s*(?:final\s*)?:\s*(?:public\s+)?(?:virtual\s+)?(?:::)?\s*codec\s*::\s*BinaryCodec\s*\{")
_SKIP_STMT = re.compile(r"^(?:using|typedef|friend|static|constexpr|template|struct|class|enum|union|static_assert|inline|virtual|explicit|operator)\b")
_ACCESS = re.compile(r"^(?:public|private|protected)\s*:(?!:)\s*")


def _split_top(s, sep=","):
    parts, depth, cur = [], 0, []
    for ch in s:
        if ch in "<([{":
            depth += 1
        elif ch in ">)]}":
            depth -= 1
        if ch == sep and depth == 0:
            parts.append("".join(cur))
            cur = []
        else:
            cur.append(ch)
    parts.append("".join(cur))
    return parts


def _members_of_statement(stmt):
    """`TYPE name [= init | {init}] [, name2 ..]` -> [(type, name)..]; anything else -> []."""
    s = " ".join(stmt.split())
    while True:
        m = _ACCESS.match(s)
        if not m:
            break
        s = s[m.end():]
    if not s or "(" in s or _SKIP_STMT.match(s):
        return []
    decls = _split_top(s)
    first = re.sub(r"\s*(=.*|\{.*\})\s*$", "", decls[0]).strip()
    m = re.match(r"^(.*?)([A-Za-z_]\w*)\s*((?:\[[^\]]*\])*)$", first)
    if not m:
        return []
    ctype, name, arr = m.group(1).strip(), m.group(2), m.group(3)
    if ctype.endswith(("::", "<", ",")):
        return []
    out = [(ctype + arr, name)]
    for d in decls[1:]:
        d = re.sub(r"\s*(=.*|\{.*\})\s*$", "", d).strip()
        m2 = re.match(r"^([*&\s]*)([A-Za-z_]\w*)$", d)
        if m2:
            out.append((ctype + m2.group(1).strip(), m2.group(2)))
    return out


def parse_structs(text):
    """-> [(struct name, [(member C++ type, member name)..])..] in order of appearance."""
    t = _blank_literals(text)
    out = []
    for m in _STRUCT_RE.finditer(t):
        i = m.end()
        depth = 1
        stmt = []
        members = []
        n = len(t)
        while i < n and depth > 0:
            c = t[i]
            if c == "{":
                head = "".join(stmt)
                # skip the whole brace group (function body, nested type, brace initialiser)
                d2 = 1
                j = i + 1
                while j < n and d2 > 0:
                    if t[j] == "{":
                        d2 += 1
                    elif t[j] == "}":
                        d2 -= 1
                    j += 1
                i = j
                hs = " ".join(head.split())
                if "(" in hs or _SKIP_STMT.match(_ACCESS.sub("", hs)) or not hs:
                    # function definition / nested type: the statement ends here (a following ';' is harmless)
                    stmt = []
                else:
                    stmt.append("{}")  # brace initialiser of a data member
                continue
            if c == "}":
                depth -= 1
                i += 1
                continue
            if c == ";":
                members += _members_of_statement("".join(stmt))
                stmt = []
                i += 1
                continue
            stmt.append(c)
            i += 1
        out.append((m.group(1), members))
    return out


def _ctype_norm(t):
    t = re.sub(r"\s+", " ", t).strip()
    t = re.sub(r"^(?:struct|class) ", "", t)
    t = t.replace(" ", "")
    return t[2:] if t.startswith("::") else t


def _vector_elem(t):
    m = re.match(r"^(?:std::)?vector<(.*)>$", _ctype_norm(t))
    return m.group(1) if m else None


def _is_pointerish(t):
    t = _ctype_norm(t)
    return bool(re.match(r"^(?:std::)?(?:unique_ptr|shared_ptr)<.*>$", t)) or t.endswith("*")


# --------------------------------------------------------------------------------------------------
# driver generator

class DriverGen:
    def __init__(self, prog, structs):
        self.prog = prog
        self.structs = {}
        for name, members in structs:
            self.structs.setdefault(normname(name), (name, members))
        self.sites = {}        # key -> index
        self.decls = []
        self.defs = []
        self.notes = []        # mismatches found while generating (for the log)

    def struct_for(self, dslname):
        return self.structs.get(normname(dslname))

    # one (emitted struct, declared field list) pair -> vb_k / vr_k
    def site(self, key, dslname, fields):
        if key in self.sites:
            return self.sites[key]
        st = self.struct_for(dslname)
        if st is None:
            self.sites[key] = None
            self.notes.append("no emitted type for %s" % dslname)
            return None
        k = len([v for v in self.sites.values() if v is not None])
        self.sites[key] = k
        sname, members = st
        self.decls.append("static void vb_%d(%s& o, const drv::J& fs);" % (k, sname))
        self.decls.append("static drv::J vr_%d(const %s& o);" % (k, sname))
        b, r = [], []
        if len(members) != len(fields):
            msg = "struct %s has %d data members for %d declared fields of %s" % (sname, len(members), len(fields), dslname)
            self.notes.append(msg)
            b.append("    throw drv::MemberMismatch(%s);" % cstr(msg))
            r.append("    throw drv::MemberMismatch(%s);" % cstr(msg))
        else:
            b.append("    drv::check_count(%s, %d, fs);" % (cstr(sname), len(fields)))
            r.append("    drv::J out = drv::J::arr();")
            for i, ((ctype, mname), f0) in enumerate(zip(members, fields)):
                f = dsl.res(self.prog, f0)
                b.append("    // %d: %s %s%s -> %s %s" % (i, f["k"], "repeat " if f["rep"] else "", f["name"], _ctype_norm(ctype), mname))
                b.append("    " + self.put_field(f, ctype, "o." + mname, "fs.at(%d)" % i, key + (i,)))
                r.append("    out.push(%s);" % self.get_field(f, ctype, "o." + mname, key + (i,)))
            r.append("    return out;")
        self.defs.append("static void vb_%d(%s& o, const drv::J& fs) {\n%s\n}" % (k, sname, "\n".join(b)))
        self.defs.append("static drv::J vr_%d(const %s& o) {\n%s\n}" % (k, sname, "\n".join(r)))
        return k

    def pkt_site(self, name):
        return self.site(("pkt", name), name, dsl.pkt(self.prog, name)["fields"])

    # ---- value tree -> native -----------------------------------------------------------------
    def put_field(self, f, ctype, lhs, v, key):
        if not f["rep"]:
            return self.put_elem(f, ctype, lhs, v, key)
        et = _vector_elem(ctype)
        if et is None and f["k"] in ("obj", "inl", "match"):
            return self._mm("member %s has type %s for a repeated field" % (lhs, _ctype_norm(ctype)))
        body = self.put_elem(f, et if et is not None else ctype, "e", "x", key)
        return "drv::put_list(%s, %s, [&](auto& e, const drv::J& x) { %s });" % (lhs, v, body)

    def _mm(self, msg, expr=False):
        self.notes.append(msg)
        if expr:
            return "(throw drv::MemberMismatch(%s), drv::J())" % cstr(msg)
        return "throw drv::MemberMismatch(%s);" % cstr(msg)

    def _obj_target(self, f, ctype, key):
        """-> (site index, None) or (None, message)"""
        if f["k"] == "obj":
            dslname, fields, skey = f["ty"], dsl.pkt(self.prog, f["ty"])["fields"], ("pkt", f["ty"])
        else:
            dslname, fields, skey = f["name"], f["fs"], ("inl",) + key
        st = self.struct_for(dslname)
        if st is None:
            return None, "no emitted type for %s" % dslname
        if _ctype_norm(ctype) != st[0]:
            return None, "member of type %s where emitted type %s (for %s) is expected" % (_ctype_norm(ctype), st[0], dslname)
        k = self.site(skey, dslname, fields)
        return k, None

    def put_elem(self, f, ctype, lhs, v, key):
        k = f["k"]
        if k in ("int", "len", "ck"):
            return "drv::put_int<%d, %s>(%s, %s);" % (dsl.WIDTH[f["ty"]], "true" if f["ty"].startswith("i") else "false", lhs, v)
        if k == "float":
            return "drv::put_float<%d>(%s, %s);" % (dsl.WIDTH[f["ty"]], lhs, v)
        if k == "char":
            return "drv::put_char(%s, %s);" % (lhs, v)
        if k in ("fix", "dyn"):
            return "drv::put_str(%s, %s);" % (lhs, v)
        if k in ("obj", "inl"):
            s, err = self._obj_target(f, ctype, key)
            if s is None:
                return self._mm("%s: %s" % (lhs, err))
            return "if (!drv::is_null_tree(%s)) vb_%d(%s, %s[\"fs\"]);" % (v, s, lhs, v)
        if k == "match":
            if not _is_pointerish(ctype):
                return self._mm("%s: member of type %s for a match field" % (lhs, _ctype_norm(ctype)))
            alts = []
            for p in self.prog["pkts"]:
                st = self.struct_for(p["name"])
                if st is None:
                    continue
                s = self.pkt_site(p["name"])
                alts.append("else if (pk == %s) { auto p = std::make_unique<%s>(); vb_%d(*p, %s[\"fs\"]); drv::assign_ptr(%s, std::move(p)); }"
                            % (cstr(p["name"]), st[0], s, v, lhs))
            return ("{ const std::string pk = %s[\"pkt\"].str(); if (drv::is_null_tree(%s)) {} %s "
                    "else throw drv::MemberMismatch(\"no emitted type for packet \" + pk); }" % (v, v, " ".join(alts)))
        raise ValueError("field kind %r" % k)

    # ---- native -> value tree -----------------------------------------------------------------
    def get_field(self, f, ctype, x, key):
        if not f["rep"]:
            return self.get_elem(f, ctype, x, key)
        et = _vector_elem(ctype)
        if et is None and f["k"] in ("obj", "inl", "match"):
            return self._mm("member %s has type %s for a repeated field" % (x, _ctype_norm(ctype)), expr=True)
        body = self.get_elem(f, et if et is not None else ctype, "e", key)
        return "drv::get_list(%s, [&](const auto& e) -> drv::J { return %s; })" % (x, body)

    def get_elem(self, f, ctype, x, key):
        k = f["k"]
        if k in ("int", "len", "ck"):
            return "drv::get_int<%d, %s>(%s)" % (dsl.WIDTH[f["ty"]], "true" if f["ty"].startswith("i") else "false", x)
        if k == "float":
            return "drv::get_float<%d>(%s)" % (dsl.WIDTH[f["ty"]], x)
        if k == "char":
            return "drv::get_char(%s)" % x
        if k in ("fix", "dyn"):
            return "drv::get_str(%s)" % x
        if k in ("obj", "inl"):
            s, err = self._obj_target(f, ctype, key)
            if s is None:
                return self._mm("%s: %s" % (x, err), expr=True)
            return "drv::to(vr_%d(%s))" % (s, x)
        if k == "match":
            if not _is_pointerish(ctype):
                return self._mm("%s: member of type %s for a match field" % (x, _ctype_norm(ctype)), expr=True)
            alts = []
            for p in self.prog["pkts"]:
                st = self.struct_for(p["name"])
                if st is None:
                    continue
                s = self.pkt_site(p["name"])
                alts.append("if (auto* d = dynamic_cast<const %s*>(q)) return drv::tm(%s, vr_%d(*d));" % (st[0], cstr(p["name"]), s))
            return ("[&]() -> drv::J { const auto* q = drv::raw(%s); if (!q) return drv::tn(); %s "
                    "return drv::tx(drv::demangle(typeid(*q).name()), \"dynamic type is not an emitted packet type\"); }()" % (x, " ".join(alts)))
        raise ValueError("field kind %r" % k)

    def source(self, headers, op_pkts):
        table = []
        for name in op_pkts:
            try:
                dsl.pkt(self.prog, name)
            except KeyError:
                continue
            s = self.pkt_site(name)
            if s is not None:
                table.append("    table.push_back(drv::make_ops<%s, &vb_%d, &vr_%d>(%s));" % (self.struct_for(name)[0], s, s, cstr(name)))
        lines = ["// GENERATED by harness/lang_cpp.py for program %s -- do not edit" % self.prog.get("id", "?")]
        lines += ["// (compiled with -include %s: reference runtime + drv.hpp)" % PCH_NAME]
        lines += ['#include "%s"' % h for h in headers]
        lines += ["", "namespace {"] + self.decls + [""] + self.defs + ["}  // namespace", ""]
        lines += ["int main(int argc, char** argv) {", "    std::vector<drv::Ops> table;"] + table
        lines += ["    return drv::run(argc, argv, table);", "}", ""]
        return "\n".join(lines)


# --------------------------------------------------------------------------------------------------

def _sig(rc):
    if rc is not None and rc < 0:
        try:
            return "signal %d (%s)" % (-rc, signal.Signals(-rc).name)
        except ValueError:
            return "signal %d" % -rc
    return "exit code %s" % rc


def _errors(log, limit=1500):
    """Compiler output reduced to its error lines (+ a little context)."""
    lines = log.splitlines()
    keep = [l for l in lines if re.search(r"\b(error|fatal error)\b", l) or "undefined reference" in l]
    text = "\n".join(keep) if keep else log
    return text[:limit]


class Cpp(Lang):
    name = "cpp"
    _tc = None
    run_timeout = 120      # seconds per driver / test process (a hang counts as a crash of the running op)

    def key(self, outdir, case, what):
        # the driver generator lives in this file, not under runtimes/cpp: make it part of the memo key
        return sha(Lang.key(self, outdir, case, what) + "|" + _SELF_HASH)

    def toolchain(self):
        if Cpp._tc is None:
            r = run([CXX, "--version"], timeout=60)
            first = (r.stdout or r.stderr or "").strip().splitlines()
            Cpp._tc = (first[0] if first else "g++ ?") + " " + " ".join(CXXFLAGS)
        return Cpp._tc

    # ---- shared pre-built artefacts -----------------------------------------------------------
    def rtdir(self):
        return os.path.join(WORK, "rt", "cpp", sha(runtime_hash("cpp") + "|" + self.toolchain() + "|" + PCH_TEXT % {"rt": RT})[:16])

    def setup(self):
        d = self.rtdir()
        done = os.path.join(d, "ready")
        if os.path.exists(done):
            return d
        parent = os.path.dirname(d)
        os.makedirs(parent, exist_ok=True)
        with open(os.path.join(parent, "setup.lock"), "w") as lf:
            fcntl.flock(lf, fcntl.LOCK_EX)
            if os.path.exists(done):
                return d
            tmp = d + ".tmp%d" % os.getpid()
            shutil.rmtree(tmp, ignore_errors=True)
            os.makedirs(tmp)
            log = ""
            write(os.path.join(tmp, PCH_NAME), PCH_TEXT % {"rt": RT})
            r = run([CXX] + CXXFLAGS + ["-I", RT, "-I", os.path.join(RT, "include"), "-x", "c++-header",
                                        os.path.join(tmp, PCH_NAME), "-o", os.path.join(tmp, PCH_NAME + ".gch")], timeout=600)
            log += r.stdout + r.stderr
            ok = r.returncode == 0
            if ok:
                r = run([CXX] + CXXFLAGS + ["-I", RT, "-c", os.path.join(RT, "gtest", "gtest_main.cpp"), "-o", os.path.join(tmp, "gtest_main.o")], timeout=600)
                log += r.stdout + r.stderr
                ok = r.returncode == 0
            if ok:
                r = run([CXX] + CXXFLAGS + ["-I", RT, "-c", os.path.join(RT, "driver", "drv_impl.cpp"), "-o", os.path.join(tmp, "drv_impl.o")], timeout=600)
                log += r.stdout + r.stderr
                ok = r.returncode == 0
            if not ok:
                shutil.rmtree(tmp, ignore_errors=True)
                from common import Infra
                raise Infra("C++ reference runtime does not build:\n" + log[-3000:])
            write(os.path.join(tmp, "ready"), "ok\n")
            shutil.rmtree(d, ignore_errors=True)
            os.replace(tmp, d)
            # the .gch is ~55 MB: keep only the most recent other build
            try:
                olds = sorted((os.path.getmtime(os.path.join(parent, x)), x) for x in os.listdir(parent)
                              if os.path.isdir(os.path.join(parent, x)) and x != os.path.basename(d))
                for _, x in olds[:-1]:
                    shutil.rmtree(os.path.join(parent, x), ignore_errors=True)
            except OSError:
                pass
        return d

    def _cc(self, outdir, extra, timeout=300, cwd=None):
        rt = self.setup()
        cmd = [CXX] + CXXFLAGS + ["-I", rt, "-include", PCH_NAME, "-I", outdir, "-I", RT, "-I", os.path.join(RT, "include")] + extra
        return run(cmd, timeout=timeout, cwd=cwd)

    @staticmethod
    def _headers(outdir):
        inc = os.path.join(outdir, "include")
        if not os.path.isdir(inc):
            return []
        return ["include/" + f for f in sorted(os.listdir(inc)) if f.endswith((".hpp", ".h", ".hh"))]

    def _header_check(self, outdir, headers, scratch):
        """C07: the emitted non-test code + runtime alone."""
        tu = os.path.join(scratch, "cpp_headers_tu.cpp")
        write(tu, "".join('#include "%s"\n' % h for h in headers))
        r = self._cc(outdir, ["-fsyntax-only", tu])
        return r.returncode == 0 and not r.timed_out, (r.stdout + r.stderr)

    # ---- session ------------------------------------------------------------------------------
    def _session(self, outdir, case, scratch):
        os.makedirs(scratch, exist_ok=True)
        headers = self._headers(outdir) if os.path.isdir(outdir) else []
        if not headers:
            return {"build": {"ok": False, "log": "no include/*.hpp emitted"}, "events": [], "crash": None}
        prog, ops = case["prog"], case["ops"]
        structs = []
        for h in headers:
            with open(os.path.join(outdir, h), "rb") as fh:
                structs += parse_structs(fh.read().decode("utf-8", "replace"))
        gen = DriverGen(prog, structs)
        pkts = []
        for op in ops:
            if op["pkt"] not in pkts:
                pkts.append(op["pkt"])
        try:
            src = gen.source(headers, pkts)
        except (KeyError, ValueError, IndexError, TypeError) as e:   # a program the generator cannot map: ours, not the emitter's
            hok, hlog = self._header_check(outdir, headers, scratch)
            return {"build": {"ok": hok, "log": "" if hok else _errors(hlog)}, "events": [],
                    "crash": "driver generator failed: %s: %s" % (type(e).__name__, e)}
        drv_cpp = os.path.join(scratch, "cpp_driver.cpp")
        exe = os.path.join(scratch, "cpp_driver")
        write(drv_cpp, src)
        r = self._cc(outdir, [drv_cpp, os.path.join(self.setup(), "drv_impl.o"), "-o", exe])
        notes = "".join("note: %s\n" % n for n in dict.fromkeys(gen.notes))
        if r.returncode != 0 or r.timed_out:
            hok, hlog = self._header_check(outdir, headers, scratch)
            if not hok:
                return {"build": {"ok": False, "log": _errors(hlog)}, "events": [], "crash": None}
            # emitted code is fine, the generated driver is not: ours to fix, never a verdict about the emitter
            return {"build": {"ok": True, "log": notes}, "events": [],
                    "crash": "generated driver does not compile: " + _errors(r.stdout + r.stderr, 1200)}
        opsfile = os.path.join(scratch, "cpp_ops.json")
        write(opsfile, json.dumps({"ops": ops}))
        events, crash = self._drive(exe, opsfile, ops, scratch)
        return {"build": {"ok": True, "log": notes}, "events": events, "crash": crash}

    def _drive(self, exe, opsfile, ops, scratch):
        events = []
        crash = None
        skip = 0
        while skip < len(ops):
            r = run([exe, opsfile, "--skip", str(skip)], cwd=scratch, timeout=self.run_timeout)
            evs = parse_events(r.stdout)[:len(ops) - skip]
            events += evs
            done = skip + len(evs)
            clean = r.returncode == 0 and not r.timed_out
            if done >= len(ops):
                if not clean and crash is None:
                    crash = "driver %s after the last op: %s" % ("timed out" if r.timed_out else _sig(r.returncode), r.stderr[-300:])
                break
            if r.returncode in (2, 3) and not evs and re.search(r"^(driver|usage):", r.stderr, re.M):
                crash = crash or "driver could not start at op %d (%s): %s" % (done, _sig(r.returncode), r.stderr[-300:])
                break
            op = ops[done]
            why = "timeout" if r.timed_out else _sig(r.returncode)
            ev = {"ev": op["op"], "id": op["id"], "ok": False, "cls": "crash", "err": "driver process died (%s) %s" % (why, r.stderr[-200:].strip())}
            if op["op"] == "encinto":
                ev["pre"] = len(op.get("pre", []))
                ev["rd"] = int(op.get("rd", 0))
            elif op["op"] != "enc":
                ev["tail"] = len(op.get("tail", []))
            events.append(ev)
            if crash is None:
                crash = "op %d (%s %s): %s" % (done, op["op"], op["id"], why)
            skip = done + 1
        return events, crash

    # ---- emitted self-tests -------------------------------------------------------------------
    def _selftest(self, outdir, scratch):
        os.makedirs(scratch, exist_ok=True)
        tdir = os.path.join(outdir, "test")
        tests = [f for f in sorted(os.listdir(tdir)) if re.search(r"_test\.(cpp|cc|cxx)$", f)] if os.path.isdir(tdir) else []
        if not tests:
            return {"build_ok": False, "ran": 0, "passed": 0, "failed": 0, "log": "no test/*_test.cpp emitted"}
        rt = self.setup()
        ran = passed = failed = 0
        build_ok = True
        log = ""
        for i, t in enumerate(tests):
            exe = os.path.join(scratch, "cpp_selftest_%d" % i)
            r = self._cc(outdir, [os.path.join(tdir, t), os.path.join(rt, "gtest_main.o"), "-o", exe])
            if r.returncode != 0 or r.timed_out:
                build_ok = False
                log += "%s: %s\n" % (t, _errors(r.stdout + r.stderr, 1000))
                continue
            skip = 0
            total = None
            while True:
                r = run([exe, "--skip", str(skip)], cwd=scratch, timeout=self.run_timeout)
                out = r.stdout
                m = re.search(r"VERIF_GTEST total=(\d+) ran=(\d+) passed=(\d+) failed=(\d+)", out)
                if m:
                    total = int(m.group(1))
                    ran += int(m.group(2))
                    passed += int(m.group(3))
                    failed += int(m.group(4))
                    if int(m.group(4)):
                        log += out[-800:]
                    break
                # the process died inside a test: count what finished, blame the running one, go on behind it
                started = len(re.findall(r"^\[ RUN      \]", out, re.M))
                ok = len(re.findall(r"^\[       OK \]", out, re.M))
                bad = len(re.findall(r"^\[  FAILED  \]", out, re.M))
                if started == 0:
                    failed += 1
                    ran += 1
                    log += "%s: test binary died before the first test (%s) %s\n" % (t, "timeout" if r.timed_out else _sig(r.returncode), r.stderr[-300:])
                    break
                ran += started
                passed += ok
                failed += bad + (started - ok - bad)
                log += "%s: test #%d died (%s)\n%s\n" % (t, skip + started - 1, "timeout" if r.timed_out else _sig(r.returncode), out[-400:])
                skip += started
        return {"build_ok": build_ok, "ran": ran, "passed": passed, "failed": failed, "log": log[-1500:]}


PLUGIN = Cpp()
