"""Hand-written seed programs for the pipeline / entry-point checks (C13, C14, C16).
The codec-family checks draw their programs from the TLC generator (DslGen.tla) instead."""

HDR = 'options {\n    GoPackage = "msg";\n    GoModule = "example.com/msg";\n    JavaPackage = "com.x.y";\n%s}\n'


def opts(extra=""):
    return HDR % extra


PIPE = {
    # every per-field pad form + zchar, plain and repeated, in root / match payload / object
    "padforms": opts() + """root packet R {
    u16 T,
    zchar[4] Z,
    @leftPad('0') char[3] A,
    @rightPad('\\x00') char[5] B,
    @leftPad('\\x00') char[5] B2,
    @rightPad(' ') char[2] C,
    @leftPad(' ') char[2] C2,
    @rightPad('0') char[2] C3,
    char[2] D,
    string S,
    repeat zchar[2] Zs,
    Sub,
    match T as Body {
        1 : A1,
        [2, 3] : B1,
    },
}
packet A1 { u8 x, }
packet B1 { zchar[3] y, repeat zchar[2] ys, @leftPad('0') char[6] z, }
packet Sub { zchar[8] q, i32 w, }
""",
    # configuration-level padding (the shared default cell) + fields without own padding
    "cfgpad": opts("    FixedStringPadChar = '0';\n    FixedStringPadFromLeft = true;\n    LittleEndian = true;\n") + """root packet R {
    u8 T,
    char[4] A,
    repeat char[3] As,
    zchar[4] Z,
    @rightPad(' ') char[2] C,
}
""",
    # MetaData-shared fixed strings: several fields share one attribute object
    "metashare": opts() + """MetaData M {
    zchar[6] Code `code`,
    char[4] Name `name`,
    u32 Qty `qty`,
    string Text `text`,
}
root packet R {
    u8 T,
    Code,
    Code Code2,
    Name,
    repeat Name Names,
    Qty,
    Text,
    match T as Body {
        1 : P1,
        2 : P2,
    },
}
packet P1 { Code, Qty, }
packet P2 { Name, repeat Code Codes, }
""",
    # several packets, several match fields per packet, cross references (map iteration, C13)
    "manypk": opts("    StringPrefixLenType = u8;\n    ArrayPrefixLenType = u32;\n") + """root packet Root {
    u16 MsgType,
    u8 Sub2Type,
    string Name,
    Hdr,
    match MsgType as Body {
        1 : Alpha,
        2 : Beta,
        [3, 4] : Gamma,
        5 : Delta,
    },
    match Sub2Type as Ext {
        1 : Delta,
        2 : Eps,
    },
}
packet Hdr { u32 Seq, u64 Ts, }
packet Alpha { u8 a, Hdr, repeat Eps es, }
packet Beta { i64 b, string s, repeat string ss, }
packet Gamma { f32 g, repeat u16 gs, Zeta, }
packet Delta { f64 d, char[3] c, }
packet Eps { i16 e, }
packet Zeta { u8 K, match K as Z { 1 : Eps, 2 : Delta, }, }
""",
    # configuration-level NUL padding: the shared default cell holds the escaped form
    "cfgnul": opts("    FixedStringPadChar = '\\x00';\n") + """root packet R {
    u8 T,
    char[4] A,
    repeat char[3] As,
    zchar[4] Z,
    @leftPad('0') char[2] C,
}
""",
    # the same inline object name in several packets, inline objects nested, a packet used from several places
    "inlinedup": opts() + """root packet Order {
    u16 Kind,
    repeat Party {
        u8 Role,
        string Id,
    },
    Leg {
        u32 Qty,
        Party {
            u8 Role,
        },
    },
    match Kind as Body {
        1 : NewOrder,
        [2, 3] : CancelOrder,
        4 : NewOrder,
    },
}
packet NewOrder { repeat Party { u8 Role, string Id, }, u64 Px, Shared, }
packet CancelOrder { Party { u8 Role, }, Shared, repeat Shared Others, }
packet Shared { u8 s, }
""",
    # a NON-root packet with two match fields over different key fields whose payloads are declared after it
    "twomatch": opts() + """root packet Frame {
    u8 kind,
    match kind as env {
        1 : Envelope,
    },
}
packet Envelope {
    u8 ka,
    u16 kb,
    match ka as pa {
        1 : PA1,
        2 : PA2,
    },
    match kb as pb {
        1 : PB1,
        [2, 3] : PB2,
    },
}
packet PA1 { u8 a, }
packet PA2 { u16 a, }
packet PB1 { u8 b, }
packet PB2 { i64 b, }
""",
    # a compact layout: several packets start on the same line
    "oneline": opts() + """root packet Hub { u8 k, match k as body { 1 : Zulu, 2 : Alfa, [3, 4] : Mike, }, Kilo, }
packet Zulu { u8 z, } packet Alfa { u16 a, string s, } packet Mike { i32 m, }
packet Kilo { u8 ID, u16 ClOrdID, } packet Echo { u32 ID, }
""",
    # packets nothing refers to (legal: a library of messages), in an order that is not alphabetical
    "unreached": opts() + """root packet Head {
    u8 a,
    Used,
}
packet Zed { u8 z, }
packet Used { u16 u, }
packet Mid { string m, }
packet Alpha { i32 q, Mid, }
packet Beta { repeat u8 bs, }
""",
    # key and match inside an inline object (its packet has no match-field table in the model)
    "inlmatch": opts() + """root packet Envelope {
    u16 seq,
    Body {
        u8 kind,
        match kind as payload {
            1 : Ping,
            [2, 3] : Pong,
        },
        u8 after,
    },
    u8 tail,
}
packet Ping { u8 p, }
packet Pong { u16 q, string why, }
""",
    # the Go test file of Foo and the Go code file of FooTest are both foo_test.go
    "nameclash": opts() + """root packet Foo {
    u8 a,
    FooTest,
    Bar,
}
packet FooTest { u16 b, }
packet Bar { u8 c, }
packet BarTest { u32 d, }
""",
    # a key field of the basic type char with one-character string keys, next to an integer-keyed match field
    "charkey": opts() + """root packet Frame {
    char Side,
    u8 Kind,
    match Side as Body {
        "B" : Buy,
        "S" : Sell,
    },
    match Kind as Tail {
        1 : Buy,
    },
}
packet Buy { u32 qty, }
packet Sell { u32 qty, char flag, }
""",
    # no padding cells beyond the default; little-endian; lenof + checksum
    "lencheck": opts("    LittleEndian = true;\n") + """root packet R {
    u16 T,
    u32 BodyLen @lengthOf(Body),
    match T as Body {
        1 : A,
        2 : B,
    },
    u32 Ck @calculatedFrom("VSUM32"),
}
packet A { u8 x, }
packet B { i64 y, string s, }
""",
}
