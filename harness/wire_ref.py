"""Python mirror of spec/Wire.tla (NOT trusted: every byte string it produces is logged as a `ref`
event and TLC checks ref = Layout) + the message generator drawing from the value classes of
DESIGN Appendix A, restricted to the value domain MCWire derives."""
import random
import zlib

from dsl import WIDTH, cfg, pad_of, pkt, res, root


class OutOfDomain(Exception):
    """The message has no encoding (a length / count does not fit its declared width): unspecified, skipped."""


def int_be(n, w):
    if n >= 256 ** w:
        raise OutOfDomain("%d does not fit %d bytes" % (n, w))
    return list(n.to_bytes(w, "big"))


def order(le, bs):
    return list(reversed(bs)) if le else list(bs)


def alg(bs, w):
    s = 0
    for i, b in enumerate(bs, 1):
        s = (s + i * b) % 65521
    a = (s + 7 * len(bs)) % 65521
    return a % 256 if w == 1 else a


def registered(name, w):
    return name == "VSUM%d" % (8 * w)


def dispatch(pairs, kv):
    for p in pairs:
        if list(kv) in [list(k) for k in p["keys"]]:
            return p["pkt"]
    return ""


def enc_elem(P, f, v, buf, fs, vs):
    c = cfg(P)
    k = f["k"]
    if k in ("int", "float", "char"):
        return buf + order(c["le"], v["b"])
    if k == "fix":
        pb, left = pad_of(P, f)
        fill = [pb] * max(0, f["n"] - len(v["b"]))
        return buf + (fill + v["b"] if left else v["b"] + fill)
    if k == "dyn":
        return buf + order(c["le"], int_be(len(v["b"]), c["sp"])) + v["b"]
    if k == "obj":
        return enc_fields(P, pkt(P, f["ty"])["fields"], v["fs"], buf)
    if k == "inl":
        return enc_fields(P, f["fs"], v["fs"], buf)
    if k == "match":
        return enc_fields(P, pkt(P, v["pkt"])["fields"], v["fs"], buf)
    if k == "len":
        j = [g["name"] for g in fs].index(f["tgt"])
        n = len(enc_field(P, fs, vs, j, []))
        return buf + order(c["le"], int_be(n, WIDTH[f["ty"]]))
    if k == "ck":
        w = WIDTH[f["ty"]]
        if registered(f["alg"], w):
            return buf + order(c["le"], int_be(alg(buf, w), w))
        return buf + order(c["le"], v["b"])
    raise ValueError(k)


def enc_field(P, fs, vs, i, buf):
    f = res(P, fs[i])
    v = vs[i]
    c = cfg(P)
    if f["rep"]:
        buf = buf + order(c["le"], int_be(len(v["xs"]), c["ap"]))
        for x in v["xs"]:
            buf = enc_elem(P, f, x, buf, fs, vs)
        return buf
    return enc_elem(P, f, v, buf, fs, vs)


def enc_fields(P, fs, vs, buf):
    for i in range(len(fs)):
        buf = enc_field(P, fs, vs, i, buf)
    return buf


def layout(P, name, m):
    return enc_fields(P, pkt(P, name)["fields"], m["fs"], [])


def segments(P, name, m):
    """[(field name, part, off, len)] for every leaf occurrence, 0-based offsets (mirror of Wire!Segments)."""
    segs = []

    def leaf(buf, f, part, bs):
        segs.append({"name": f["name"], "part": part, "off": len(buf), "len": len(bs)})
        return buf + bs

    def elem(f, v, buf, fs, vs):
        c = cfg(P)
        k = f["k"]
        if k in ("int", "float", "char", "fix", "len", "ck"):
            nb = enc_elem(P, f, v, buf, fs, vs)
            return leaf(buf, f, "body", nb[len(buf):])
        if k == "dyn":
            buf = leaf(buf, f, "prefix", order(c["le"], int_be(len(v["b"]), c["sp"])))
            return leaf(buf, f, "body", v["b"])
        if k == "obj":
            return fields(pkt(P, f["ty"])["fields"], v["fs"], buf)
        if k == "inl":
            return fields(f["fs"], v["fs"], buf)
        if k == "match":
            return fields(pkt(P, v["pkt"])["fields"], v["fs"], buf)
        raise ValueError(k)

    def fields(fs, vs, buf):
        for i in range(len(fs)):
            f = res(P, fs[i])
            v = vs[i]
            if f["rep"]:
                buf = leaf(buf, f, "count", order(cfg(P)["le"], int_be(len(v["xs"]), cfg(P)["ap"])))
                for x in v["xs"]:
                    buf = elem(f, x, buf, fs, vs)
            else:
                buf = elem(f, v, buf, fs, vs)
        return buf
    fields(pkt(P, name)["fields"], m["fs"], [])
    return segs


def norm(P, name, m):
    """The message as a conforming decoder returns it: lenof / registered checksum fields hold the wire value."""
    def fields(fs, vs, buf):
        out = []
        for i in range(len(fs)):
            f = res(P, fs[i])
            v = vs[i]
            nb = enc_field(P, fs, vs, i, buf)
            if f["rep"]:
                xs = []
                b2 = buf + order(cfg(P)["le"], int_be(len(v["xs"]), cfg(P)["ap"]))
                for x in v["xs"]:
                    xs.append(elem(f, x, b2, fs, vs))
                    b2 = enc_elem(P, f, x, b2, fs, vs)
                out.append({"t": "l", "xs": xs})
            else:
                out.append(elem(f, v, buf, fs, vs))
            buf = nb
        return out

    def elem(f, v, buf, fs, vs):
        k = f["k"]
        c = cfg(P)
        if k in ("len", "ck"):
            nb = enc_elem(P, f, v, buf, fs, vs)
            return {"t": "b", "b": order(c["le"], nb[len(buf):])}
        if k == "obj":
            return {"t": "o", "fs": fields(pkt(P, f["ty"])["fields"], v["fs"], buf)}
        if k == "inl":
            return {"t": "o", "fs": fields(f["fs"], v["fs"], buf)}
        if k == "match":
            return {"t": "m", "pkt": v["pkt"], "fs": fields(pkt(P, v["pkt"])["fields"], v["fs"], buf)}
        return {"t": "b", "b": list(v["b"])}
    return {"t": "o", "fs": fields(pkt(P, name)["fields"], m["fs"], [])}


# ---------------------------------------------------------------------------------------------
# message generation (value classes)

INT_CLASSES = ["zero", "one", "ones", "pattern", "sign"]


def int_val(w, cls):
    if cls == "zero":
        return [0] * w
    if cls == "one":
        return [0] * (w - 1) + [1]
    if cls == "ones":
        return [255] * w
    if cls == "sign":
        return [128] + [0] * (w - 1)
    return list(range(1, w + 1))          # 01 02 .. 0w : exposes order / width / truncation


FLOAT_BITS = {4: [[0x3F, 0xC0, 0, 0], [0xC0, 0x10, 0, 0], [0, 0, 0, 1]],
              8: [[0x3F, 0xF8, 0, 0, 0, 0, 0, 0], [0xC0, 0x02, 0, 0, 0, 0, 0, 0], [0, 0, 0, 0, 0, 0, 0, 1]]}

STR_CLASSES = [b"", b"a", "héllo€".encode(), b"Zq" * 100, b"Yz" * 128]


def str_vals(spw):
    return [list(s) for s in STR_CLASSES if len(s) < 256 ** spw]


def fix_vals(P, f):
    """Values inside the derived domain: fit n, do not begin/end with the pad byte on the padded side,
    not all padding (except the empty string, which decodes to empty)."""
    pb, left = pad_of(P, f)
    n = f["n"]
    cands = [b"", b"A"[:n], (b"Ab1" * n)[:n], "é".encode()[:n] if n >= 2 else b"B"]
    if n >= 3:
        cands.append(b"x y"[:n])
    out = []
    for c in cands:
        c = list(c)
        if len(c) > n:
            continue
        if c and (c[0] == pb if left else c[-1] == pb):
            continue
        if c and pb == 32 and (c[0] == 32 or c[-1] == 32):
            continue
        if c not in out:
            out.append(c)
    return out


class MsgGen:
    """Deterministic message builder: `pick` chooses a value class index per leaf."""

    def __init__(self, P, rnd, list_len=None, key=None, payload=None, str_idx=None, int_cls=None):
        self.P = P
        self.rnd = rnd
        self.list_len = list_len
        self.int_cls = int_cls
        self.str_idx = str_idx
        self.key = key          # (field name, key bytes, payload pkt) forced for match fields
        self.payload = payload
        self.depth = 0

    def scalar(self, f):
        w = WIDTH[f["ty"]]
        if f["k"] == "float":
            return {"t": "b", "b": list(self.rnd.choice(FLOAT_BITS[w]))}
        if f["k"] == "char":
            return {"t": "b", "b": [self.rnd.choice([65, 122, 48])]}
        cls = self.int_cls or self.rnd.choice(INT_CLASSES)
        return {"t": "b", "b": int_val(w, cls)}

    def elem(self, f, forced=None):
        P = self.P
        k = f["k"]
        if k in ("int", "float", "char"):
            return self.scalar(f)
        if k == "fix":
            vs = fix_vals(P, f)
            return {"t": "b", "b": vs[self.str_idx % len(vs)] if self.str_idx is not None else self.rnd.choice(vs)}
        if k == "dyn":
            vs = str_vals(cfg(P)["sp"])
            return {"t": "b", "b": vs[self.str_idx % len(vs)] if self.str_idx is not None else self.rnd.choice(vs[:3] if self.rnd.random() < 0.8 else vs)}
        if k == "obj":
            return {"t": "o", "fs": self.fields(pkt(P, f["ty"])["fields"])}
        if k == "inl":
            return {"t": "o", "fs": self.fields(f["fs"])}
        if k == "len":
            # whatever the caller stored: zero or a garbage value whose bytes are all different
            return {"t": "b", "b": self.rnd.choice([[0] * WIDTH[f["ty"]], [0xA5, 0x17, 0x3C, 0x42, 0x99, 0x06, 0x7E, 0xD1][:WIDTH[f["ty"]]]])}
        if k == "ck":
            # asymmetric bytes: a wrong byte order of an unregistered checksum must be visible
            return {"t": "b", "b": self.rnd.choice([[0x11, 0x22, 0x33, 0x44, 0x55, 0x66, 0x77, 0x88][:WIDTH[f["ty"]]],
                                                    [0x5A, 0x01, 0xC3, 0x7F, 0x10, 0xEE, 0x02, 0x9B][:WIDTH[f["ty"]]]])}
        raise ValueError(k)

    def field(self, f):
        if f["rep"]:
            apw = cfg(self.P)["ap"]
            n = self.list_len if self.list_len is not None else self.rnd.choice([0, 1, 3])
            if self.depth > 0:
                n = min(n, 3)         # long lists only at the top level: a list of 130 lists of 130 proves nothing more
            n = min(n, 256 ** apw - 1)
            self.depth += 1
            try:
                return {"t": "l", "xs": [self.elem(f) for _ in range(n)]}
            finally:
                self.depth -= 1
        return self.elem(f)

    def fields(self, fs):
        P = self.P
        vals = [None] * len(fs)
        # match fields first decide their key
        forced = {}
        # the match field whose key the caller fixed goes first; a second match field over the same key field takes
        # the payload its own table gives for that key
        order = sorted(range(len(fs)), key=lambda i: 0 if (self.key and fs[i]["name"] == self.key[0]) else 1)
        for i in order:
            f = res(P, fs[i])
            if f["k"] == "match":
                pairs = f["pairs"]
                if self.key and self.key[0] == f["name"]:
                    _, kb, pk = self.key
                elif f["key"] in forced:
                    kb = forced[f["key"]]
                    hit = [p for p in pairs if list(kb) in [list(k) for k in p["keys"]]]
                    if not hit:
                        raise OutOfDomain("key %r of %s is not in the table of %s" % (kb, f["key"], f["name"]))
                    pk = hit[0]["pkt"]
                else:
                    p = self.rnd.choice(pairs)
                    j = self.rnd.randrange(len(p["keys"]))
                    kb, pk = p["keys"][j], p["pkt"]
                forced[f["key"]] = list(kb)
                vals[i] = {"t": "m", "pkt": pk, "fs": self.fields(pkt(P, pk)["fields"])}
        for i, f0 in enumerate(fs):
            f = res(P, f0)
            if vals[i] is not None:
                continue
            if f["name"] in forced:
                vals[i] = {"t": "b", "b": forced[f["name"]]}
            else:
                vals[i] = self.field(f)
        return vals


def messages(P, count, seed, thorough=False):
    """A list of (label, message tree) for the root packet: a compact sweep over the value classes
    (every int class, every string class, list lengths 0/1/2/3/130[/300], every match alternative and
    key), then seeded random compositions of the same classes."""
    rnd = random.Random(seed)
    out = []
    r = root(P)

    def mk(label, **kw):
        try:
            out.append((label, {"t": "o", "fs": MsgGen(P, random.Random(zlib.crc32(label.encode())), **kw).fields(r["fields"])}))
        except OutOfDomain:
            pass            # no consistent message of this class exists (two tables over one key disagree)
    def mkrnd(label):
        try:
            out.append((label, {"t": "o", "fs": MsgGen(P, rnd).fields(r["fields"])}))
        except OutOfDomain:
            pass
    mk("pattern", list_len=1, int_cls="pattern", str_idx=1)
    mk("zero-empty", list_len=0, int_cls="zero", str_idx=0)
    mk("ones-utf8", list_len=3, int_cls="ones", str_idx=2)
    mk("sign-long", list_len=2, int_cls="sign", str_idx=3)
    mk("one-list130", list_len=130, int_cls="one", str_idx=4)
    for f0 in r["fields"]:
        f = res(P, f0)
        if f["k"] == "match":
            for p in f["pairs"]:
                for kb in p["keys"]:
                    mk("key=%s" % "".join("%02x" % b for b in kb), list_len=1, int_cls="pattern", str_idx=1, key=(f["name"], kb, p["pkt"]))
    if thorough:
        mk("list300", list_len=300, int_cls="pattern", str_idx=1)
        for i in range(8):
            mkrnd("rnd%d" % i)
    tries = 0
    while len(out) < count and tries < 4 * count + 8:
        tries += 1
        mkrnd("rnd%d" % len(out))
    seen, res_ = set(), []
    for lab, m in out:
        key = repr(m)
        if key not in seen:
            seen.add(key)
            res_.append((lab, m))
    return res_
