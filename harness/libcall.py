#!/usr/bin/env python3
"""Child process: load libpacketdsl.so, call FormatPacketDslExport on the bytes of a file, print {"ret": str}.
If the library aborts the host, this process dies and the parent observes that."""
import ctypes
import json
import sys

lib = ctypes.CDLL(sys.argv[1])
lib.FormatPacketDslExport.restype = ctypes.c_void_p
lib.FormatPacketDslExport.argtypes = [ctypes.c_char_p]
data = open(sys.argv[2], "rb").read()
p = lib.FormatPacketDslExport(data)
s = ctypes.string_at(p) if p else b""
print(json.dumps({"ret": s.decode("utf-8", "surrogateescape")}))
sys.stdout.flush()
