#!/usr/bin/env python3
"""Child process: load libpacketdsl.so ONCE, call FormatPacketDslExport on the bytes of every file named on the command
line, in order, in this one process (the library stays loaded between calls: a process-lifetime history); print one
{"ret": str} line per call, flushed at once.  If the library aborts the host, this process dies and the parent sees
how many calls were answered."""
import ctypes
import json
import sys

lib = ctypes.CDLL(sys.argv[1])
lib.FormatPacketDslExport.restype = ctypes.c_void_p
lib.FormatPacketDslExport.argtypes = [ctypes.c_char_p]
for path in sys.argv[2:]:
    data = open(path, "rb").read()
    p = lib.FormatPacketDslExport(data)
    s = ctypes.string_at(p) if p else b""
    print(json.dumps({"ret": s.decode("utf-8", "surrogateescape")}))
    sys.stdout.flush()
