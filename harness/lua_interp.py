#!/usr/bin/env python3
"""A Lua 5.3-subset interpreter in pure Python (standard library only).

Purpose: run the Wireshark dissector scripts fin-protoc emits (no Lua interpreter is installed in the
sandbox).  Pipeline: tokenize -> Parser (recursive descent, resolves every name STATICALLY to
local / upvalue / global exactly as luac does: a local is visible only after its declaration
statement) -> Compiler (AST -> Python closures) -> run.

Values: nil=None, booleans=bool, integers=int (wrapped to 64 bit), floats=float, strings=str holding
one character per BYTE (latin-1 view of the bytes), tables=LuaTable, functions=LuaFunction/Builtin,
userdata=subclasses of LuaUserdata (the Wireshark stubs live in lua_wireshark.py).

Errors: LuaError (run-time error with a Lua-like message "chunk:line: attempt to call a nil value
(global 'f')"), LuaSyntaxError (malformed source), Unsupported (valid Lua outside the supported subset:
goto/labels/attribs at parse time, missing libraries at run time) -- the caller treats Unsupported as
an infrastructure limitation, not as a defect of the script.

CLI:  python3 lua_interp.py file.lua --hex 0102...   (dissect the bytes, print the recorded adds)
      python3 lua_interp.py file.lua                 (just run the chunk, show print() output)
"""
import math
import re
import sys

sys.setrecursionlimit(max(sys.getrecursionlimit(), 20000))


class LuaError(Exception):
    """A Lua run-time error.  .value is the Lua error value (normally a str)."""

    def __init__(self, value, positioned=False):
        Exception.__init__(self, value)
        self.value = value
        self.positioned = positioned
        self.traceback = []          # [(line, what)] innermost first

    def __str__(self):
        v = self.value
        return v if isinstance(v, str) else tostr(v)


class LuaSyntaxError(LuaError):
    def __init__(self, msg):
        LuaError.__init__(self, msg, True)


class Unsupported(Exception):
    """Construct / library outside the supported subset (not a defect of the script)."""


# =====================================================================================================
# Lexer

KEYWORDS = {"and", "break", "do", "else", "elseif", "end", "false", "for", "function", "goto", "if", "in",
            "local", "nil", "not", "or", "repeat", "return", "then", "true", "until", "while"}

_TOKEN_RE = re.compile(r"""
   (?P<ws>[ \t\r\f\v]+)
 | (?P<nl>\n)
 | (?P<comment>--)
 | (?P<name>[A-Za-z_][A-Za-z0-9_]*)
 | (?P<num>0[xX][0-9a-fA-F]*(?:\.[0-9a-fA-F]*)?(?:[pP][+-]?[0-9]+)?
         | (?:[0-9]+\.?[0-9]*|\.[0-9]+)(?:[eE][+-]?[0-9]+)?)
 | (?P<lstr>\[=*\[)
 | (?P<str>["'])
 | (?P<op>\.\.\.|\.\.|==|~=|<=|>=|<<|>>|//|::|[-+*/%^\#&~|<>=(){}\[\];:,.])
""", re.X)

_ESC = {"a": "\a", "b": "\b", "f": "\f", "n": "\n", "r": "\r", "t": "\t", "v": "\v", "\\": "\\", '"': '"', "'": "'", "\n": "\n"}


def _utf8_chars(cp):
    """UTF-8 encoding of a code point as a byte-per-char string (Lua allows up to 2^31)."""
    if cp < 0x80:
        return chr(cp)
    out = []
    first_max = 0x3F
    while cp > first_max:
        out.append(0x80 | (cp & 0x3F))
        cp >>= 6
        first_max >>= 1
    out.append(((~first_max << 1) & 0xFF) | cp)
    return "".join(chr(b) for b in reversed(out))


def parse_number(text):
    """Lua numeral -> int | float | None."""
    t = text.strip()
    if not t:
        return None
    neg = False
    s = t
    if s[0] in "+-":
        neg = s[0] == "-"
        s = s[1:]
    try:
        if s[:2] in ("0x", "0X"):
            body = s[2:]
            if not body:
                return None
            if re.fullmatch(r"[0-9a-fA-F]+", body):
                v = int(body, 16) & 0xFFFFFFFFFFFFFFFF
                if v >= 1 << 63:
                    v -= 1 << 64
            elif re.fullmatch(r"(?:[0-9a-fA-F]+\.?[0-9a-fA-F]*|\.[0-9a-fA-F]+)(?:[pP][+-]?[0-9]+)?", body):
                b = body if re.search(r"[pP]", body) else body + "p0"
                v = float.fromhex("0x" + b)
            else:
                return None
        elif re.fullmatch(r"[0-9]+", s):
            v = int(s)
            if v >= 1 << 63:
                v = float(v)
        elif re.fullmatch(r"(?:[0-9]+\.?[0-9]*|\.[0-9]+)(?:[eE][+-]?[0-9]+)?", s):
            v = float(s)
        else:
            return None
    except (ValueError, OverflowError):
        return None
    return -v if neg else v


def tokenize(src, chunk):
    """-> list of (tt, value, line); tt is 'name' | 'num' | 'str' | 'eof' | the keyword / operator itself."""
    toks = []
    pos, n, line = 0, len(src), 1
    if src.startswith("#"):                      # shebang line
        pos = src.find("\n")
        pos = n if pos < 0 else pos
    match = _TOKEN_RE.match

    def err(msg, near=None):
        raise LuaSyntaxError("%s:%d: %s%s" % (chunk, line, msg, " near '%s'" % near if near else ""))

    def long_bracket(p, level):
        """p is just after the opening bracket; -> (text, new pos)."""
        nonlocal line
        close = "]" + "=" * level + "]"
        e = src.find(close, p)
        if e < 0:
            err("unfinished long string/comment", "<eof>")
        text = src[p:e]
        line += text.count("\n")
        if text.startswith("\r\n"):
            text = text[2:]
        elif text.startswith("\n"):
            text = text[1:]
        return text, e + len(close)

    while pos < n:
        m = match(src, pos)
        if m is None:
            err("unexpected symbol", src[pos])
        kind = m.lastgroup
        if kind == "ws":
            pos = m.end()
        elif kind == "nl":
            line += 1
            pos = m.end()
        elif kind == "comment":
            p = m.end()
            lm = re.compile(r"\[(=*)\[").match(src, p)
            if lm:
                _, pos = long_bracket(lm.end(), len(lm.group(1)))
            else:
                e = src.find("\n", p)
                pos = n if e < 0 else e
        elif kind == "name":
            v = m.group()
            toks.append((v, v, line) if v in KEYWORDS else ("name", v, line))
            pos = m.end()
        elif kind == "num":
            text = m.group()
            pos = m.end()
            if pos < n and (src[pos].isalnum() or src[pos] == "_" or (src[pos] == "." and text != "..")):
                err("malformed number", text + src[pos])
            v = parse_number(text)
            if v is None:
                err("malformed number", text)
            toks.append(("num", v, line))
        elif kind == "lstr":
            l0 = line
            text, pos = long_bracket(m.end(), len(m.group()) - 2)
            toks.append(("str", text, l0))
        elif kind == "str":
            q = m.group()
            p = m.end()
            buf = []
            l0 = line
            while True:
                if p >= n:
                    err("unfinished string", "<eof>")
                c = src[p]
                if c == q:
                    p += 1
                    break
                if c == "\n":
                    err("unfinished string", q + "".join(buf))
                if c != "\\":
                    buf.append(c)
                    p += 1
                    continue
                p += 1
                if p >= n:
                    err("unfinished string", "<eof>")
                c = src[p]
                if c in _ESC:
                    buf.append(_ESC[c])
                    if c == "\n":
                        line += 1
                    p += 1
                elif c == "\r":
                    buf.append("\n")
                    line += 1
                    p += 2 if src[p + 1:p + 2] == "\n" else 1
                elif c == "x":
                    h = src[p + 1:p + 3]
                    if not re.fullmatch(r"[0-9a-fA-F]{2}", h):
                        err("hexadecimal digit expected", "\\x" + h)
                    buf.append(chr(int(h, 16)))
                    p += 3
                elif c == "z":
                    p += 1
                    while p < n and src[p] in " \t\r\n\f\v":
                        if src[p] == "\n":
                            line += 1
                        p += 1
                elif c.isdigit():
                    dm = re.compile(r"[0-9]{1,3}").match(src, p)
                    v = int(dm.group())
                    if v > 255:
                        err("decimal escape too large", "\\" + dm.group())
                    buf.append(chr(v))
                    p = dm.end()
                elif c == "u":
                    um = re.compile(r"u\{([0-9a-fA-F]+)\}").match(src, p)
                    if not um:
                        err("missing '{' in \\u{xxxx}", "\\u")
                    buf.append(_utf8_chars(int(um.group(1), 16)))
                    p = um.end()
                else:
                    err("invalid escape sequence", "\\" + c)
            toks.append(("str", "".join(buf), l0))
            pos = p
        else:
            v = m.group()
            toks.append((v, v, line))
            pos = m.end()
    toks.append(("eof", "<eof>", line))
    return toks


# =====================================================================================================
# AST + parser with static name resolution

class N:
    """AST node: kind + line + free attributes."""

    def __init__(self, kind, line, **kw):
        self.kind = kind
        self.line = line
        self.__dict__.update(kw)

    def __repr__(self):
        return "N(%s)" % ", ".join("%s=%r" % kv for kv in self.__dict__.items())


class VarInfo:
    __slots__ = ("name", "slot", "captured")

    def __init__(self, name, slot):
        self.name = name
        self.slot = slot
        self.captured = False


class FuncState:
    def __init__(self, parent, name, line):
        self.parent = parent
        self.name = name
        self.line = line
        self.scopes = [{}]
        self.nslots = 0              # slot 0 of a frame holds the closure's upvalue cells
        self.upvals = []             # [(name, in_parent_stack, index)]
        self.upidx = {}
        self.params = []
        self.is_vararg = False
        self.vararg_slot = 0
        self.loops = 0

    def declare(self, name):
        self.nslots += 1
        v = VarInfo(name, self.nslots)
        self.scopes[-1][name] = v
        return v

    def new_slot(self):
        self.nslots += 1
        return self.nslots

    def find_local(self, name):
        for sc in reversed(self.scopes):
            v = sc.get(name)
            if v is not None:
                return v
        return None

    def find_upval(self, name):
        i = self.upidx.get(name)
        if i is not None:
            return i
        if self.parent is None:
            return None
        v = self.parent.find_local(name)
        if v is not None:
            v.captured = True
            desc = (name, True, v.slot)
        else:
            j = self.parent.find_upval(name)
            if j is None:
                return None
            desc = (name, False, j)
        self.upvals.append(desc)
        self.upidx[name] = len(self.upvals) - 1
        return self.upidx[name]


UNARY_PRI = 12
BINPRI = {"or": (1, 1), "and": (2, 2), "<": (3, 3), ">": (3, 3), "<=": (3, 3), ">=": (3, 3), "~=": (3, 3), "==": (3, 3),
          "|": (4, 4), "~": (5, 5), "&": (6, 6), "<<": (7, 7), ">>": (7, 7), "..": (9, 8), "+": (10, 10), "-": (10, 10),
          "*": (11, 11), "/": (11, 11), "//": (11, 11), "%": (11, 11), "^": (14, 13)}
BLOCK_END = {"eof", "end", "else", "elseif", "until"}


class Parser:
    def __init__(self, src, chunk):
        self.chunk = chunk
        self.toks = tokenize(src, chunk)
        self.p = 0
        self.tt, self.tv, self.line = self.toks[0]
        self.fs = None

    # ---- token helpers
    def next(self):
        self.p += 1
        self.tt, self.tv, self.line = self.toks[self.p]

    def peek(self):
        return self.toks[self.p + 1][0] if self.p + 1 < len(self.toks) else "eof"

    def error(self, msg, line=None):
        near = self.tv if self.tt != "str" else self.tv[:20]
        raise LuaSyntaxError("%s:%d: %s near '%s'" % (self.chunk, line or self.line, msg, near))

    def accept(self, tt):
        if self.tt == tt:
            self.next()
            return True
        return False

    def expect(self, tt, opener=None, oline=None):
        if self.tt != tt:
            if opener and oline != self.line:
                self.error("'%s' expected (to close '%s' at line %d)" % (tt, opener, oline))
            self.error("'%s' expected" % tt)
        self.next()

    def name(self):
        if self.tt != "name":
            self.error("<name> expected")
        v = self.tv
        self.next()
        return v

    # ---- chunk / blocks
    def parse_chunk(self):
        fs = FuncState(None, "main chunk", 0)
        fs.is_vararg = True
        fs.vararg_slot = fs.new_slot()
        self.fs = fs
        body = self.block()
        if self.tt != "eof":
            self.error("'<eof>' expected")
        return N("function", 0, fs=fs, body=body, name="main chunk")

    def block(self, scope=True):
        fs = self.fs
        if scope:
            fs.scopes.append({})
        stmts = []
        while self.tt not in BLOCK_END:
            if self.tt == "return":
                stmts.append(self.retstat())
                break
            s = self.statement()
            if s is not None:
                stmts.append(s)
        if scope:
            fs.scopes.pop()
        return stmts

    def retstat(self):
        line = self.line
        self.next()
        exprs = []
        if self.tt not in BLOCK_END and self.tt != ";":
            exprs = self.explist()
        self.accept(";")
        if self.tt not in BLOCK_END:
            self.error("'<eof>' expected" if self.fs.parent is None else "'end' expected")
        return N("return", line, exprs=exprs)

    def statement(self):
        tt, line = self.tt, self.line
        fs = self.fs
        if tt == ";":
            self.next()
            return None
        if tt == "if":
            return self.ifstat()
        if tt == "while":
            self.next()
            cond = self.expr()
            self.expect("do")
            fs.loops += 1
            body = self.block()
            fs.loops -= 1
            self.expect("end", "while", line)
            return N("while", line, cond=cond, body=body)
        if tt == "do":
            self.next()
            body = self.block()
            self.expect("end", "do", line)
            return N("do", line, body=body)
        if tt == "for":
            return self.forstat()
        if tt == "repeat":
            self.next()
            fs.scopes.append({})
            fs.loops += 1
            body = self.block(scope=False)
            fs.loops -= 1
            self.expect("until", "repeat", line)
            cond = self.expr()           # sees the body's locals
            fs.scopes.pop()
            return N("repeat", line, cond=cond, body=body)
        if tt == "function":
            return self.funcstat()
        if tt == "local":
            self.next()
            if self.accept("function"):
                nm = self.name()
                var = fs.declare(nm)     # visible inside its own body
                fn = self.funcbody(nm, line, False)
                return N("localfunction", line, var=var, fn=fn)
            names = [self.name()]
            if self.tt == "<":
                raise Unsupported("%s:%d: local attribs (<const>/<close>) are not supported" % (self.chunk, self.line))
            while self.accept(","):
                names.append(self.name())
                if self.tt == "<":
                    raise Unsupported("%s:%d: local attribs (<const>/<close>) are not supported" % (self.chunk, self.line))
            exprs = self.explist() if self.accept("=") else []
            vars_ = [fs.declare(nm) for nm in names]      # active only AFTER the expressions
            return N("local", line, vars=vars_, exprs=exprs)
        if tt == "return":
            return self.retstat()
        if tt == "break":
            self.next()
            if fs.loops == 0:
                self.error("break outside a loop at line %d" % line)
            return N("break", line)
        if tt == "goto":
            raise Unsupported("%s:%d: goto is not supported" % (self.chunk, line))
        if tt == "::":
            raise Unsupported("%s:%d: labels are not supported" % (self.chunk, line))
        return self.exprstat()

    def ifstat(self):
        line = self.line
        clauses = []
        self.next()
        cond = self.expr()
        self.expect("then")
        clauses.append((cond, self.block()))
        orelse = None
        while True:
            if self.tt == "elseif":
                self.next()
                cond = self.expr()
                self.expect("then")
                clauses.append((cond, self.block()))
            elif self.tt == "else":
                self.next()
                orelse = self.block()
                self.expect("end", "if", line)
                break
            else:
                self.expect("end", "if", line)
                break
        return N("if", line, clauses=clauses, orelse=orelse)

    def forstat(self):
        fs = self.fs
        line = self.line
        self.next()
        n1 = self.name()
        if self.tt == "=":
            self.next()
            start = self.expr()
            self.expect(",")
            limit = self.expr()
            step = self.expr() if self.accept(",") else None
            self.expect("do")
            fs.scopes.append({})
            var = fs.declare(n1)
            fs.loops += 1
            body = self.block()
            fs.loops -= 1
            fs.scopes.pop()
            self.expect("end", "for", line)
            return N("numfor", line, var=var, start=start, limit=limit, step=step, body=body)
        names = [n1]
        while self.accept(","):
            names.append(self.name())
        if self.tt != "in":
            self.error("'=' or 'in' expected")
        self.next()
        exprs = self.explist()
        self.expect("do")
        fs.scopes.append({})
        vars_ = [fs.declare(nm) for nm in names]
        fs.loops += 1
        body = self.block()
        fs.loops -= 1
        fs.scopes.pop()
        self.expect("end", "for", line)
        return N("genfor", line, vars=vars_, exprs=exprs, body=body)

    def funcstat(self):
        line = self.line
        self.next()
        nm = self.name()
        target = self.var_ref(nm, line)
        full = nm
        is_method = False
        while self.tt in (".", ":"):
            sep = self.tt
            self.next()
            kline = self.line
            key = self.name()
            full += sep + key
            target = N("index", kline, obj=target, key=N("const", kline, value=key))
            if sep == ":":
                is_method = True
                break
        fn = self.funcbody(full, line, is_method)
        return N("assign", line, targets=[target], exprs=[fn])

    def exprstat(self):
        line = self.line
        e = self.suffixedexp()
        if self.tt in ("=", ","):
            targets = [e]
            while self.accept(","):
                targets.append(self.suffixedexp())
            for t in targets:
                if t.kind not in ("local", "upval", "global", "index"):
                    self.error("syntax error")
            self.expect("=")
            exprs = self.explist()
            return N("assign", line, targets=targets, exprs=exprs)
        if e.kind not in ("call", "method"):
            self.error("syntax error")
        return N("callstat", line, call=e)

    # ---- expressions
    def explist(self):
        out = [self.expr()]
        while self.accept(","):
            out.append(self.expr())
        return out

    def var_ref(self, nm, line):
        fs = self.fs
        v = fs.find_local(nm)
        if v is not None:
            return N("local", line, var=v, name=nm)
        i = fs.find_upval(nm)
        if i is not None:
            return N("upval", line, idx=i, name=nm)
        return N("global", line, name=nm)

    def expr(self, limit=0):
        tt, line = self.tt, self.line
        if tt in ("not", "-", "#", "~"):
            self.next()
            operand = self.expr(UNARY_PRI)
            if tt == "-" and operand.kind == "const" and type(operand.value) in (int, float):
                v = operand.value
                e = N("const", line, value=(-v if type(v) is float or v != -(1 << 63) else v))
            else:
                e = N("unop", line, op=tt, operand=operand)
        else:
            e = self.simpleexp()
        while True:
            op = self.tt
            pri = BINPRI.get(op)
            if pri is None or pri[0] <= limit:
                break
            line = self.line
            self.next()
            rhs = self.expr(pri[1])
            if op == "and":
                e = N("and", line, left=e, right=rhs)
            elif op == "or":
                e = N("or", line, left=e, right=rhs)
            else:
                e = N("binop", line, op=op, left=e, right=rhs)
        return e

    def simpleexp(self):
        tt, line = self.tt, self.line
        if tt == "num" or tt == "str":
            v = self.tv
            self.next()
            return N("const", line, value=v)
        if tt == "nil":
            self.next()
            return N("const", line, value=None)
        if tt == "true":
            self.next()
            return N("const", line, value=True)
        if tt == "false":
            self.next()
            return N("const", line, value=False)
        if tt == "...":
            if not self.fs.is_vararg:
                self.error("cannot use '...' outside a vararg function")
            self.next()
            return N("vararg", line)
        if tt == "{":
            return self.table()
        if tt == "function":
            self.next()
            return self.funcbody(None, line, False)
        return self.suffixedexp()

    def primaryexp(self):
        tt, line = self.tt, self.line
        if tt == "name":
            nm = self.tv
            self.next()
            return self.var_ref(nm, line)
        if tt == "(":
            self.next()
            e = self.expr()
            self.expect(")", "(", line)
            if e.kind in ("call", "method", "vararg"):
                return N("paren", line, inner=e)
            return e
        self.error("unexpected symbol")

    def suffixedexp(self):
        e = self.primaryexp()
        while True:
            tt, line = self.tt, self.line
            if tt == ".":
                self.next()
                key = self.name()
                e = N("index", line, obj=e, key=N("const", line, value=key))
            elif tt == "[":
                self.next()
                key = self.expr()
                self.expect("]")
                e = N("index", line, obj=e, key=key)
            elif tt == ":":
                self.next()
                nm = self.name()
                args = self.callargs()
                e = N("method", line, obj=e, name=nm, args=args)
            elif tt in ("(", "{", "str"):
                args = self.callargs()
                e = N("call", line, fn=e, args=args)
            else:
                return e

    def callargs(self):
        tt, line = self.tt, self.line
        if tt == "str":
            v = self.tv
            self.next()
            return [N("const", line, value=v)]
        if tt == "{":
            return [self.table()]
        if tt != "(":
            self.error("function arguments expected")
        self.next()
        if self.accept(")"):
            return []
        args = self.explist()
        self.expect(")", "(", line)
        return args

    def table(self):
        line = self.line
        self.expect("{")
        items = []                       # ("pos", expr) | ("kv", keyexpr, valexpr)
        while self.tt != "}":
            if self.tt == "name" and self.peek() == "=":
                kl = self.line
                key = self.name()
                self.next()
                items.append(("kv", N("const", kl, value=key), self.expr()))
            elif self.tt == "[":
                self.next()
                key = self.expr()
                self.expect("]")
                self.expect("=")
                items.append(("kv", key, self.expr()))
            else:
                items.append(("pos", self.expr()))
            if not (self.accept(",") or self.accept(";")):
                break
        self.expect("}", "{", line)
        return N("table", line, items=items)

    def funcbody(self, name, line, is_method):
        fs = FuncState(self.fs, name, line)
        self.fs = fs
        if is_method:
            fs.params.append(fs.declare("self"))
        self.expect("(")
        if self.tt != ")":
            while True:
                if self.tt == "...":
                    self.next()
                    fs.is_vararg = True
                    fs.vararg_slot = fs.new_slot()
                    break
                fs.params.append(fs.declare(self.name()))
                if not self.accept(","):
                    break
        self.expect(")")
        body = self.block(scope=False)
        self.expect("end", "function", line)
        self.fs = fs.parent
        return N("function", line, fs=fs, body=body, name=name)


# =====================================================================================================
# Run-time values

class _BoolKey:
    """Table keys true/false (Python's True == 1 would collide with the integer key 1)."""

    def __init__(self, v):
        self.v = v


_TRUE_KEY, _FALSE_KEY = _BoolKey(True), _BoolKey(False)


def _norm_key(k):
    """Key normalisation for the rare key types (callers handle str/int inline)."""
    t = type(k)
    if t is bool:
        return _TRUE_KEY if k else _FALSE_KEY
    if t is float:
        if k != k:
            return None
        if k.is_integer() and abs(k) < 9.3e18:
            return int(k)
    return k


class LuaTable:
    __slots__ = ("d", "meta", "_nk", "_ni")

    def __init__(self):
        self.d = {}
        self.meta = None
        self._nk = None
        self._ni = None

    def get(self, k):
        t = type(k)
        if t is not str and t is not int:
            k = _norm_key(k)
            if k is None:
                return None
        return self.d.get(k)

    def set(self, k, v):
        t = type(k)
        if t is not str and t is not int:
            if k is None:
                raise LuaError("table index is nil")
            k = _norm_key(k)
            if k is None:
                raise LuaError("table index is NaN")
        if v is None:
            self.d.pop(k, None)
        else:
            self.d[k] = v

    def length(self):
        d = self.d
        n = len(d)
        if n == 0:
            return 0
        if n in d and (n + 1) not in d:
            return n
        i = 0
        while (i + 1) in d:
            i += 1
        return i

    def next(self, k):
        """Successor of key k in traversal order -> (key, value) or None at the end."""
        d = self.d
        if k is None or self._nk is None or (k if type(k) in (str, int) else _norm_key(k)) not in self._ni:
            self._nk = list(d)
            self._ni = {key: i for i, key in enumerate(self._nk)}
        if k is None:
            i = 0
        else:
            kk = k if type(k) in (str, int) else _norm_key(k)
            if kk not in self._ni:
                raise LuaError("invalid key to 'next'")
            i = self._ni[kk] + 1
        nk = self._nk
        while i < len(nk):
            key = nk[i]
            v = d.get(key)
            if v is not None:
                if type(key) is _BoolKey:
                    key = key.v
                return key, v
            i += 1
        return None

    def items(self):
        for key, v in list(self.d.items()):
            if key in self.d:
                yield (key.v if type(key) is _BoolKey else key), self.d[key]


class FuncProto:
    __slots__ = ("nslots", "params", "is_vararg", "vararg_slot", "nparams", "updescs", "body", "name", "line", "interp")


class LuaFunction:
    __slots__ = ("proto", "upvals")

    def __init__(self, proto, upvals):
        self.proto = proto
        self.upvals = upvals

    def invoke(self, args):
        """args: list -> list of results."""
        p = self.proto
        it = p.interp
        fr = [None] * (p.nslots + 1)
        fr[0] = self.upvals
        n = len(args)
        i = 0
        for slot, captured in p.params:
            v = args[i] if i < n else None
            fr[slot] = [v] if captured else v
            i += 1
        if p.is_vararg:
            fr[p.vararg_slot] = args[p.nparams:]
        it.steps += 1
        if it.steps > it.max_steps:
            raise LuaError("step limit exceeded (%d)" % it.max_steps)
        it.depth += 1
        if it.depth > it.max_depth:
            it.depth -= 1
            raise LuaError("stack overflow")
        try:
            r = p.body(fr)
        except RecursionError:
            raise LuaError("stack overflow")
        finally:
            it.depth -= 1
        return r if r is not None else []


class Builtin:
    """A host function.  fn(*args) returns a single value, or a tuple of values (() = no value)."""
    __slots__ = ("fn", "name")

    def __init__(self, fn, name=None):
        self.fn = fn
        self.name = name or getattr(fn, "__name__", "?")


class LuaUserdata:
    """Base of host objects.  METHODS: name -> Builtin(fn(self, ...)).  Hooks may be overridden."""
    METHODS = {}
    TYPENAME = "userdata"

    def lua_index(self, k):
        return self.METHODS.get(k)

    def lua_newindex(self, k, v):
        raise LuaError("attempt to index a %s value" % self.TYPENAME)

    def lua_call(self, args):
        raise LuaError("attempt to call a userdata value")

    def lua_tostring(self):
        return "%s: 0x%08x" % (self.TYPENAME, id(self) & 0xFFFFFFFF)

    def lua_arith(self, op, a, b):
        return NotImplemented

    def lua_concat(self, a, b):
        return NotImplemented

    def lua_eq(self, other):
        return self is other

    def lua_lt(self, a, b):
        return NotImplemented

    def lua_le(self, a, b):
        return NotImplemented

    def lua_len(self):
        return NotImplemented


def methods(cls):
    """Class decorator: every function named m_xxx becomes METHODS['xxx']."""
    ms = dict(cls.METHODS)
    for k, v in list(vars(cls).items()):
        if k.startswith("m_") and callable(v):
            ms[k[2:]] = Builtin(v, k[2:])
    cls.METHODS = ms
    return cls


# =====================================================================================================
# Run-time helpers (module level: metatables live on the values, interpreter state on FuncProto.interp)

def type_name(v):
    if v is None:
        return "nil"
    t = type(v)
    if t is bool:
        return "boolean"
    if t is int or t is float:
        return "number"
    if t is str:
        return "string"
    if t is LuaTable:
        return "table"
    if t is LuaFunction or t is Builtin:
        return "function"
    return "userdata"


def fmt_number(v):
    if type(v) is int:
        return "%d" % v
    if v != v:
        return "nan" if math.copysign(1.0, v) > 0 else "-nan"
    if v in (math.inf, -math.inf):
        return "inf" if v > 0 else "-inf"
    s = "%.14g" % v
    if "." not in s and "e" not in s and "n" not in s:
        s += ".0"
    return s


def getmeta(v, event):
    if type(v) is LuaTable and v.meta is not None:
        return v.meta.d.get(event)
    return None


def tostr(v):
    if v is None:
        return "nil"
    t = type(v)
    if t is str:
        return v
    if t is bool:
        return "true" if v else "false"
    if t is int or t is float:
        return fmt_number(v)
    if t is LuaTable:
        mm = getmeta(v, "__tostring")
        if mm is not None:
            r = call_value(mm, [v])
            r = r[0] if r else None
            if type(r) is not str:
                if type(r) in (int, float):
                    return fmt_number(r)
                raise LuaError("'__tostring' must return a string")
            return r
        name = getmeta(v, "__name")
        return "%s: 0x%08x" % (name if type(name) is str else "table", id(v) & 0xFFFFFFFF)
    if t is LuaFunction:
        return "function: 0x%08x" % (id(v) & 0xFFFFFFFF)
    if t is Builtin:
        return "function: builtin: %s" % v.name
    if isinstance(v, LuaUserdata):
        return v.lua_tostring()
    return repr(v)


def tonumber(v):
    """number | numeric string -> number, else None."""
    t = type(v)
    if t is int or t is float:
        return v
    if t is str:
        return parse_number(v)
    return None


def tointeger(v, what=None):
    """Value -> Lua integer or raise (float with exact integer value and numeric strings convert)."""
    t = type(v)
    if t is int:
        return v
    n = tonumber(v)
    if n is None:
        raise LuaError("%snumber expected, got %s" % (what or "", "no value" if v is None else type_name(v)))
    if type(n) is float:
        if n != n or n in (math.inf, -math.inf) or not n.is_integer():
            raise LuaError("%snumber has no integer representation" % (what or ""))
        n = int(n)
    return n


def wrap64(r):
    r &= 0xFFFFFFFFFFFFFFFF
    return r - (1 << 64) if r >= (1 << 63) else r


def truthy(v):
    return v is not None and v is not False


def call_value(f, args):
    """Call any Lua value with a list of arguments -> list of results."""
    t = type(f)
    if t is LuaFunction:
        return f.invoke(args)
    if t is Builtin:
        try:
            r = f.fn(*args)
        except TypeError as e:
            if e.__traceback__.tb_next is None:
                raise LuaError("bad argument to '%s' (wrong number of arguments)" % f.name)
            raise
        if type(r) is tuple:
            return list(r)
        return [r]
    if t is LuaTable:
        mm = getmeta(f, "__call")
        if mm is not None:
            return call_value(mm, [f] + list(args))
    elif isinstance(f, LuaUserdata):
        r = f.lua_call(args)
        if type(r) is tuple:
            return list(r)
        return [r]
    raise LuaError("attempt to call a %s value" % type_name(f))


_STRING_LIB = LuaTable()      # filled by install_stdlib (shared: string methods s:upper())


def index_value(o, k):
    """o[k] with metamethods; raises LuaError (without variable info) when o cannot be indexed."""
    t = type(o)
    if t is LuaTable:
        tk = type(k)
        if tk is str or tk is int:
            v = o.d.get(k)
        else:
            v = o.get(k)
        if v is None and o.meta is not None:
            h = o.meta.d.get("__index")
            if h is not None:
                if type(h) is LuaTable:
                    return index_value(h, k)
                r = call_value(h, [o, k])
                return r[0] if r else None
        return v
    if t is str:
        return _STRING_LIB.d.get(k)
    if isinstance(o, LuaUserdata):
        return o.lua_index(k)
    raise LuaError("attempt to index a %s value" % type_name(o))


def setindex_value(o, k, v):
    t = type(o)
    if t is LuaTable:
        if o.meta is not None:
            h = o.meta.d.get("__newindex")
            if h is not None and o.get(k) is None:
                if type(h) is LuaTable:
                    return setindex_value(h, k, v)
                call_value(h, [o, k, v])
                return
        tk = type(k)
        if (tk is str or tk is int) and v is not None:
            o.d[k] = v
        else:
            o.set(k, v)
        return
    if isinstance(o, LuaUserdata):
        o.lua_newindex(k, v)
        return
    raise LuaError("attempt to index a %s value" % type_name(o))


def lua_eq(a, b):
    ta, tb = type(a), type(b)
    if ta is tb:
        if ta is str or ta is int or ta is float or ta is bool:
            return a == b
        if a is b:
            return True
        if ta is LuaTable:
            mm = getmeta(a, "__eq") or getmeta(b, "__eq")
            if mm is not None:
                r = call_value(mm, [a, b])
                return truthy(r[0] if r else None)
            return False
        if isinstance(a, LuaUserdata):
            return bool(a.lua_eq(b))
        return False
    if (ta is int and tb is float) or (ta is float and tb is int):
        return a == b
    if isinstance(a, LuaUserdata) and isinstance(b, LuaUserdata):
        return bool(a.lua_eq(b))
    return False


def lua_lt(a, b):
    ta, tb = type(a), type(b)
    if (ta is int or ta is float) and (tb is int or tb is float):
        return a < b
    if ta is str and tb is str:
        return a < b
    return _cmp_meta("__lt", "lua_lt", a, b)


def lua_le(a, b):
    ta, tb = type(a), type(b)
    if (ta is int or ta is float) and (tb is int or tb is float):
        return a <= b
    if ta is str and tb is str:
        return a <= b
    return _cmp_meta("__le", "lua_le", a, b)


def _cmp_meta(event, hook, a, b):
    mm = getmeta(a, event) or getmeta(b, event)
    if mm is not None:
        r = call_value(mm, [a, b])
        return truthy(r[0] if r else None)
    for o in (a, b):
        if isinstance(o, LuaUserdata):
            r = getattr(o, hook)(a, b)
            if r is not NotImplemented:
                return bool(r)
    t1, t2 = type_name(a), type_name(b)
    if t1 == t2:
        raise LuaError("attempt to compare two %s values" % t1)
    raise LuaError("attempt to compare %s with %s" % (t1, t2))


_ARITH_EVENT = {"+": "__add", "-": "__sub", "*": "__mul", "/": "__div", "%": "__mod", "^": "__pow", "//": "__idiv",
                "&": "__band", "|": "__bor", "~": "__bxor", "<<": "__shl", ">>": "__shr", "unm": "__unm", "bnot": "__bnot"}
_BITOPS = {"&", "|", "~", "<<", ">>", "bnot"}


def _shift_left(a, n):
    if n <= -64 or n >= 64:
        return 0
    if n >= 0:
        return wrap64(a << n)
    return wrap64((a & 0xFFFFFFFFFFFFFFFF) >> (-n))


def arith_numbers(op, a, b):
    """a, b are numbers (int/float)."""
    if op in _BITOPS:
        a = tointeger(a)
        b = tointeger(b)
        if op == "&":
            return wrap64(a & b)
        if op == "|":
            return wrap64(a | b)
        if op == "~":
            return wrap64(a ^ b)
        if op == "<<":
            return _shift_left(a, b)
        if op == ">>":
            return _shift_left(a, -b)
        return wrap64(~a)
    ints = type(a) is int and type(b) is int
    if op == "+":
        return wrap64(a + b) if ints else float(a) + float(b)
    if op == "-":
        return wrap64(a - b) if ints else float(a) - float(b)
    if op == "*":
        return wrap64(a * b) if ints else float(a) * float(b)
    if op == "/":
        a, b = float(a), float(b)
        if b == 0.0:
            if a == 0.0 or a != a:
                return math.nan
            return math.inf if (a > 0) == (math.copysign(1.0, b) > 0) else -math.inf
        return a / b
    if op == "%":
        if ints:
            if b == 0:
                raise LuaError("attempt to perform 'n%%0'")
            return a % b
        a, b = float(a), float(b)
        if b == 0.0 or a in (math.inf, -math.inf) or a != a or b != b:
            return math.nan
        if b in (math.inf, -math.inf):
            return a if (a >= 0) == (b > 0) or a == 0 else b
        return math.fmod(a, b) + (b if math.fmod(a, b) != 0 and (math.fmod(a, b) < 0) != (b < 0) else 0.0)
    if op == "//":
        if ints:
            if b == 0:
                raise LuaError("attempt to perform 'n//0'")
            return wrap64(a // b)
        a, b = float(a), float(b)
        if b == 0.0:
            return arith_numbers("/", a, b)
        return float(math.floor(a / b))
    if op == "^":
        try:
            return math.pow(float(a), float(b))
        except OverflowError:
            return math.inf
        except ValueError:
            return math.nan
    if op == "unm":
        return wrap64(-a) if type(a) is int else -a
    raise LuaError("unknown operator " + op)


def arith(op, a, b):
    """Binary (or unary: b is a) arithmetic with string coercion and metamethods.  Raises LuaError tagged with
    .operand = 0|1 so that the compiled code can add variable info."""
    na = a if type(a) in (int, float) else (tonumber(a) if type(a) is str and op not in _BITOPS else None)
    nb = b if type(b) in (int, float) else (tonumber(b) if type(b) is str and op not in _BITOPS else None)
    if op in _BITOPS:
        if type(a) is str:
            na = tonumber(a)
        if type(b) is str:
            nb = tonumber(b)
    if na is not None and nb is not None:
        return arith_numbers(op, na, nb)
    ev = _ARITH_EVENT[op]
    mm = getmeta(a, ev) or getmeta(b, ev)
    if mm is not None:
        r = call_value(mm, [a, b])
        return r[0] if r else None
    for o in (a, b):
        if isinstance(o, LuaUserdata):
            r = o.lua_arith(op, a, b)
            if r is not NotImplemented:
                return r
    bad, which = (b, 1) if na is not None else (a, 0)
    if op in _BITOPS:
        e = LuaError("attempt to perform bitwise operation on a %s value" % type_name(bad))
    else:
        e = LuaError("attempt to perform arithmetic on a %s value" % type_name(bad))
    e.operand = which
    raise e


def concat(a, b):
    ta, tb = type(a), type(b)
    if (ta is str or ta is int or ta is float) and (tb is str or tb is int or tb is float):
        return (a if ta is str else fmt_number(a)) + (b if tb is str else fmt_number(b))
    mm = getmeta(a, "__concat") or getmeta(b, "__concat")
    if mm is not None:
        r = call_value(mm, [a, b])
        return r[0] if r else None
    for o in (a, b):
        if isinstance(o, LuaUserdata):
            r = o.lua_concat(a, b)
            if r is not NotImplemented:
                return r
    bad, which = (a, 0) if not (ta is str or ta is int or ta is float) else (b, 1)
    e = LuaError("attempt to concatenate a %s value" % type_name(bad))
    e.operand = which
    raise e


def length(v):
    t = type(v)
    if t is str:
        return len(v)
    if t is LuaTable:
        mm = getmeta(v, "__len")
        if mm is not None:
            r = call_value(mm, [v])
            return r[0] if r else None
        return v.length()
    if isinstance(v, LuaUserdata):
        r = v.lua_len()
        if r is not NotImplemented:
            return r
    raise LuaError("attempt to get length of a %s value" % type_name(v))
