#!/usr/bin/env python3
"""A Lua 5.3-subset interpreter in pure Python (standard library only).

Purpose: run the Wireshark dissector scripts fin-protoc emits (no Lua interpreter is installed in the
sandbox).  Pipeline: tokenize -> Parser (recursive descent, resolves every name STATICALLY to
local / upvalue / global exactly as luac does: a local is visible only after its declaration
statement) -> Compiler (AST -> Python closures) -> run.

Values: nil=None, booleans=bool, integers=int (wrapped to 64 bit), floats=float, strings=str holding
one character per BYTE (latin-1 view of the bytes), tables=LuaTable, functions=LuaFunction/Builtin,
userdata=subclasses of LuaUserdata (the Wireshark stubs live in lua_wireshark.py).

Errors: LuaError (run-time error with a Lua-like message "chunk:line: attempt to call a nil value
(global 'f')"), LuaSyntaxError (malformed source), Unsupported (valid Lua outside the supported subset:
goto/labels/attribs at parse time, missing libraries at run time) -- the caller treats Unsupported as
an infrastructure limitation, not as a defect of the script.

CLI:  python3 lua_interp.py file.lua --hex 0102...   (dissect the bytes, print the recorded adds)
      python3 lua_interp.py file.lua                 (just run the chunk, show print() output)
"""
import math
import re
import sys
import threading

sys.setrecursionlimit(max(sys.getrecursionlimit(), 20000))


class LuaError(Exception):
    """A Lua run-time error.  .value is the Lua error value (normally a str)."""

    def __init__(self, value, positioned=False):
        Exception.__init__(self, value)
        self.value = value
        self.positioned = positioned
        self.traceback = []          # [(line, what)] innermost first

    def __str__(self):
        v = self.value
        return v if isinstance(v, str) else tostr(v)


class LuaSyntaxError(LuaError):
    def __init__(self, msg):
        LuaError.__init__(self, msg, True)


class Unsupported(Exception):
    """Construct / library outside the supported subset (not a defect of the script)."""


# =====================================================================================================
# Lexer

KEYWORDS = {"and", "break", "do", "else", "elseif", "end", "false", "for", "function", "goto", "if", "in",
            "local", "nil", "not", "or", "repeat", "return", "then", "true", "until", "while"}

_TOKEN_RE = re.compile(r"""
   (?P<ws>[ \t\r\f\v]+)
 | (?P<nl>\n)
 | (?P<comment>--)
 | (?P<name>[A-Za-z_][A-Za-z0-9_]*)
 | (?P<num>0[xX][0-9a-fA-F]*(?:\.[0-9a-fA-F]*)?(?:[pP][+-]?[0-9]+)?
         | (?:[0-9]+\.?[0-9]*|\.[0-9]+)(?:[eE][+-]?[0-9]+)?)
 | (?P<lstr>\[=*\[)
 | (?P<str>["'])
 | (?P<op>\.\.\.|\.\.|==|~=|<=|>=|<<|>>|//|::|[-+*/%^\#&~|<>=(){}\[\];:,.])
""", re.X)

_ESC = {"a": "\a", "b": "\b", "f": "\f", "n": "\n", "r": "\r", "t": "\t", "v": "\v", "\\": "\\", '"': '"', "'": "'", "\n": "\n"}


def _utf8_chars(cp):
    """UTF-8 encoding of a code point as a byte-per-char string (Lua allows up to 2^31)."""
    if cp < 0x80:
        return chr(cp)
    out = []
    first_max = 0x3F
    while cp > first_max:
        out.append(0x80 | (cp & 0x3F))
        cp >>= 6
        first_max >>= 1
    out.append(((~first_max << 1) & 0xFF) | cp)
    return "".join(chr(b) for b in reversed(out))


def parse_number(text):
    """Lua numeral -> int | float | None."""
    t = text.strip()
    if not t:
        return None
    neg = False
    s = t
    if s[0] in "+-":
        neg = s[0] == "-"
        s = s[1:]
    try:
        if s[:2] in ("0x", "0X"):
            body = s[2:]
            if not body:
                return None
            if re.fullmatch(r"[0-9a-fA-F]+", body):
                v = int(body, 16) & 0xFFFFFFFFFFFFFFFF
                if v >= 1 << 63:
                    v -= 1 << 64
            elif re.fullmatch(r"(?:[0-9a-fA-F]+\.?[0-9a-fA-F]*|\.[0-9a-fA-F]+)(?:[pP][+-]?[0-9]+)?", body):
                b = body if re.search(r"[pP]", body) else body + "p0"
                v = float.fromhex("0x" + b)
            else:
                return None
        elif re.fullmatch(r"[0-9]+", s):
            v = int(s)
            if v >= 1 << 63:
                v = float(v)
        elif re.fullmatch(r"(?:[0-9]+\.?[0-9]*|\.[0-9]+)(?:[eE][+-]?[0-9]+)?", s):
            v = float(s)
        else:
            return None
    except (ValueError, OverflowError):
        return None
    return -v if neg else v


def tokenize(src, chunk):
    """-> list of (tt, value, line); tt is 'name' | 'num' | 'str' | 'eof' | the keyword / operator itself."""
    toks = []
    pos, n, line = 0, len(src), 1
    if src.startswith("#"):                      # shebang line
        pos = src.find("\n")
        pos = n if pos < 0 else pos
    match = _TOKEN_RE.match

    def err(msg, near=None):
        raise LuaSyntaxError("%s:%d: %s%s" % (chunk, line, msg, " near '%s'" % near if near else ""))

    def long_bracket(p, level):
        """p is just after the opening bracket; -> (text, new pos)."""
        nonlocal line
        close = "]" + "=" * level + "]"
        e = src.find(close, p)
        if e < 0:
            err("unfinished long string/comment", "<eof>")
        text = src[p:e]
        line += text.count("\n")
        if text.startswith("\r\n"):
            text = text[2:]
        elif text.startswith("\n"):
            text = text[1:]
        return text, e + len(close)

    while pos < n:
        m = match(src, pos)
        if m is None:
            err("unexpected symbol", src[pos])
        kind = m.lastgroup
        if kind == "ws":
            pos = m.end()
        elif kind == "nl":
            line += 1
            pos = m.end()
        elif kind == "comment":
            p = m.end()
            lm = re.compile(r"\[(=*)\[").match(src, p)
            if lm:
                _, pos = long_bracket(lm.end(), len(lm.group(1)))
            else:
                e = src.find("\n", p)
                pos = n if e < 0 else e
        elif kind == "name":
            v = m.group()
            toks.append((v, v, line) if v in KEYWORDS else ("name", v, line))
            pos = m.end()
        elif kind == "num":
            text = m.group()
            pos = m.end()
            if pos < n and (src[pos].isalnum() or src[pos] == "_" or (src[pos] == "." and text != "..")):
                err("malformed number", text + src[pos])
            v = parse_number(text)
            if v is None:
                err("malformed number", text)
            toks.append(("num", v, line))
        elif kind == "lstr":
            l0 = line
            text, pos = long_bracket(m.end(), len(m.group()) - 2)
            toks.append(("str", text, l0))
        elif kind == "str":
            q = m.group()
            p = m.end()
            buf = []
            l0 = line
            while True:
                if p >= n:
                    err("unfinished string", "<eof>")
                c = src[p]
                if c == q:
                    p += 1
                    break
                if c == "\n":
                    err("unfinished string", q + "".join(buf))
                if c != "\\":
                    buf.append(c)
                    p += 1
                    continue
                p += 1
                if p >= n:
                    err("unfinished string", "<eof>")
                c = src[p]
                if c in _ESC:
                    buf.append(_ESC[c])
                    if c == "\n":
                        line += 1
                    p += 1
                elif c == "\r":
                    buf.append("\n")
                    line += 1
                    p += 2 if src[p + 1:p + 2] == "\n" else 1
                elif c == "x":
                    h = src[p + 1:p + 3]
                    if not re.fullmatch(r"[0-9a-fA-F]{2}", h):
                        err("hexadecimal digit expected", "\\x" + h)
                    buf.append(chr(int(h, 16)))
                    p += 3
                elif c == "z":
                    p += 1
                    while p < n and src[p] in " \t\r\n\f\v":
                        if src[p] == "\n":
                            line += 1
                        p += 1
                elif c.isdigit():
                    dm = re.compile(r"[0-9]{1,3}").match(src, p)
                    v = int(dm.group())
                    if v > 255:
                        err("decimal escape too large", "\\" + dm.group())
                    buf.append(chr(v))
                    p = dm.end()
                elif c == "u":
                    um = re.compile(r"u\{([0-9a-fA-F]+)\}").match(src, p)
                    if not um:
                        err("missing '{' in \\u{xxxx}", "\\u")
                    buf.append(_utf8_chars(int(um.group(1), 16)))
                    p = um.end()
                else:
                    err("invalid escape sequence", "\\" + c)
            toks.append(("str", "".join(buf), l0))
            pos = p
        else:
            v = m.group()
            toks.append((v, v, line))
            pos = m.end()
    toks.append(("eof", "<eof>", line))
    return toks


# =====================================================================================================
# AST + parser with static name resolution

class N:
    """AST node: kind + line + free attributes."""

    def __init__(self, kind, line, **kw):
        self.kind = kind
        self.line = line
        self.__dict__.update(kw)

    def __repr__(self):
        return "N(%s)" % ", ".join("%s=%r" % kv for kv in self.__dict__.items())


class VarInfo:
    __slots__ = ("name", "slot", "captured")

    def __init__(self, name, slot):
        self.name = name
        self.slot = slot
        self.captured = False


class FuncState:
    def __init__(self, parent, name, line):
        self.parent = parent
        self.name = name
        self.line = line
        self.scopes = [{}]
        self.nslots = 0              # slot 0 of a frame holds the closure's upvalue cells
        self.upvals = []             # [(name, in_parent_stack, index)]
        self.upidx = {}
        self.params = []
        self.is_vararg = False
        self.vararg_slot = 0
        self.loops = 0

    def declare(self, name):
        self.nslots += 1
        v = VarInfo(name, self.nslots)
        self.scopes[-1][name] = v
        return v

    def new_slot(self):
        self.nslots += 1
        return self.nslots

    def find_local(self, name):
        for sc in reversed(self.scopes):
            v = sc.get(name)
            if v is not None:
                return v
        return None

    def find_upval(self, name):
        i = self.upidx.get(name)
        if i is not None:
            return i
        if self.parent is None:
            return None
        v = self.parent.find_local(name)
        if v is not None:
            v.captured = True
            desc = (name, True, v.slot)
        else:
            j = self.parent.find_upval(name)
            if j is None:
                return None
            desc = (name, False, j)
        self.upvals.append(desc)
        self.upidx[name] = len(self.upvals) - 1
        return self.upidx[name]


UNARY_PRI = 12
BINPRI = {"or": (1, 1), "and": (2, 2), "<": (3, 3), ">": (3, 3), "<=": (3, 3), ">=": (3, 3), "~=": (3, 3), "==": (3, 3),
          "|": (4, 4), "~": (5, 5), "&": (6, 6), "<<": (7, 7), ">>": (7, 7), "..": (9, 8), "+": (10, 10), "-": (10, 10),
          "*": (11, 11), "/": (11, 11), "//": (11, 11), "%": (11, 11), "^": (14, 13)}
BLOCK_END = {"eof", "end", "else", "elseif", "until"}


class Parser:
    def __init__(self, src, chunk):
        self.chunk = chunk
        self.toks = tokenize(src, chunk)
        self.p = 0
        self.tt, self.tv, self.line = self.toks[0]
        self.fs = None

    # ---- token helpers
    def next(self):
        self.p += 1
        self.tt, self.tv, self.line = self.toks[self.p]

    def peek(self):
        return self.toks[self.p + 1][0] if self.p + 1 < len(self.toks) else "eof"

    def error(self, msg, line=None):
        near = self.tv if self.tt != "str" else self.tv[:20]
        raise LuaSyntaxError("%s:%d: %s near '%s'" % (self.chunk, line or self.line, msg, near))

    def accept(self, tt):
        if self.tt == tt:
            self.next()
            return True
        return False

    def expect(self, tt, opener=None, oline=None):
        if self.tt != tt:
            if opener and oline != self.line:
                self.error("'%s' expected (to close '%s' at line %d)" % (tt, opener, oline))
            self.error("'%s' expected" % tt)
        self.next()

    def name(self):
        if self.tt != "name":
            self.error("<name> expected")
        v = self.tv
        self.next()
        return v

    # ---- chunk / blocks
    def parse_chunk(self):
        fs = FuncState(None, "main chunk", 0)
        fs.is_vararg = True
        fs.vararg_slot = fs.new_slot()
        self.fs = fs
        body = self.block()
        if self.tt != "eof":
            self.error("'<eof>' expected")
        return N("function", 0, fs=fs, body=body, name="main chunk")

    def block(self, scope=True):
        fs = self.fs
        if scope:
            fs.scopes.append({})
        stmts = []
        while self.tt not in BLOCK_END:
            if self.tt == "return":
                stmts.append(self.retstat())
                break
            s = self.statement()
            if s is not None:
                stmts.append(s)
        if scope:
            fs.scopes.pop()
        return stmts

    def retstat(self):
        line = self.line
        self.next()
        exprs = []
        if self.tt not in BLOCK_END and self.tt != ";":
            exprs = self.explist()
        self.accept(";")
        if self.tt not in BLOCK_END:
            self.error("'<eof>' expected" if self.fs.parent is None else "'end' expected")
        return N("return", line, exprs=exprs)

    def statement(self):
        tt, line = self.tt, self.line
        fs = self.fs
        if tt == ";":
            self.next()
            return None
        if tt == "if":
            return self.ifstat()
        if tt == "while":
            self.next()
            cond = self.expr()
            self.expect("do")
            fs.loops += 1
            body = self.block()
            fs.loops -= 1
            self.expect("end", "while", line)
            return N("while", line, cond=cond, body=body)
        if tt == "do":
            self.next()
            body = self.block()
            self.expect("end", "do", line)
            return N("do", line, body=body)
        if tt == "for":
            return self.forstat()
        if tt == "repeat":
            self.next()
            fs.scopes.append({})
            fs.loops += 1
            body = self.block(scope=False)
            fs.loops -= 1
            self.expect("until", "repeat", line)
            cond = self.expr()           # sees the body's locals
            fs.scopes.pop()
            return N("repeat", line, cond=cond, body=body)
        if tt == "function":
            return self.funcstat()
        if tt == "local":
            self.next()
            if self.accept("function"):
                nm = self.name()
                var = fs.declare(nm)     # visible inside its own body
                fn = self.funcbody(nm, line, False)
                return N("localfunction", line, var=var, fn=fn)
            names = [self.name()]
            if self.tt == "<":
                raise Unsupported("%s:%d: local attribs (<const>/<close>) are not supported" % (self.chunk, self.line))
            while self.accept(","):
                names.append(self.name())
                if self.tt == "<":
                    raise Unsupported("%s:%d: local attribs (<const>/<close>) are not supported" % (self.chunk, self.line))
            exprs = self.explist() if self.accept("=") else []
            vars_ = [fs.declare(nm) for nm in names]      # active only AFTER the expressions
            return N("local", line, vars=vars_, exprs=exprs)
        if tt == "return":
            return self.retstat()
        if tt == "break":
            self.next()
            if fs.loops == 0:
                self.error("break outside a loop at line %d" % line)
            return N("break", line)
        if tt == "goto":
            raise Unsupported("%s:%d: goto is not supported" % (self.chunk, line))
        if tt == "::":
            raise Unsupported("%s:%d: labels are not supported" % (self.chunk, line))
        return self.exprstat()

    def ifstat(self):
        line = self.line
        clauses = []
        self.next()
        cond = self.expr()
        self.expect("then")
        clauses.append((cond, self.block()))
        orelse = None
        while True:
            if self.tt == "elseif":
                self.next()
                cond = self.expr()
                self.expect("then")
                clauses.append((cond, self.block()))
            elif self.tt == "else":
                self.next()
                orelse = self.block()
                self.expect("end", "if", line)
                break
            else:
                self.expect("end", "if", line)
                break
        return N("if", line, clauses=clauses, orelse=orelse)

    def forstat(self):
        fs = self.fs
        line = self.line
        self.next()
        n1 = self.name()
        if self.tt == "=":
            self.next()
            start = self.expr()
            self.expect(",")
            limit = self.expr()
            step = self.expr() if self.accept(",") else None
            self.expect("do")
            fs.scopes.append({})
            var = fs.declare(n1)
            fs.loops += 1
            body = self.block()
            fs.loops -= 1
            fs.scopes.pop()
            self.expect("end", "for", line)
            return N("numfor", line, var=var, start=start, limit=limit, step=step, body=body)
        names = [n1]
        while self.accept(","):
            names.append(self.name())
        if self.tt != "in":
            self.error("'=' or 'in' expected")
        self.next()
        exprs = self.explist()
        self.expect("do")
        fs.scopes.append({})
        vars_ = [fs.declare(nm) for nm in names]
        fs.loops += 1
        body = self.block()
        fs.loops -= 1
        fs.scopes.pop()
        self.expect("end", "for", line)
        return N("genfor", line, vars=vars_, exprs=exprs, body=body)

    def funcstat(self):
        line = self.line
        self.next()
        nm = self.name()
        target = self.var_ref(nm, line)
        full = nm
        is_method = False
        while self.tt in (".", ":"):
            sep = self.tt
            self.next()
            kline = self.line
            key = self.name()
            full += sep + key
            target = N("index", kline, obj=target, key=N("const", kline, value=key))
            if sep == ":":
                is_method = True
                break
        fn = self.funcbody(full, line, is_method)
        return N("assign", line, targets=[target], exprs=[fn])

    def exprstat(self):
        line = self.line
        e = self.suffixedexp()
        if self.tt in ("=", ","):
            targets = [e]
            while self.accept(","):
                targets.append(self.suffixedexp())
            for t in targets:
                if t.kind not in ("local", "upval", "global", "index"):
                    self.error("syntax error")
            self.expect("=")
            exprs = self.explist()
            return N("assign", line, targets=targets, exprs=exprs)
        if e.kind not in ("call", "method"):
            self.error("syntax error")
        return N("callstat", line, call=e)

    # ---- expressions
    def explist(self):
        out = [self.expr()]
        while self.accept(","):
            out.append(self.expr())
        return out

    def var_ref(self, nm, line):
        fs = self.fs
        v = fs.find_local(nm)
        if v is not None:
            return N("local", line, var=v, name=nm)
        i = fs.find_upval(nm)
        if i is not None:
            return N("upval", line, idx=i, name=nm)
        return N("global", line, name=nm)

    def expr(self, limit=0):
        tt, line = self.tt, self.line
        if tt in ("not", "-", "#", "~"):
            self.next()
            operand = self.expr(UNARY_PRI)
            if tt == "-" and operand.kind == "const" and type(operand.value) in (int, float):
                v = operand.value
                e = N("const", line, value=(-v if type(v) is float or v != -(1 << 63) else v))
            else:
                e = N("unop", line, op=tt, operand=operand)
        else:
            e = self.simpleexp()
        while True:
            op = self.tt
            pri = BINPRI.get(op)
            if pri is None or pri[0] <= limit:
                break
            line = self.line
            self.next()
            rhs = self.expr(pri[1])
            if op == "and":
                e = N("and", line, left=e, right=rhs)
            elif op == "or":
                e = N("or", line, left=e, right=rhs)
            else:
                e = N("binop", line, op=op, left=e, right=rhs)
        return e

    def simpleexp(self):
        tt, line = self.tt, self.line
        if tt == "num" or tt == "str":
            v = self.tv
            self.next()
            return N("const", line, value=v)
        if tt == "nil":
            self.next()
            return N("const", line, value=None)
        if tt == "true":
            self.next()
            return N("const", line, value=True)
        if tt == "false":
            self.next()
            return N("const", line, value=False)
        if tt == "...":
            if not self.fs.is_vararg:
                self.error("cannot use '...' outside a vararg function")
            self.next()
            return N("vararg", line, vslot=self.fs.vararg_slot)
        if tt == "{":
            return self.table()
        if tt == "function":
            self.next()
            return self.funcbody(None, line, False)
        return self.suffixedexp()

    def primaryexp(self):
        tt, line = self.tt, self.line
        if tt == "name":
            nm = self.tv
            self.next()
            return self.var_ref(nm, line)
        if tt == "(":
            self.next()
            e = self.expr()
            self.expect(")", "(", line)
            if e.kind in ("call", "method", "vararg"):
                return N("paren", line, inner=e)
            return e
        self.error("unexpected symbol")

    def suffixedexp(self):
        e = self.primaryexp()
        while True:
            tt, line = self.tt, self.line
            if tt == ".":
                self.next()
                key = self.name()
                e = N("index", line, obj=e, key=N("const", line, value=key))
            elif tt == "[":
                self.next()
                key = self.expr()
                self.expect("]")
                e = N("index", line, obj=e, key=key)
            elif tt == ":":
                self.next()
                nm = self.name()
                args = self.callargs()
                e = N("method", line, obj=e, name=nm, args=args)
            elif tt in ("(", "{", "str"):
                args = self.callargs()
                e = N("call", line, fn=e, args=args)
            else:
                return e

    def callargs(self):
        tt, line = self.tt, self.line
        if tt == "str":
            v = self.tv
            self.next()
            return [N("const", line, value=v)]
        if tt == "{":
            return [self.table()]
        if tt != "(":
            self.error("function arguments expected")
        self.next()
        if self.accept(")"):
            return []
        args = self.explist()
        self.expect(")", "(", line)
        return args

    def table(self):
        line = self.line
        self.expect("{")
        items = []                       # ("pos", expr) | ("kv", keyexpr, valexpr)
        while self.tt != "}":
            if self.tt == "name" and self.peek() == "=":
                kl = self.line
                key = self.name()
                self.next()
                items.append(("kv", N("const", kl, value=key), self.expr()))
            elif self.tt == "[":
                self.next()
                key = self.expr()
                self.expect("]")
                self.expect("=")
                items.append(("kv", key, self.expr()))
            else:
                items.append(("pos", self.expr()))
            if not (self.accept(",") or self.accept(";")):
                break
        self.expect("}", "{", line)
        return N("table", line, items=items)

    def funcbody(self, name, line, is_method):
        fs = FuncState(self.fs, name, line)
        self.fs = fs
        if is_method:
            fs.params.append(fs.declare("self"))
        self.expect("(")
        if self.tt != ")":
            while True:
                if self.tt == "...":
                    self.next()
                    fs.is_vararg = True
                    fs.vararg_slot = fs.new_slot()
                    break
                fs.params.append(fs.declare(self.name()))
                if not self.accept(","):
                    break
        self.expect(")")
        body = self.block(scope=False)
        self.expect("end", "function", line)
        self.fs = fs.parent
        return N("function", line, fs=fs, body=body, name=name)


# =====================================================================================================
# Run-time values

class _BoolKey:
    """Table keys true/false (Python's True == 1 would collide with the integer key 1)."""

    def __init__(self, v):
        self.v = v


_TRUE_KEY, _FALSE_KEY = _BoolKey(True), _BoolKey(False)


def _norm_key(k):
    """Key normalisation for the rare key types (callers handle str/int inline)."""
    t = type(k)
    if t is bool:
        return _TRUE_KEY if k else _FALSE_KEY
    if t is float:
        if k != k:
            return None
        if k.is_integer() and abs(k) < 9.3e18:
            return int(k)
    return k


class LuaTable:
    __slots__ = ("d", "meta", "_nk", "_ni")

    def __init__(self):
        self.d = {}
        self.meta = None
        self._nk = None
        self._ni = None

    def get(self, k):
        t = type(k)
        if t is not str and t is not int:
            k = _norm_key(k)
            if k is None:
                return None
        return self.d.get(k)

    def set(self, k, v):
        t = type(k)
        if t is not str and t is not int:
            if k is None:
                raise LuaError("table index is nil")
            k = _norm_key(k)
            if k is None:
                raise LuaError("table index is NaN")
        if v is None:
            self.d.pop(k, None)
        else:
            self.d[k] = v

    def length(self):
        d = self.d
        n = len(d)
        if n == 0:
            return 0
        if n in d and (n + 1) not in d:
            return n
        i = 0
        while (i + 1) in d:
            i += 1
        return i

    def next(self, k):
        """Successor of key k in traversal order -> (key, value) or None at the end."""
        d = self.d
        if k is None or self._nk is None or (k if type(k) in (str, int) else _norm_key(k)) not in self._ni:
            self._nk = list(d)
            self._ni = {key: i for i, key in enumerate(self._nk)}
        if k is None:
            i = 0
        else:
            kk = k if type(k) in (str, int) else _norm_key(k)
            if kk not in self._ni:
                raise LuaError("invalid key to 'next'")
            i = self._ni[kk] + 1
        nk = self._nk
        while i < len(nk):
            key = nk[i]
            v = d.get(key)
            if v is not None:
                if type(key) is _BoolKey:
                    key = key.v
                return key, v
            i += 1
        return None

    def items(self):
        for key, v in list(self.d.items()):
            if key in self.d:
                yield (key.v if type(key) is _BoolKey else key), self.d[key]


class FuncProto:
    __slots__ = ("nslots", "params", "is_vararg", "vararg_slot", "nparams", "updescs", "body", "name", "line", "interp")


class LuaFunction:
    __slots__ = ("proto", "upvals")

    def __init__(self, proto, upvals):
        self.proto = proto
        self.upvals = upvals

    def invoke(self, args):
        """args: list -> list of results."""
        p = self.proto
        it = p.interp
        fr = [None] * (p.nslots + 1)
        fr[0] = self.upvals
        n = len(args)
        i = 0
        for slot, captured in p.params:
            v = args[i] if i < n else None
            fr[slot] = [v] if captured else v
            i += 1
        if p.is_vararg:
            fr[p.vararg_slot] = args[p.nparams:]
        it.steps += 1
        if it.steps > it.max_steps:
            raise LuaError("step limit exceeded (%d)" % it.max_steps)
        it.depth += 1
        if it.depth > it.max_depth:
            it.depth -= 1
            raise LuaError("stack overflow")
        try:
            r = p.body(fr)
        except RecursionError:
            raise LuaError("stack overflow")
        finally:
            it.depth -= 1
        return r if r is not None else []


class Builtin:
    """A host function.  fn(*args) returns a single value, or a tuple of values (() = no value)."""
    __slots__ = ("fn", "name")

    def __init__(self, fn, name=None):
        self.fn = fn
        self.name = name or getattr(fn, "__name__", "?")


class LuaUserdata:
    """Base of host objects.  METHODS: name -> Builtin(fn(self, ...)).  Hooks may be overridden."""
    METHODS = {}
    TYPENAME = "userdata"

    def lua_index(self, k):
        return self.METHODS.get(k)

    def lua_newindex(self, k, v):
        raise LuaError("attempt to index a %s value" % self.TYPENAME)

    def lua_call(self, args):
        raise LuaError("attempt to call a userdata value")

    def lua_tostring(self):
        return "%s: 0x%08x" % (self.TYPENAME, id(self) & 0xFFFFFFFF)

    def lua_arith(self, op, a, b):
        return NotImplemented

    def lua_concat(self, a, b):
        return NotImplemented

    def lua_eq(self, other):
        return self is other

    def lua_lt(self, a, b):
        return NotImplemented

    def lua_le(self, a, b):
        return NotImplemented

    def lua_len(self):
        return NotImplemented


def methods(cls):
    """Class decorator: every function named m_xxx becomes METHODS['xxx']."""
    ms = dict(cls.METHODS)
    for k in dir(cls):
        v = getattr(cls, k)
        if k.startswith("m_") and callable(v):
            ms[k[2:]] = Builtin(v, k[2:])
    cls.METHODS = ms
    return cls


# =====================================================================================================
# Run-time helpers (module level: metatables live on the values, interpreter state on FuncProto.interp)

def type_name(v):
    if v is None:
        return "nil"
    t = type(v)
    if t is bool:
        return "boolean"
    if t is int or t is float:
        return "number"
    if t is str:
        return "string"
    if t is LuaTable:
        return "table"
    if t is LuaFunction or t is Builtin:
        return "function"
    return "userdata"


def fmt_number(v):
    if type(v) is int:
        return "%d" % v
    if v != v:
        return "nan" if math.copysign(1.0, v) > 0 else "-nan"
    if v in (math.inf, -math.inf):
        return "inf" if v > 0 else "-inf"
    s = "%.14g" % v
    if "." not in s and "e" not in s and "n" not in s:
        s += ".0"
    return s


def getmeta(v, event):
    if type(v) is LuaTable and v.meta is not None:
        return v.meta.d.get(event)
    return None


def tostr(v):
    if v is None:
        return "nil"
    t = type(v)
    if t is str:
        return v
    if t is bool:
        return "true" if v else "false"
    if t is int or t is float:
        return fmt_number(v)
    if t is LuaTable:
        mm = getmeta(v, "__tostring")
        if mm is not None:
            r = call_value(mm, [v])
            r = r[0] if r else None
            if type(r) is not str:
                if type(r) in (int, float):
                    return fmt_number(r)
                raise LuaError("'__tostring' must return a string")
            return r
        name = getmeta(v, "__name")
        return "%s: 0x%08x" % (name if type(name) is str else "table", id(v) & 0xFFFFFFFF)
    if t is LuaFunction:
        return "function: 0x%08x" % (id(v) & 0xFFFFFFFF)
    if t is Builtin:
        return "function: builtin: %s" % v.name
    if isinstance(v, LuaUserdata):
        return v.lua_tostring()
    return repr(v)


def tonumber(v):
    """number | numeric string -> number, else None."""
    t = type(v)
    if t is int or t is float:
        return v
    if t is str:
        return parse_number(v)
    return None


def tointeger(v, what=None):
    """Value -> Lua integer or raise (float with exact integer value and numeric strings convert)."""
    t = type(v)
    if t is int:
        return v
    n = tonumber(v)
    if n is None:
        raise LuaError("%snumber expected, got %s" % (what or "", "no value" if v is None else type_name(v)))
    if type(n) is float:
        if n != n or n in (math.inf, -math.inf) or not n.is_integer():
            raise LuaError("%snumber has no integer representation" % (what or ""))
        n = int(n)
    return n


def wrap64(r):
    r &= 0xFFFFFFFFFFFFFFFF
    return r - (1 << 64) if r >= (1 << 63) else r


def truthy(v):
    return v is not None and v is not False


def call_value(f, args):
    """Call any Lua value with a list of arguments -> list of results."""
    t = type(f)
    if t is LuaFunction:
        return f.invoke(args)
    if t is Builtin:
        try:
            r = f.fn(*args)
        except TypeError as e:
            if e.__traceback__.tb_next is None:
                raise LuaError("bad argument to '%s' (wrong number of arguments)" % f.name)
            raise
        if type(r) is tuple:
            return list(r)
        return [r]
    if t is LuaTable:
        mm = getmeta(f, "__call")
        if mm is not None:
            return call_value(mm, [f] + list(args))
    elif isinstance(f, LuaUserdata):
        r = f.lua_call(args)
        if type(r) is tuple:
            return list(r)
        return [r]
    raise LuaError("attempt to call a %s value" % type_name(f))


_STRING_LIB = LuaTable()      # filled once by install_stdlib (shared: string methods s:upper())
_STRING_LIB_LOCK = threading.Lock()


def index_value(o, k):
    """o[k] with metamethods; raises LuaError (without variable info) when o cannot be indexed."""
    t = type(o)
    if t is LuaTable:
        tk = type(k)
        if tk is str or tk is int:
            v = o.d.get(k)
        else:
            v = o.get(k)
        if v is None and o.meta is not None:
            h = o.meta.d.get("__index")
            if h is not None:
                if type(h) is LuaTable:
                    return index_value(h, k)
                r = call_value(h, [o, k])
                return r[0] if r else None
        return v
    if t is str:
        return _STRING_LIB.d.get(k)
    if isinstance(o, LuaUserdata):
        return o.lua_index(k)
    raise LuaError("attempt to index a %s value" % type_name(o))


def setindex_value(o, k, v):
    t = type(o)
    if t is LuaTable:
        if o.meta is not None:
            h = o.meta.d.get("__newindex")
            if h is not None and o.get(k) is None:
                if type(h) is LuaTable:
                    return setindex_value(h, k, v)
                call_value(h, [o, k, v])
                return
        tk = type(k)
        if (tk is str or tk is int) and v is not None:
            o.d[k] = v
        else:
            o.set(k, v)
        return
    if isinstance(o, LuaUserdata):
        o.lua_newindex(k, v)
        return
    raise LuaError("attempt to index a %s value" % type_name(o))


def lua_eq(a, b):
    ta, tb = type(a), type(b)
    if ta is tb:
        if ta is str or ta is int or ta is float or ta is bool:
            return a == b
        if a is b:
            return True
        if ta is LuaTable:
            mm = getmeta(a, "__eq") or getmeta(b, "__eq")
            if mm is not None:
                r = call_value(mm, [a, b])
                return truthy(r[0] if r else None)
            return False
        if isinstance(a, LuaUserdata):
            return bool(a.lua_eq(b))
        return False
    if (ta is int and tb is float) or (ta is float and tb is int):
        return a == b
    if isinstance(a, LuaUserdata) and isinstance(b, LuaUserdata):
        return bool(a.lua_eq(b))
    return False


def lua_lt(a, b):
    ta, tb = type(a), type(b)
    if (ta is int or ta is float) and (tb is int or tb is float):
        return a < b
    if ta is str and tb is str:
        return a < b
    return _cmp_meta("__lt", "lua_lt", a, b)


def lua_le(a, b):
    ta, tb = type(a), type(b)
    if (ta is int or ta is float) and (tb is int or tb is float):
        return a <= b
    if ta is str and tb is str:
        return a <= b
    return _cmp_meta("__le", "lua_le", a, b)


def _cmp_meta(event, hook, a, b):
    mm = getmeta(a, event) or getmeta(b, event)
    if mm is not None:
        r = call_value(mm, [a, b])
        return truthy(r[0] if r else None)
    for o in (a, b):
        if isinstance(o, LuaUserdata):
            r = getattr(o, hook)(a, b)
            if r is not NotImplemented:
                return bool(r)
    t1, t2 = type_name(a), type_name(b)
    if t1 == t2:
        raise LuaError("attempt to compare two %s values" % t1)
    raise LuaError("attempt to compare %s with %s" % (t1, t2))


_ARITH_EVENT = {"+": "__add", "-": "__sub", "*": "__mul", "/": "__div", "%": "__mod", "^": "__pow", "//": "__idiv",
                "&": "__band", "|": "__bor", "~": "__bxor", "<<": "__shl", ">>": "__shr", "unm": "__unm", "bnot": "__bnot"}
_BITOPS = {"&", "|", "~", "<<", ">>", "bnot"}


def _shift_left(a, n):
    if n <= -64 or n >= 64:
        return 0
    if n >= 0:
        return wrap64(a << n)
    return wrap64((a & 0xFFFFFFFFFFFFFFFF) >> (-n))


def arith_numbers(op, a, b):
    """a, b are numbers (int/float)."""
    if op in _BITOPS:
        a = tointeger(a)
        b = tointeger(b)
        if op == "&":
            return wrap64(a & b)
        if op == "|":
            return wrap64(a | b)
        if op == "~":
            return wrap64(a ^ b)
        if op == "<<":
            return _shift_left(a, b)
        if op == ">>":
            return _shift_left(a, -b)
        return wrap64(~a)
    ints = type(a) is int and type(b) is int
    if op == "+":
        return wrap64(a + b) if ints else float(a) + float(b)
    if op == "-":
        return wrap64(a - b) if ints else float(a) - float(b)
    if op == "*":
        return wrap64(a * b) if ints else float(a) * float(b)
    if op == "/":
        a, b = float(a), float(b)
        if b == 0.0:
            if a == 0.0 or a != a:
                return math.nan
            return math.inf if (a > 0) == (math.copysign(1.0, b) > 0) else -math.inf
        return a / b
    if op == "%":
        if ints:
            if b == 0:
                raise LuaError("attempt to perform 'n%%0'")
            return a % b
        a, b = float(a), float(b)
        if b == 0.0:
            return math.nan
        return a % b                 # Python's float % has Lua's sign-of-divisor semantics
    if op == "//":
        if ints:
            if b == 0:
                raise LuaError("attempt to perform 'n//0'")
            return wrap64(a // b)
        a, b = float(a), float(b)
        if b == 0.0:
            return arith_numbers("/", a, b)
        return float(math.floor(a / b))
    if op == "^":
        try:
            return math.pow(float(a), float(b))
        except OverflowError:
            return math.inf
        except ValueError:
            return math.nan
    if op == "unm":
        return wrap64(-a) if type(a) is int else -a
    raise LuaError("unknown operator " + op)


def arith(op, a, b):
    """Binary (or unary: b is a) arithmetic with string coercion and metamethods.  Raises LuaError tagged with
    .operand = 0|1 so that the compiled code can add variable info."""
    na = a if type(a) in (int, float) else (tonumber(a) if type(a) is str and op not in _BITOPS else None)
    nb = b if type(b) in (int, float) else (tonumber(b) if type(b) is str and op not in _BITOPS else None)
    if op in _BITOPS:
        if type(a) is str:
            na = tonumber(a)
        if type(b) is str:
            nb = tonumber(b)
    if na is not None and nb is not None:
        return arith_numbers(op, na, nb)
    ev = _ARITH_EVENT[op]
    mm = getmeta(a, ev) or getmeta(b, ev)
    if mm is not None:
        r = call_value(mm, [a, b])
        return r[0] if r else None
    for o in (a, b):
        if isinstance(o, LuaUserdata):
            r = o.lua_arith(op, a, b)
            if r is not NotImplemented:
                return r
    bad, which = (b, 1) if na is not None else (a, 0)
    if op in _BITOPS:
        e = LuaError("attempt to perform bitwise operation on a %s value" % type_name(bad))
    else:
        e = LuaError("attempt to perform arithmetic on a %s value" % type_name(bad))
    e.operand = which
    raise e


def concat(a, b):
    ta, tb = type(a), type(b)
    if (ta is str or ta is int or ta is float) and (tb is str or tb is int or tb is float):
        return (a if ta is str else fmt_number(a)) + (b if tb is str else fmt_number(b))
    mm = getmeta(a, "__concat") or getmeta(b, "__concat")
    if mm is not None:
        r = call_value(mm, [a, b])
        return r[0] if r else None
    for o in (a, b):
        if isinstance(o, LuaUserdata):
            r = o.lua_concat(a, b)
            if r is not NotImplemented:
                return r
    bad, which = (a, 0) if not (ta is str or ta is int or ta is float) else (b, 1)
    e = LuaError("attempt to concatenate a %s value" % type_name(bad))
    e.operand = which
    raise e


def length(v):
    t = type(v)
    if t is str:
        return len(v)
    if t is LuaTable:
        mm = getmeta(v, "__len")
        if mm is not None:
            r = call_value(mm, [v])
            return r[0] if r else None
        return v.length()
    if isinstance(v, LuaUserdata):
        r = v.lua_len()
        if r is not NotImplemented:
            return r
    raise LuaError("attempt to get length of a %s value" % type_name(v))


# =====================================================================================================
# Compiler: AST -> Python closures.  Expression closures take the frame and return ONE value; "multi"
# closures return a list of values.  Statement closures return None (fall through), BREAK, or a list (return).

BREAK = object()
_NUM = (int, float)


def describe(node):
    """Variable info for error messages, as luaG_typeerror gives it."""
    k = node.kind
    if k == "local":
        return " (local '%s')" % node.name
    if k == "upval":
        return " (upvalue '%s')" % node.name
    if k == "global":
        return " (global '%s')" % node.name
    if k == "index" and node.key.kind == "const" and type(node.key.value) is str:
        return " (field '%s')" % node.key.value
    if k == "method":
        return " (method '%s')" % node.name
    if k == "const" and type(node.value) is str:
        return " (constant '%s')" % node.value[:40]
    return ""


class Compiler:
    def __init__(self, interp):
        self.it = interp
        self.chunk = interp.chunk

    def err(self, line, msg):
        e = LuaError("%s:%d: %s" % (self.chunk, line, msg), True)
        e.traceback.append((line, msg))
        return e

    def position(self, e, line, what=""):
        """Give a LuaError raised by a helper / builtin the position of the calling Lua code."""
        if not e.positioned:
            if isinstance(e.value, str):
                e.value = "%s:%d: %s" % (self.chunk, line, e.value)
                e.args = (e.value,)
            e.positioned = True
        e.traceback.append((line, what))
        return e

    # ---------------------------------------------------------------- functions
    def function(self, node):
        fs = node.fs
        proto = FuncProto()
        proto.nslots = fs.nslots
        proto.params = [(v.slot, v.captured) for v in fs.params]
        proto.nparams = len(fs.params)
        proto.is_vararg = fs.is_vararg
        proto.vararg_slot = fs.vararg_slot
        proto.updescs = [(instack, idx) for _, instack, idx in fs.upvals]
        proto.name = node.name or "anonymous"
        proto.line = node.line
        proto.interp = self.it
        self.cur_fs = fs
        proto.body = self.block(node.body)
        return proto

    def c_function(self, node):
        saved = getattr(self, "cur_fs", None)
        proto = self.function(node)
        self.cur_fs = saved
        descs = proto.updescs
        if not descs:
            return lambda fr: LuaFunction(proto, [])

        def mk(fr):
            return LuaFunction(proto, [fr[i] if instack else fr[0][i] for instack, i in descs])
        return mk

    # ---------------------------------------------------------------- blocks / statements
    def block(self, stmts):
        fns = [self.stmt(s) for s in stmts]
        if not fns:
            return lambda fr: None
        if len(fns) == 1:
            return fns[0]
        if len(fns) == 2:
            a, b = fns

            def block2(fr):
                r = a(fr)
                if r is not None:
                    return r
                return b(fr)
            return block2

        def block(fr):
            for s in fns:
                r = s(fr)
                if r is not None:
                    return r
            return None
        return block

    def stmt(self, node):
        return getattr(self, "s_" + node.kind)(node)

    def store(self, var):
        """closure (fr, value) declaring a NEW local (fresh cell if captured)."""
        slot = var.slot
        if var.captured:
            def st(fr, v):
                fr[slot] = [v]
        else:
            def st(fr, v):
                fr[slot] = v
        return st

    def s_local(self, node):
        vars_, exprs = node.vars, node.exprs
        if len(vars_) == 1 and len(exprs) == 1:
            e = self.expr(exprs[0])
            slot = vars_[0].slot
            if vars_[0].captured:
                def local1c(fr):
                    fr[slot] = [e(fr)]
                return local1c

            def local1(fr):
                fr[slot] = e(fr)
            return local1
        stores = [self.store(v) for v in vars_]
        if not exprs:
            def localnil(fr):
                for st in stores:
                    st(fr, None)
            return localnil
        ml = self.multi(exprs)
        nv = len(stores)

        def localn(fr):
            vals = ml(fr)
            n = len(vals)
            for i in range(nv):
                stores[i](fr, vals[i] if i < n else None)
        return localn

    def s_localfunction(self, node):
        mk = self.c_function(node.fn)
        slot = node.var.slot
        if node.var.captured:
            def lf(fr):
                cell = [None]
                fr[slot] = cell
                cell[0] = mk(fr)
        else:
            def lf(fr):
                fr[slot] = mk(fr)
        return lf

    def assigner(self, t):
        """closure (fr) -> closure-ready setter: returns fn(fr, value); index targets pre-evaluate nothing
        (single assignment) -- multiple assignment uses assigner2."""
        k = t.kind
        if k == "local":
            slot = t.var.slot
            if t.var.captured:
                def set_(fr, v):
                    fr[slot][0] = v
            else:
                def set_(fr, v):
                    fr[slot] = v
            return set_
        if k == "upval":
            idx = t.idx

            def set_(fr, v):
                fr[0][idx][0] = v
            return set_
        if k == "global":
            G = self.it.globals
            name = t.name

            def set_(fr, v):
                if G.meta is None:
                    if v is None:
                        G.d.pop(name, None)
                    else:
                        G.d[name] = v
                else:
                    setindex_value(G, name, v)
            return set_
        raise AssertionError(k)

    def s_assign(self, node):
        targets, exprs = node.targets, node.exprs
        line = node.line
        if len(targets) == 1 and len(exprs) == 1:
            t = targets[0]
            e = self.expr(exprs[0])
            if t.kind == "index":
                obj = self.expr(t.obj)
                key = self.expr(t.key)
                desc = describe(t.obj)
                tline = t.line

                def assign_index(fr):
                    o = obj(fr)
                    k = key(fr)
                    v = e(fr)
                    if type(o) is LuaTable and o.meta is None:
                        tk = type(k)
                        if (tk is str or tk is int) and v is not None:
                            o.d[k] = v
                            return
                    try:
                        setindex_value(o, k, v)
                    except LuaError as ex:
                        if not ex.positioned and type(o) is not LuaTable and not isinstance(o, LuaUserdata):
                            ex.value += desc
                        raise self.position(ex, tline)
                return assign_index
            set_ = self.assigner(t)

            def assign1(fr):
                set_(fr, e(fr))
            return assign1
        # general case: evaluate object/key expressions left to right, then the values, then assign
        pre = []
        for t in targets:
            if t.kind == "index":
                pre.append((self.expr(t.obj), self.expr(t.key), describe(t.obj), t.line))
            else:
                pre.append(self.assigner(t))
        ml = self.multi(exprs)

        def assign(fr):
            refs = [(p[0](fr), p[1](fr), p[2], p[3]) if type(p) is tuple else p for p in pre]
            vals = ml(fr)
            n = len(vals)
            for i, r in enumerate(refs):
                v = vals[i] if i < n else None
                if type(r) is tuple:
                    try:
                        setindex_value(r[0], r[1], v)
                    except LuaError as ex:
                        if not ex.positioned and type(r[0]) is not LuaTable and not isinstance(r[0], LuaUserdata):
                            ex.value += r[2]
                        raise self.position(ex, r[3])
                else:
                    r(fr, v)
        return assign

    def s_callstat(self, node):
        c = self.multi_call(node.call)

        def callstat(fr):
            c(fr)
        return callstat

    def s_do(self, node):
        return self.block(node.body)

    def s_return(self, node):
        exprs = node.exprs
        if not exprs:
            return lambda fr: []
        if len(exprs) == 1 and exprs[0].kind not in ("call", "method", "vararg"):
            e = self.expr(exprs[0])
            return lambda fr: [e(fr)]
        return self.multi(exprs)

    def s_break(self, node):
        return lambda fr: BREAK

    def s_if(self, node):
        clauses = [(self.expr(c), self.block(b)) for c, b in node.clauses]
        orelse = self.block(node.orelse) if node.orelse is not None else None
        if len(clauses) == 1:
            cond, body = clauses[0]
            if orelse is None:
                def if1(fr):
                    v = cond(fr)
                    if v is not None and v is not False:
                        return body(fr)
                return if1

            def if2(fr):
                v = cond(fr)
                if v is not None and v is not False:
                    return body(fr)
                return orelse(fr)
            return if2

        def ifn(fr):
            for cond, body in clauses:
                v = cond(fr)
                if v is not None and v is not False:
                    return body(fr)
            if orelse is not None:
                return orelse(fr)
        return ifn

    def s_while(self, node):
        cond = self.expr(node.cond)
        body = self.block(node.body)
        it = self.it
        line = node.line

        def while_(fr):
            while True:
                v = cond(fr)
                if v is None or v is False:
                    return None
                it.steps += 1
                if it.steps > it.max_steps:
                    raise self.err(line, "step limit exceeded (%d)" % it.max_steps)
                r = body(fr)
                if r is not None:
                    if r is BREAK:
                        return None
                    return r
        return while_

    def s_repeat(self, node):
        cond = self.expr(node.cond)
        body = self.block(node.body)
        it = self.it
        line = node.line

        def repeat(fr):
            while True:
                it.steps += 1
                if it.steps > it.max_steps:
                    raise self.err(line, "step limit exceeded (%d)" % it.max_steps)
                r = body(fr)
                if r is not None:
                    if r is BREAK:
                        return None
                    return r
                v = cond(fr)
                if v is not None and v is not False:
                    return None
        return repeat

    def s_numfor(self, node):
        start = self.expr(node.start)
        limit = self.expr(node.limit)
        step = self.expr(node.step) if node.step is not None else None
        body = self.block(node.body)
        slot = node.var.slot
        captured = node.var.captured
        it = self.it
        line = node.line

        def forprep(v, what):
            n = v if type(v) in _NUM else (tonumber(v) if type(v) is str else None)
            if n is None:
                raise self.err(line, "'for' %s must be a number" % what)
            return n

        def numfor(fr):
            a = start(fr)
            b = limit(fr)
            c = step(fr) if step is not None else 1
            if type(a) is not int and type(a) is not float:
                a = forprep(a, "initial value")
            if type(b) is not int and type(b) is not float:
                b = forprep(b, "limit")
            if type(c) is not int and type(c) is not float:
                c = forprep(c, "step")
            if type(a) is int and type(c) is int:
                if c == 0:
                    raise self.err(line, "'for' step is zero")
                if type(b) is float:                       # forlimit: clip a float limit to an integer
                    if b != b:
                        return None
                    if b >= 9.3e18:
                        b = (1 << 63) - 1
                    elif b <= -9.3e18:
                        b = -(1 << 63)
                    else:
                        b = math.floor(b) if c > 0 else math.ceil(b)
            else:
                a, b, c = float(a), float(b), float(c)
                if c == 0.0:
                    raise self.err(line, "'for' step is zero")
            i = a
            up = c > 0
            while (i <= b) if up else (i >= b):
                it.steps += 1
                if it.steps > it.max_steps:
                    raise self.err(line, "step limit exceeded (%d)" % it.max_steps)
                fr[slot] = [i] if captured else i
                r = body(fr)
                if r is not None:
                    if r is BREAK:
                        return None
                    return r
                i += c
            return None
        return numfor

    def s_genfor(self, node):
        ml = self.multi(node.exprs)
        stores = [self.store(v) for v in node.vars]
        nv = len(stores)
        body = self.block(node.body)
        it = self.it
        line = node.line
        desc = " (for iterator 'for iterator')"

        def genfor(fr):
            vals = ml(fr)
            n = len(vals)
            f = vals[0] if n > 0 else None
            s = vals[1] if n > 1 else None
            ctl = vals[2] if n > 2 else None
            while True:
                it.steps += 1
                if it.steps > it.max_steps:
                    raise self.err(line, "step limit exceeded (%d)" % it.max_steps)
                try:
                    if type(f) is Builtin:
                        rs = f.fn(s, ctl)
                        if type(rs) is not tuple:
                            rs = (rs,)
                    else:
                        rs = call_value(f, [s, ctl])
                except LuaError as ex:
                    if not ex.positioned and ex.value == "attempt to call a %s value" % type_name(f):
                        ex.value += desc
                    raise self.position(ex, line)
                m = len(rs)
                ctl = rs[0] if m else None
                if ctl is None:
                    return None
                for i in range(nv):
                    stores[i](fr, rs[i] if i < m else None)
                r = body(fr)
                if r is not None:
                    if r is BREAK:
                        return None
                    return r
        return genfor

    # ---------------------------------------------------------------- expressions
    def expr(self, node):
        return getattr(self, "e_" + node.kind)(node)

    def multi(self, exprs):
        """list of expression nodes -> closure returning the list of values (last one expanded)."""
        if not exprs:
            return lambda fr: []
        last = exprs[-1]
        if last.kind in ("call", "method", "vararg"):
            head = [self.expr(e) for e in exprs[:-1]]
            tail = self.multi_call(last) if last.kind != "vararg" else self.multi_vararg(last)
            if not head:
                return lambda fr: list(tail(fr))
            if len(head) == 1:
                h0 = head[0]

                def multi1(fr):
                    v = h0(fr)
                    return [v] + tail(fr)
                return multi1

            def multin(fr):
                vals = [h(fr) for h in head]
                vals.extend(tail(fr))
                return vals
            return multin
        fns = [self.expr(e) for e in exprs]
        n = len(fns)
        if n == 1:
            a = fns[0]
            return lambda fr: [a(fr)]
        if n == 2:
            a, b = fns
            return lambda fr: [a(fr), b(fr)]
        if n == 3:
            a, b, c = fns
            return lambda fr: [a(fr), b(fr), c(fr)]
        if n == 4:
            a, b, c, d = fns
            return lambda fr: [a(fr), b(fr), c(fr), d(fr)]
        return lambda fr: [f(fr) for f in fns]

    def multi_vararg(self, node):
        slot = self.slot_of_vararg(node)
        return lambda fr: list(fr[slot])

    def slot_of_vararg(self, node):
        return node.vslot

    def e_vararg(self, node):
        slot = node.vslot

        def vararg1(fr):
            v = fr[slot]
            return v[0] if v else None
        return vararg1

    def e_paren(self, node):
        return self.expr(node.inner)

    def e_const(self, node):
        v = node.value
        return lambda fr: v

    def e_local(self, node):
        slot = node.var.slot
        if node.var.captured:
            return lambda fr: fr[slot][0]
        return lambda fr: fr[slot]

    def e_upval(self, node):
        idx = node.idx
        return lambda fr: fr[0][idx][0]

    def e_global(self, node):
        G = self.it.globals
        d = G.d
        name = node.name

        def glob(fr):
            v = d.get(name)
            if v is None and G.meta is not None:
                return index_value(G, name)
            return v
        return glob

    def e_function(self, node):
        return self.c_function(node)

    def e_and(self, node):
        l, r = self.expr(node.left), self.expr(node.right)

        def and_(fr):
            v = l(fr)
            if v is None or v is False:
                return v
            return r(fr)
        return and_

    def e_or(self, node):
        l, r = self.expr(node.left), self.expr(node.right)

        def or_(fr):
            v = l(fr)
            if v is None or v is False:
                return r(fr)
            return v
        return or_

    def e_index(self, node):
        obj = self.expr(node.obj)
        line = node.line
        desc = describe(node.obj)
        if node.key.kind == "const" and type(node.key.value) is str:
            k = node.key.value

            def index_const(fr):
                o = obj(fr)
                if type(o) is LuaTable:
                    v = o.d.get(k)
                    if v is not None or o.meta is None:
                        return v
                try:
                    return index_value(o, k)
                except LuaError as ex:
                    if not ex.positioned and ex.value == "attempt to index a %s value" % type_name(o):
                        ex.value += desc
                    raise self.position(ex, line)
            return index_const
        key = self.expr(node.key)

        def index(fr):
            o = obj(fr)
            k = key(fr)
            try:
                return index_value(o, k)
            except LuaError as ex:
                if not ex.positioned and ex.value == "attempt to index a %s value" % type_name(o):
                    ex.value += desc
                raise self.position(ex, line)
        return index

    def e_table(self, node):
        items = node.items
        line = node.line
        # Lua evaluates fields in source order; keyed and positional fields are independent, so evaluating the
        # keyed ones in order and the positional ones in order is observably the same except for side effects
        # between the two groups (irrelevant for the supported use).
        order = []
        pi = 0
        for it_ in items:
            if it_[0] == "pos":
                pi += 1
                order.append(("pos", pi, it_[1]))
            else:
                order.append(("kv", self.expr(it_[1]), self.expr(it_[2])))
        last_multi = None
        if items and items[-1][0] == "pos" and items[-1][1].kind in ("call", "method", "vararg"):
            lm = items[-1][1]
            last_multi = self.multi_call(lm) if lm.kind != "vararg" else self.multi_vararg(lm)
            order.pop()
            pi -= 1
        steps = [(k, a, self.expr(b)) if k == "pos" else (k, a, b) for k, a, b in order]
        npos = pi

        def table(fr):
            t = LuaTable()
            d = t.d
            for kind, a, b in steps:
                if kind == "pos":
                    v = b(fr)
                    if v is not None:
                        d[a] = v
                else:
                    k = a(fr)
                    v = b(fr)
                    tk = type(k)
                    if (tk is str or tk is int) and v is not None:
                        d[k] = v
                    else:
                        try:
                            t.set(k, v)
                        except LuaError as ex:
                            raise self.position(ex, line)
            if last_multi is not None:
                i = npos
                for v in last_multi(fr):
                    i += 1
                    if v is not None:
                        d[i] = v
            return t
        return table

    # ---- calls
    def args_closure(self, args, selfexpr=None):
        return self.multi(args)

    def multi_call(self, node):
        """call / method node -> closure returning the LIST of results."""
        line = node.line
        it = self.it
        args = self.multi(node.args)
        if node.kind == "call":
            fn = self.expr(node.fn)
            desc = describe(node.fn)
            what = desc.strip(" ()") or "function"

            def call(fr):
                f = fn(fr)
                a = args(fr)
                try:
                    if type(f) is LuaFunction:
                        return f.invoke(a)
                    if type(f) is Builtin:
                        r = f.fn(*a)
                        if type(r) is tuple:
                            return list(r)
                        return [r]
                    return call_value(f, a)
                except LuaError as ex:
                    if not ex.positioned and ex.value == "attempt to call a %s value" % type_name(f):
                        ex.value += desc
                    raise self.position(ex, line, what)
                except TypeError as ex:
                    if type(f) is Builtin and ex.__traceback__.tb_next is None:
                        raise self.err(line, "bad argument to '%s' (wrong number of arguments)" % f.name)
                    raise
            return call
        obj = self.expr(node.obj)
        name = node.name
        odesc = describe(node.obj)
        mdesc = " (method '%s')" % name

        def method(fr):
            o = obj(fr)
            try:
                if type(o) is LuaTable:
                    f = o.d.get(name)
                    if f is None and o.meta is not None:
                        f = index_value(o, name)
                else:
                    f = index_value(o, name)
            except LuaError as ex:
                if not ex.positioned and ex.value == "attempt to index a %s value" % type_name(o):
                    ex.value += odesc
                raise self.position(ex, line)
            a = args(fr)
            a.insert(0, o)
            try:
                if type(f) is Builtin:
                    r = f.fn(*a)
                    if type(r) is tuple:
                        return list(r)
                    return [r]
                if type(f) is LuaFunction:
                    return f.invoke(a)
                return call_value(f, a)
            except LuaError as ex:
                if not ex.positioned and ex.value == "attempt to call a %s value" % type_name(f):
                    ex.value += mdesc
                raise self.position(ex, line, "method '%s'" % name)
            except TypeError as ex:
                if type(f) is Builtin and ex.__traceback__.tb_next is None:
                    raise self.err(line, "bad argument to '%s' (wrong number of arguments)" % name)
                raise
        return method

    def e_call(self, node):
        c = self.multi_call(node)

        def call1(fr):
            r = c(fr)
            return r[0] if r else None
        return call1

    e_method = e_call

    # ---- operators
    def e_unop(self, node):
        op = node.op
        e = self.expr(node.operand)
        line = node.line
        desc = describe(node.operand)
        if op == "not":
            def not_(fr):
                v = e(fr)
                return v is None or v is False
            return not_
        if op == "#":
            def len_(fr):
                v = e(fr)
                if type(v) is str:
                    return len(v)
                try:
                    return length(v)
                except LuaError as ex:
                    if not ex.positioned and ex.value.startswith("attempt to get length"):
                        ex.value += desc
                    raise self.position(ex, line)
            return len_
        aop = "unm" if op == "-" else "bnot"

        def unary(fr):
            v = e(fr)
            if aop == "unm":
                if type(v) is float:
                    return -v
                if type(v) is int:
                    return wrap64(-v)
            try:
                return arith(aop, v, v)
            except LuaError as ex:
                if not ex.positioned and hasattr(ex, "operand"):
                    ex.value += desc
                raise self.position(ex, line)
        return unary

    def e_binop(self, node):
        op = node.op
        l, r = self.expr(node.left), self.expr(node.right)
        line = node.line
        descs = (describe(node.left), describe(node.right))
        position = self.position

        def slow(a, b):
            try:
                return arith(op, a, b)
            except LuaError as ex:
                if not ex.positioned and hasattr(ex, "operand"):
                    ex.value += descs[ex.operand]
                raise position(ex, line)

        if op == "+":
            def add(fr):
                a = l(fr)
                b = r(fr)
                if type(a) is int and type(b) is int:
                    v = a + b
                    if -0x8000000000000000 <= v <= 0x7FFFFFFFFFFFFFFF:
                        return v
                    return wrap64(v)
                return slow(a, b)
            return add
        if op == "-":
            def sub(fr):
                a = l(fr)
                b = r(fr)
                if type(a) is int and type(b) is int:
                    v = a - b
                    if -0x8000000000000000 <= v <= 0x7FFFFFFFFFFFFFFF:
                        return v
                    return wrap64(v)
                return slow(a, b)
            return sub
        if op in ("*", "/", "%", "^", "//", "&", "|", "~", "<<", ">>"):
            return lambda fr: slow(l(fr), r(fr))
        if op == "..":
            def cat(fr):
                a = l(fr)
                b = r(fr)
                if type(a) is str and type(b) is str:
                    return a + b
                try:
                    return concat(a, b)
                except LuaError as ex:
                    if not ex.positioned and hasattr(ex, "operand"):
                        ex.value += descs[ex.operand]
                    raise position(ex, line)
            return cat
        if op == "==":
            def eq(fr):
                a = l(fr)
                b = r(fr)
                ta = type(a)
                if ta is type(b) and (ta is int or ta is str):
                    return a == b
                return lua_eq(a, b)
            return eq
        if op == "~=":
            return lambda fr: not lua_eq(l(fr), r(fr))

        def cmp_(f, swap):
            def c(fr):
                a = l(fr)
                b = r(fr)
                try:
                    return f(b, a) if swap else f(a, b)
                except LuaError as ex:
                    raise position(ex, line)
            return c
        if op == "<":
            return cmp_(lua_lt, False)
        if op == "<=":
            return cmp_(lua_le, False)
        if op == ">":
            return cmp_(lua_lt, True)
        if op == ">=":
            return cmp_(lua_le, True)
        raise AssertionError(op)


# =====================================================================================================
# Lua patterns (string.find / match / gmatch / gsub), after lstrlib.c

class _PatErr(LuaError):
    pass


_L_ESC = "%"
_SPECIALS = "^$*+?.([%-"


def _class_match(c, cl):
    o = ord(c)
    lc = cl.lower()
    if lc == "a":
        r = c.isalpha() and o < 128
    elif lc == "d":
        r = "0" <= c <= "9"
    elif lc == "l":
        r = "a" <= c <= "z"
    elif lc == "s":
        r = c in " \t\n\r\f\v"
    elif lc == "u":
        r = "A" <= c <= "Z"
    elif lc == "w":
        r = (c.isalnum() and o < 128)
    elif lc == "x":
        r = c in "0123456789abcdefABCDEF"
    elif lc == "p":
        r = 33 <= o <= 126 and not c.isalnum()
    elif lc == "c":
        r = o < 32 or o == 127
    elif lc == "g":
        r = 33 <= o <= 126
    else:
        return cl == c
    return (not r) if cl.isupper() else r


class _Matcher:
    def __init__(self, src, pat):
        self.src = src
        self.pat = pat
        self.level = 0
        self.capture = []            # [start, len]  len: -1 = position capture, -2 = unclosed
        self.calls = 0

    def class_end(self, p):
        pat = self.pat
        if p >= len(pat):
            raise LuaError("malformed pattern (ends with '%')")
        c = pat[p]
        p += 1
        if c == _L_ESC:
            if p >= len(pat):
                raise LuaError("malformed pattern (ends with '%')")
            return p + 1
        if c == "[":
            n = len(pat)
            if p < n and pat[p] == "^":
                p += 1
            while True:                                  # look for a ']'
                if p >= n:
                    raise LuaError("malformed pattern (missing ']')")
                c = pat[p]
                p += 1
                if c == _L_ESC and p < n:
                    p += 1                               # skip escapes (e.g. '%]')
                if p >= n:
                    raise LuaError("malformed pattern (missing ']')")
                if pat[p] == "]":
                    return p + 1
        return p

    def match_set(self, c, p, ec):
        """p: index of '[', ec: index of the closing ']'."""
        pat = self.pat
        sig = True
        if pat[p + 1] == "^":
            sig = False
            p += 1
        p += 1
        while p < ec:
            if pat[p] == _L_ESC:
                p += 1
                if _class_match(c, pat[p]):
                    return sig
            elif pat[p + 1] == "-" and p + 2 < ec:
                if pat[p] <= c <= pat[p + 2]:
                    return sig
                p += 2
            elif pat[p] == c:
                return sig
            p += 1
        return not sig

    def single(self, s, p, ep):
        if s >= len(self.src):
            return False
        c = self.src[s]
        pc = self.pat[p]
        if pc == ".":
            return True
        if pc == _L_ESC:
            return _class_match(c, self.pat[p + 1])
        if pc == "[":
            return self.match_set(c, p, ep - 1)
        return pc == c

    def match(self, s, p):
        self.calls += 1
        if self.calls > 200000:
            raise LuaError("pattern too complex")
        pat, src = self.pat, self.src
        while True:
            if p >= len(pat):
                return s
            pc = pat[p]
            if pc == "(":
                if p + 1 < len(pat) and pat[p + 1] == ")":
                    return self.start_capture(s, p + 2, -1)
                return self.start_capture(s, p + 1, -2)
            if pc == ")":
                return self.end_capture(s, p + 1)
            if pc == "$" and p + 1 == len(pat):
                return s if s == len(src) else None
            if pc == _L_ESC and p + 1 < len(pat):
                nx = pat[p + 1]
                if nx == "b":
                    return self.match_balance(s, p + 2)
                if nx == "f":
                    p += 2
                    if p >= len(pat) or pat[p] != "[":
                        raise LuaError("missing '[' after '%f' in pattern")
                    ep = self.class_end(p)
                    prev = src[s - 1] if s > 0 else "\0"
                    cur = src[s] if s < len(src) else "\0"
                    if not self.match_set(prev, p, ep - 1) and self.match_set(cur, p, ep - 1):
                        p = ep
                        continue
                    return None
                if nx.isdigit():
                    s = self.match_capture(s, int(nx))
                    if s is None:
                        return None
                    p += 2
                    continue
            ep = self.class_end(p)
            epc = pat[ep] if ep < len(pat) else ""
            if epc == "?":
                if self.single(s, p, ep):
                    r = self.match(s + 1, ep + 1)
                    if r is not None:
                        return r
                p = ep + 1
                continue
            if epc == "+":
                return self.max_expand(s + 1, p, ep) if self.single(s, p, ep) else None
            if epc == "*":
                return self.max_expand(s, p, ep)
            if epc == "-":
                while True:
                    r = self.match(s, ep + 1)
                    if r is not None:
                        return r
                    if self.single(s, p, ep):
                        s += 1
                    else:
                        return None
            if not self.single(s, p, ep):
                return None
            s += 1
            p = ep

    def max_expand(self, s, p, ep):
        i = 0
        while self.single(s + i, p, ep):
            i += 1
        while i >= 0:
            r = self.match(s + i, ep + 1)
            if r is not None:
                return r
            i -= 1
        return None

    def start_capture(self, s, p, what):
        self.capture.append([s, what])
        r = self.match(s, p)
        if r is None:
            self.capture.pop()
        return r

    def end_capture(self, s, p):
        for i in range(len(self.capture) - 1, -1, -1):
            if self.capture[i][1] == -2:
                self.capture[i][1] = s - self.capture[i][0]
                r = self.match(s, p)
                if r is None:
                    self.capture[i][1] = -2
                return r
        raise LuaError("invalid pattern capture")

    def match_balance(self, s, p):
        if p + 1 >= len(self.pat):
            raise LuaError("malformed pattern (missing arguments to '%b')")
        src = self.src
        if s >= len(src) or src[s] != self.pat[p]:
            return None
        b, e = self.pat[p], self.pat[p + 1]
        cont = 1
        i = s + 1
        while i < len(src):
            c = src[i]
            if c == e:
                cont -= 1
                if cont == 0:
                    return self.match(i + 1, p + 2)
            elif c == b:
                cont += 1
            i += 1
        return None

    def match_capture(self, s, l):
        l -= 1
        if l < 0 or l >= len(self.capture) or self.capture[l][1] == -2:
            raise LuaError("invalid capture index %%%d" % (l + 1))
        cap = self.src[self.capture[l][0]:self.capture[l][0] + self.capture[l][1]]
        if self.src.startswith(cap, s):
            return s + len(cap)
        return None

    def get_capture(self, i, s, e):
        if i >= len(self.capture):
            if i == 0:
                return self.src[s:e]
            raise LuaError("invalid capture index %%%d" % (i + 1))
        st, ln = self.capture[i]
        if ln == -2:
            raise LuaError("unfinished capture")
        if ln == -1:
            return st + 1
        return self.src[st:st + ln]

    def captures(self, s, e, whole_if_none=True):
        n = len(self.capture)
        if n == 0 and whole_if_none:
            return [self.src[s:e]]
        return [self.get_capture(i, s, e) for i in range(n)]


def _str_find_aux(s, pat, init, plain, find):
    s = _checkstr(s, 1)
    pat = _checkstr(pat, 2)
    init = 1 if init is None else tointeger(init)
    if init < 0:
        init = max(1, len(s) + init + 1)
    elif init == 0:
        init = 1
    if init > len(s) + 1:
        return None
    if find and (truthy(plain) or not any(c in _SPECIALS for c in pat)):
        i = s.find(pat, init - 1)
        return (i + 1, i + len(pat)) if i >= 0 else None
    anchor = pat.startswith("^")
    p0 = 1 if anchor else 0
    si = init - 1
    while True:
        m = _Matcher(s, pat)
        e = m.match(si, p0)
        if e is not None:
            if find:
                return tuple([si + 1, e] + m.captures(si, e, False))
            return tuple(m.captures(si, e))
        si += 1
        if anchor or si > len(s):
            return None


def _checkstr(v, n, fname=None):
    if type(v) is str:
        return v
    if type(v) in (int, float):
        return fmt_number(v)
    raise LuaError("bad argument #%d to '%s' (string expected, got %s)" % (n, fname or "?", "no value" if v is None else type_name(v)))


def _str_gmatch(s, pat):
    s = _checkstr(s, 1, "gmatch")
    pat = _checkstr(pat, 2, "gmatch")
    state = [0]

    def it(*_):
        si = state[0]
        while si <= len(s):
            m = _Matcher(s, pat)
            e = m.match(si, 0)
            if e is not None:
                state[0] = e + 1 if e == si else e
                return tuple(m.captures(si, e))
            si += 1
        state[0] = len(s) + 1
        return None
    return Builtin(it, "gmatch_iterator")


def _str_gsub(s, pat, repl, max_n=None):
    s = _checkstr(s, 1, "gsub")
    pat = _checkstr(pat, 2, "gsub")
    tr = type(repl)
    if not (tr in (str, int, float, LuaTable, LuaFunction, Builtin)):
        raise LuaError("bad argument #3 to 'gsub' (string/function/table expected, got %s)" % type_name(repl))
    max_n = len(s) + 1 if max_n is None else tointeger(max_n)
    anchor = pat.startswith("^")
    p0 = 1 if anchor else 0
    out = []
    si = 0
    n = 0
    while n < max_n:
        m = _Matcher(s, pat)
        e = m.match(si, p0)
        if e is not None:
            n += 1
            whole = s[si:e]
            caps = m.captures(si, e)
            if tr is LuaTable:
                v = index_value(repl, caps[0])
            elif tr in (LuaFunction, Builtin):
                r = call_value(repl, caps)
                v = r[0] if r else None
            else:
                rs = repl if tr is str else fmt_number(repl)
                buf = []
                i = 0
                while i < len(rs):
                    c = rs[i]
                    if c == "%":
                        i += 1
                        if i >= len(rs):
                            raise LuaError("invalid use of '%' in replacement string")
                        c = rs[i]
                        if c == "%":
                            buf.append("%")
                        elif c.isdigit():
                            cv = whole if c == "0" else m.get_capture(int(c) - 1, si, e)
                            buf.append(cv if type(cv) is str else fmt_number(cv))
                        else:
                            raise LuaError("invalid use of '%' in replacement string")
                    else:
                        buf.append(c)
                    i += 1
                v = "".join(buf)
            if v is None or v is False:
                v = whole
            elif type(v) in (int, float):
                v = fmt_number(v)
            elif type(v) is not str:
                raise LuaError("invalid replacement value (a %s)" % type_name(v))
            out.append(v)
        if e is not None and e > si:
            si = e
        elif si < len(s):
            out.append(s[si])
            si += 1
        else:
            break
        if anchor:
            break
    out.append(s[si:])
    return "".join(out), n


_FMT_RE = re.compile(r"%([-+ #0]*)(\d+)?(?:\.(\d+))?([a-zA-Z%])")


def _str_format(fmt, *args):
    fmt = _checkstr(fmt, 1, "format")
    out = []
    pos = 0
    ai = 0
    while True:
        i = fmt.find("%", pos)
        if i < 0:
            out.append(fmt[pos:])
            break
        out.append(fmt[pos:i])
        m = _FMT_RE.match(fmt, i)
        if not m:
            raise LuaError("invalid option '%s' to 'format'" % fmt[i:i + 2])
        flags, width, prec, conv = m.groups()
        pos = m.end()
        if conv == "%":
            out.append("%")
            continue
        if ai >= len(args):
            raise LuaError("bad argument #%d to 'format' (no value)" % (ai + 2))
        a = args[ai]
        ai += 1
        spec = "%" + flags + (width or "") + ("." + prec if prec is not None else "")
        if conv in "di":
            out.append((spec + "d") % tointeger(a, "bad argument #%d to 'format' (" % (ai + 1)))
        elif conv in "uoxX":
            v = tointeger(a, "bad argument #%d to 'format' (" % (ai + 1))
            if v < 0:
                v += 1 << 64
            out.append((spec + ("d" if conv == "u" else conv)) % v)
        elif conv == "c":
            out.append(chr(tointeger(a) & 0xFF))
        elif conv in "eEfFgG":
            n = tonumber(a)
            if n is None:
                raise LuaError("bad argument #%d to 'format' (number expected, got %s)" % (ai + 1, type_name(a)))
            out.append((spec + conv) % float(n))
        elif conv == "a" or conv == "A":
            n = tonumber(a)
            if n is None:
                raise LuaError("bad argument #%d to 'format' (number expected, got %s)" % (ai + 1, type_name(a)))
            out.append(float(n).hex())
        elif conv == "s":
            sv = tostr(a)
            out.append((spec + "s") % sv)
        elif conv == "q":
            sv = _checkstr(a, ai + 1, "format") if type(a) is not bool and a is not None else tostr(a)
            if type(a) is str:
                sv = '"' + sv.replace("\\", "\\\\").replace('"', '\\"').replace("\n", "\\n").replace("\r", "\\r").replace("\0", "\\0") + '"'
            out.append(sv)
        else:
            raise LuaError("invalid option '%%%s' to 'format'" % conv)
    return "".join(out)


# =====================================================================================================
# Standard library

class _UnsupportedLib(LuaUserdata):
    """Placeholder for libraries that are not provided: any use raises Unsupported (infrastructure
    limitation) instead of a misleading 'attempt to index a nil value'."""
    TYPENAME = "unsupported"

    def __init__(self, name):
        self.name = name

    def lua_index(self, k):
        raise Unsupported("library '%s' is not provided by lua_interp (%s.%s)" % (self.name, self.name, k))

    def lua_newindex(self, k, v):
        raise Unsupported("library '%s' is not provided by lua_interp" % self.name)

    def lua_call(self, args):
        raise Unsupported("function '%s' is not provided by lua_interp" % self.name)


def _argn(v, n, fname):
    """check number argument"""
    x = tonumber(v)
    if x is None:
        raise LuaError("bad argument #%d to '%s' (number expected, got %s)" % (n, fname, "no value" if v is None else type_name(v)))
    return x


def _argi(v, n, fname, default=None):
    if v is None and default is not None:
        return default
    return tointeger(v, "bad argument #%d to '%s' (" % (n, fname)) if True else 0


def _argt(v, n, fname):
    if type(v) is not LuaTable:
        raise LuaError("bad argument #%d to '%s' (table expected, got %s)" % (n, fname, "no value" if v is None else type_name(v)))
    return v


def install_stdlib(it):
    G = it.globals

    def reg(tbl, name, fn):
        tbl.d[name] = Builtin(fn, name)

    def lib(name):
        t = LuaTable()
        G.d[name] = t
        return t

    G.d["_G"] = G
    G.d["_VERSION"] = "Lua 5.3"

    # ---- basic
    def l_print(*args):
        it.output.append("\t".join(tostr(a) for a in args))
        return ()

    def l_type(*args):
        if not args:
            raise LuaError("bad argument #1 to 'type' (value expected)")
        return type_name(args[0])

    def l_tostring(v=None, *_):
        return tostr(v)

    def l_tonumber(v=None, base=None, *_):
        if base is None:
            return tonumber(v)
        b = tointeger(base)
        if type(v) is not str:
            raise LuaError("bad argument #1 to 'tonumber' (string expected, got %s)" % type_name(v))
        if not 2 <= b <= 36:
            raise LuaError("bad argument #2 to 'tonumber' (base out of range)")
        try:
            return int(v.strip(), b)
        except ValueError:
            return None

    def l_next(t=None, k=None, *_):
        _argt(t, 1, "next")
        r = t.next(k)
        return r if r is not None else None

    def l_pairs(t=None, *_):
        mm = getmeta(t, "__pairs")
        if mm is not None:
            r = call_value(mm, [t])
            return tuple((r + [None, None, None])[:3])
        if isinstance(t, LuaUserdata):
            raise LuaError("bad argument #1 to 'pairs' (table expected, got userdata)")
        _argt(t, 1, "for iterator" if t is None else "pairs")
        gen = t.items()

        def pairs_iter(*_):
            for kv in gen:
                return kv
            return None
        return Builtin(pairs_iter, "next"), t, None

    def ipairs_iter(t=None, i=0, *_):
        i += 1
        v = t.d.get(i) if type(t) is LuaTable and t.meta is None else index_value(t, i)
        if v is None:
            return None
        return i, v
    ipairs_b = Builtin(ipairs_iter, "ipairs_iterator")

    def l_ipairs(t=None, *_):
        if t is None:
            raise LuaError("bad argument #1 to 'ipairs' (table expected, got no value)")
        return ipairs_b, t, 0

    def l_select(n=None, *args):
        if n == "#":
            return len(args)
        i = tointeger(n, "bad argument #1 to 'select' (")
        if i < 0:
            i = len(args) + i
            if i < 0:
                raise LuaError("bad argument #1 to 'select' (index out of range)")
            return tuple(args[i:])
        if i == 0:
            raise LuaError("bad argument #1 to 'select' (index out of range)")
        return tuple(args[i - 1:])

    def l_error(msg=None, level=1, *_):
        e = LuaError(msg)
        if type(msg) is not str or level == 0:
            e.positioned = True
        raise e

    def l_assert(*args):
        if not args:
            raise LuaError("bad argument #1 to 'assert' (value expected)")
        if not truthy(args[0]):
            if len(args) > 1:
                e = LuaError(args[1])
                e.positioned = True
                raise e
            raise LuaError("assertion failed!")
        return tuple(args)

    def l_pcall(f=None, *args):
        depth = it.depth
        try:
            return tuple([True] + call_value(f, list(args)))
        except LuaError as e:
            it.depth = depth
            if "step limit" in str(e.value):
                raise
            return False, e.value
        except RecursionError:
            it.depth = depth
            return False, "stack overflow"

    def l_xpcall(f=None, h=None, *args):
        depth = it.depth
        try:
            return tuple([True] + call_value(f, list(args)))
        except LuaError as e:
            it.depth = depth
            if "step limit" in str(e.value):
                raise
            return tuple([False] + call_value(h, [e.value]))

    def l_rawget(t=None, k=None, *_):
        return _argt(t, 1, "rawget").get(k)

    def l_rawset(t=None, k=None, v=None, *_):
        _argt(t, 1, "rawset").set(k, v)
        return t

    def l_rawequal(a=None, b=None, *_):
        if isinstance(a, LuaUserdata) or type(a) is LuaTable:
            return a is b
        return lua_eq(a, b)

    def l_rawlen(v=None, *_):
        if type(v) is LuaTable:
            return v.length()
        if type(v) is str:
            return len(v)
        raise LuaError("table or string expected")

    def l_setmetatable(t=None, m=None, *_):
        _argt(t, 1, "setmetatable")
        if m is not None and type(m) is not LuaTable:
            raise LuaError("bad argument #2 to 'setmetatable' (nil or table expected)")
        if getmeta(t, "__metatable") is not None:
            raise LuaError("cannot change a protected metatable")
        t.meta = m
        return t

    def l_getmetatable(v=None, *_):
        if type(v) is LuaTable and v.meta is not None:
            p = v.meta.d.get("__metatable")
            return p if p is not None else v.meta
        if type(v) is str:
            return it.string_meta
        return None

    def l_unpack(t=None, i=None, j=None, *_):
        i = 1 if i is None else tointeger(i)
        j = length(t) if j is None else tointeger(j)
        if j - i >= 1000000:
            raise LuaError("too many results to unpack")
        return tuple(index_value(t, k) for k in range(i, j + 1))

    for name, fn in [("print", l_print), ("type", l_type), ("tostring", l_tostring), ("tonumber", l_tonumber), ("next", l_next),
                     ("pairs", l_pairs), ("ipairs", l_ipairs), ("select", l_select), ("error", l_error), ("assert", l_assert),
                     ("pcall", l_pcall), ("xpcall", l_xpcall), ("rawget", l_rawget), ("rawset", l_rawset), ("rawequal", l_rawequal),
                     ("rawlen", l_rawlen), ("setmetatable", l_setmetatable), ("getmetatable", l_getmetatable), ("unpack", l_unpack)]:
        reg(G, name, fn)
    for name in ("os", "io", "coroutine", "debug", "package", "require", "dofile", "loadfile", "load", "loadstring", "collectgarbage", "utf8"):
        G.d[name] = _UnsupportedLib(name)

    # ---- string
    S = LuaTable()                 # filled below, then published once into the shared _STRING_LIB (thread safe)
    G.d["string"] = _STRING_LIB
    it.string_meta = LuaTable()
    it.string_meta.d["__index"] = _STRING_LIB

    def s_len(s=None, *_):
        return len(_checkstr(s, 1, "len"))

    def s_sub(s=None, i=1, j=-1, *_):
        s = _checkstr(s, 1, "sub")
        n = len(s)
        i = tointeger(i, "bad argument #2 to 'sub' (")
        j = tointeger(j, "bad argument #3 to 'sub' (")
        if i < 0:
            i = max(n + i + 1, 1)
        elif i == 0:
            i = 1
        if j < 0:
            j = n + j + 1
        elif j > n:
            j = n
        return s[i - 1:j] if i <= j else ""

    def s_rep(s=None, n=None, sep="", *_):
        s = _checkstr(s, 1, "rep")
        n = tointeger(n, "bad argument #2 to 'rep' (")
        if n <= 0:
            return ""
        if (len(s) + len(sep)) * n > 50000000:
            raise LuaError("resulting string too large")
        return sep.join([s] * n) if sep else s * n

    def s_byte(s=None, i=1, j=None, *_):
        s = _checkstr(s, 1, "byte")
        n = len(s)
        i = tointeger(i)
        j = i if j is None else tointeger(j)
        if i < 0:
            i = max(n + i + 1, 1)
        elif i == 0:
            i = 1
        if j < 0:
            j = n + j + 1
        elif j > n:
            j = n
        return tuple(ord(c) for c in s[i - 1:j]) if i <= j else ()

    def s_char(*args):
        out = []
        for k, a in enumerate(args):
            v = tointeger(a, "bad argument #%d to 'char' (" % (k + 1))
            if not 0 <= v <= 255:
                raise LuaError("bad argument #%d to 'char' (value out of range)" % (k + 1))
            out.append(chr(v))
        return "".join(out)

    def s_find(s=None, pat=None, init=None, plain=None, *_):
        r = _str_find_aux(s, pat, init, plain, True)
        return r

    def s_match(s=None, pat=None, init=None, *_):
        return _str_find_aux(s, pat, init, None, False)

    for name, fn in [("len", s_len), ("sub", s_sub), ("rep", s_rep), ("byte", s_byte), ("char", s_char), ("find", s_find),
                     ("match", s_match), ("gmatch", _str_gmatch), ("gsub", _str_gsub), ("format", _str_format),
                     ("upper", lambda s=None, *_: _checkstr(s, 1, "upper").upper() if _checkstr(s, 1, "upper").isascii()
                      else "".join(c.upper() if c.isascii() else c for c in s)),
                     ("lower", lambda s=None, *_: "".join(c.lower() if c.isascii() else c for c in _checkstr(s, 1, "lower"))),
                     ("reverse", lambda s=None, *_: _checkstr(s, 1, "reverse")[::-1])]:
        reg(S, name, fn)
    with _STRING_LIB_LOCK:
        if not _STRING_LIB.d:
            _STRING_LIB.d.update(S.d)

    # ---- table
    T = lib("table")

    def t_insert(t=None, *args):
        _argt(t, 1, "insert")
        n = t.length()
        if len(args) == 1:
            t.set(n + 1, args[0])
        elif len(args) == 2:
            pos = tointeger(args[0], "bad argument #2 to 'insert' (")
            if not 1 <= pos <= n + 1:
                raise LuaError("bad argument #2 to 'insert' (position out of bounds)")
            for i in range(n, pos - 1, -1):
                t.set(i + 1, t.get(i))
            t.set(pos, args[1])
        else:
            raise LuaError("wrong number of arguments to 'insert'")
        return ()

    def t_remove(t=None, pos=None, *_):
        _argt(t, 1, "remove")
        n = t.length()
        if pos is None:
            if n == 0:
                return None
            v = t.get(n)
            t.set(n, None)
            return v
        pos = tointeger(pos)
        if n + 1 == pos:
            v = t.get(pos)
            t.set(pos, None)
            return v
        if n == 0 and pos == 0:
            return t.get(0)
        if not 1 <= pos <= n + 1:
            raise LuaError("bad argument #2 to 'remove' (position out of bounds)")
        v = t.get(pos)
        for i in range(pos, n):
            t.set(i, t.get(i + 1))
        t.set(n, None)
        return v

    def t_concat(t=None, sep="", i=1, j=None, *_):
        _argt(t, 1, "concat")
        j = t.length() if j is None else tointeger(j)
        out = []
        for k in range(tointeger(i), j + 1):
            v = t.get(k)
            if type(v) not in (str, int, float):
                raise LuaError("invalid value (at index %d) in table for 'concat'" % k)
            out.append(v if type(v) is str else fmt_number(v))
        return _checkstr(sep, 2, "concat").join(out)

    def t_sort(t=None, comp=None, *_):
        _argt(t, 1, "sort")
        import functools
        n = t.length()
        vals = [t.get(i) for i in range(1, n + 1)]
        if comp is None:
            lt = lua_lt
        else:
            def lt(a, b):
                r = call_value(comp, [a, b])
                return truthy(r[0] if r else None)
        vals.sort(key=functools.cmp_to_key(lambda a, b: -1 if lt(a, b) else (1 if lt(b, a) else 0)))
        for i, v in enumerate(vals, 1):
            t.set(i, v)
        return ()

    def t_pack(*args):
        t = LuaTable()
        for i, v in enumerate(args, 1):
            t.set(i, v)
        t.set("n", len(args))
        return t

    for name, fn in [("insert", t_insert), ("remove", t_remove), ("concat", t_concat), ("sort", t_sort), ("pack", t_pack),
                     ("unpack", l_unpack)]:
        reg(T, name, fn)

    # ---- math
    M = lib("math")
    M.d["pi"] = math.pi
    M.d["huge"] = math.inf
    M.d["maxinteger"] = (1 << 63) - 1
    M.d["mininteger"] = -(1 << 63)

    def m_floor(x=None, *_):
        x = _argn(x, 1, "floor")
        if type(x) is int:
            return x
        if x != x or x in (math.inf, -math.inf):
            return x
        return math.floor(x)

    def m_ceil(x=None, *_):
        x = _argn(x, 1, "ceil")
        if type(x) is int:
            return x
        if x != x or x in (math.inf, -math.inf):
            return x
        return math.ceil(x)

    def m_minmax(name, pick):
        def f(*args):
            if not args:
                raise LuaError("bad argument #1 to '%s' (number expected, got no value)" % name)
            best = _argn(args[0], 1, name)
            for k, a in enumerate(args[1:], 2):
                a = _argn(a, k, name)
                if pick(a, best):
                    best = a
            return best
        return f

    def m_tointeger(x=None, *_):
        if type(x) is int:
            return x
        if type(x) is float and x.is_integer():
            return int(x)
        return None

    def m_type(x=None, *_):
        if type(x) is int:
            return "integer"
        if type(x) is float:
            return "float"
        return None

    def m_fmod(a=None, b=None, *_):
        a, b = _argn(a, 1, "fmod"), _argn(b, 2, "fmod")
        if type(a) is int and type(b) is int:
            if b == 0:
                raise LuaError("bad argument #2 to 'fmod' (zero)")
            return int(math.fmod(a, b))
        try:
            return math.fmod(a, b)
        except ValueError:
            return math.nan

    def m_sqrt(x=None, *_):
        x = float(_argn(x, 1, "sqrt"))
        return math.sqrt(x) if x >= 0 else math.nan

    for name, fn in [("floor", m_floor), ("ceil", m_ceil), ("max", m_minmax("max", lambda a, b: a > b)),
                     ("min", m_minmax("min", lambda a, b: a < b)), ("tointeger", m_tointeger), ("type", m_type), ("fmod", m_fmod),
                     ("sqrt", m_sqrt),
                     ("abs", lambda x=None, *_: (lambda v: wrap64(abs(v)) if type(v) is int else abs(v))(_argn(x, 1, "abs"))),
                     ("pow", lambda a=None, b=None, *_: arith_numbers("^", _argn(a, 1, "pow"), _argn(b, 2, "pow"))),
                     ("ult", lambda a=None, b=None, *_: (tointeger(a) & 0xFFFFFFFFFFFFFFFF) < (tointeger(b) & 0xFFFFFFFFFFFFFFFF))]:
        reg(M, name, fn)

    # ---- bit32 (Lua 5.2) and bit (BitOp, shipped with Wireshark)
    def bits(mask_signed):
        B = LuaTable()

        def norm(v):
            return tointeger(math.floor(v) if type(v) is float else v) & 0xFFFFFFFF

        def out(v):
            v &= 0xFFFFFFFF
            return v - (1 << 32) if mask_signed and v >= (1 << 31) else v

        def fold(f, init):
            def g(*args):
                acc = init
                for a in args:
                    acc = f(acc, norm(a))
                return out(acc)
            return g

        def shift(a=None, n=None, *_):
            a, n = norm(a), tointeger(n)
            if mask_signed:
                n &= 31
            if n <= -32 or n >= 32:
                return 0
            return out(a << n if n >= 0 else a >> -n)

        def arshift(a=None, n=None, *_):
            a, n = norm(a), tointeger(n)
            if mask_signed:
                n &= 31
            s = a - (1 << 32) if a >= (1 << 31) else a
            return out(s >> min(n, 31)) if n >= 0 else out(a << -n)

        reg(B, "band", fold(lambda x, y: x & y, 0xFFFFFFFF))
        reg(B, "bor", fold(lambda x, y: x | y, 0))
        reg(B, "bxor", fold(lambda x, y: x ^ y, 0))
        reg(B, "bnot", lambda a=None, *_: out(~norm(a)))
        reg(B, "lshift", shift)
        reg(B, "rshift", lambda a=None, n=None, *_: shift(a, -tointeger(n) if not mask_signed else None) if not mask_signed
            else out(norm(a) >> (tointeger(n) & 31)))
        reg(B, "arshift", arshift)
        reg(B, "tobit", lambda a=None, *_: out(norm(a)))
        reg(B, "tohex", lambda a=None, n=8, *_: ("%08x" % norm(a))[-abs(tointeger(n)):])
        return B
    G.d["bit32"] = bits(False)
    G.d["bit"] = bits(True)


# =====================================================================================================
# Interpreter facade

class Interp:
    def __init__(self, chunk="chunk", max_steps=5000000, max_depth=190):
        self.chunk = chunk
        self.globals = LuaTable()
        self.steps = 0
        self.max_steps = max_steps
        self.depth = 0
        self.max_depth = max_depth
        self.output = []
        self.string_meta = None
        install_stdlib(self)

    def setglobal(self, name, v):
        self.globals.set(name, v)

    def getglobal(self, name):
        return self.globals.get(name)

    def load(self, src, chunk=None):
        """Source (bytes or latin-1 style str) -> LuaFunction for the main chunk.  Raises LuaSyntaxError / Unsupported."""
        if isinstance(src, bytes):
            src = src.decode("latin-1")
        if chunk:
            self.chunk = chunk
        src = src.replace("\r\n", "\n")
        ast = Parser(src, self.chunk).parse_chunk()
        proto = Compiler(self).function(ast)
        return LuaFunction(proto, [])

    def call(self, f, *args):
        """Call a Lua value from the host; resets the step counter.  -> list of results."""
        self.steps = 0
        self.depth = 0
        try:
            return call_value(f, list(args))
        except RecursionError:
            raise LuaError("stack overflow")

    def run(self, src, *args):
        return self.call(self.load(src), *args)


def lua_bytes(s):
    """Lua string (byte-per-char str) -> bytes."""
    return s.encode("latin-1", "replace")


def lua_text(s):
    """Lua string -> readable text (the bytes decoded as UTF-8, replacing garbage)."""
    return s.encode("latin-1", "replace").decode("utf-8", "replace") if isinstance(s, str) else s


def main(argv):
    import json
    import lua_wireshark
    if not argv or argv[0] in ("-h", "--help"):
        print(__doc__)
        return 2
    path = argv[0]
    hexs = None
    strict = "--strict" in argv
    if "--hex" in argv:
        hexs = argv[argv.index("--hex") + 1]
    with open(path, "rb") as f:
        src = f.read()
    import os
    ses = lua_wireshark.Session(src, os.path.basename(path), strict=strict)
    print("parse/load:", "ok" if ses.ok else "FAILED", ses.log)
    if ses.unsupported:
        print("unsupported:", ses.unsupported)
    for line in ses.interp.output if ses.interp else []:
        print("print>", line)
    for w in ses.api_notes():
        print("api-note:", w)
    if hexs is not None and ses.ok:
        data = bytes.fromhex(re.sub(r"[^0-9a-fA-F]", "", hexs))
        r = ses.dissect(data)
        print("dissect:", "ok ret=%r" % (r["ret"],) if r["ok"] else "ERROR " + r["err"])
        for a in r["adds"]:
            print("  " + json.dumps(a, ensure_ascii=False))
        print("cols:", json.dumps(r.get("cols"), ensure_ascii=False))
        for w in ses.api_notes():
            print("api-note:", w)
    return 0 if ses.ok else 1


if __name__ == "__main__":
    import os
    sys.path.insert(0, os.path.dirname(os.path.abspath(__file__)))
    import lua_interp as _self        # make the classes identical for lua_wireshark (avoid the __main__ twin)
    sys.exit(_self.main(sys.argv[1:]))
