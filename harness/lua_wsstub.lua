-- Wireshark Lua API stand-in for REAL Lua 5.3 (driven from Python through ctypes by lua_real.py).
--
-- This file mirrors harness/lua_wireshark.py (the stubs used by the Python interpreter lua_interp.py) so that
-- lua_diff.py can run the same dissector under both implementations and compare what they record.  Wireshark
-- objects (Tvb, TvbRange, UInt64, Int64, ByteArray, Proto, ProtoField, DissectorTable, Dissector, TreeItem,
-- Pinfo, Columns, Column) are REAL full userdata: the host registers one C function `__ws_newud` that returns a
-- fresh userdata; the state of an object lives in its uservalue table and its class is its metatable.  So
-- type(x) == "userdata" and Lua's own error messages ("attempt to compare number with userdata", "'for' limit
-- must be a number", ...) are the genuine ones.
--
-- Errors raised by the API functions are positioned like luaL_error in a C function: at the Lua code that
-- called the API function (werr() walks up the stack to the first frame outside this file).
--
-- Host entry points (globals): __ws_load(), __ws_dissect(data), __ws_notes(), __ws_repr(name), __ws_run(),
-- __ws_config(limit, strict).  Everything returned to the host is ONE string: lines of tab separated fields,
-- every string value hex encoded.

local newud = __ws_newud
__ws_newud = nil

local type, tostring, tonumber, select, error, rawget, rawset, rawequal, next, pairs, ipairs, setmetatable =
      type, tostring, tonumber, select, error, rawget, rawset, rawequal, next, pairs, ipairs, setmetatable
local real_pcall, real_xpcall = pcall, xpcall
local math_type, math_tointeger, math_ult, math_floor, math_ceil = math.type, math.tointeger, math.ult, math.floor, math.ceil
local s_format, s_byte, s_sub, s_rep, s_char, s_find, s_unpack, s_upper, s_gsub =
      string.format, string.byte, string.sub, string.rep, string.char, string.find, string.unpack, string.upper, string.gsub
local t_concat, t_pack, t_unpack = table.concat, table.pack, table.unpack
local d_getinfo, d_sethook, d_setuv, d_getuv, d_setmt, d_getmt =
      debug.getinfo, debug.sethook, debug.setuservalue, debug.getuservalue, debug.setmetatable, debug.getmetatable

local STUB_SOURCE = d_getinfo(1, "S").source

local WS = { protos = {}, registered = {}, adds = {}, notes = {}, noteset = {}, strict = false, output = {}, emitted = {},
             proto = nil, limit = 0, limit_hit = false }

-- -------------------------------------------------------------------------------------------------------
-- helpers

local function werr(msg)
    local lvl = 2
    while true do
        local info = d_getinfo(lvl, "S")
        if not info then lvl = 0 break end
        if info.source ~= STUB_SOURCE then break end
        lvl = lvl + 1
    end
    error(msg, lvl)
end

local function new(mt, state)
    local u = newud()
    d_setuv(u, state)
    d_setmt(u, mt)
    return u
end

local function isa(v, mt)
    return type(v) == "userdata" and d_getmt(v) == mt
end

local function S(u) return d_getuv(u) end

local function hex(s)
    return (s_gsub(s, ".", function(c) return s_format("%02x", s_byte(c)) end))
end

local function is_strnum(v)
    local t = type(v)
    return t == "string" or t == "number"
end

local function note(text)
    if not WS.noteset[text] then
        WS.noteset[text] = true
        WS.notes[#WS.notes + 1] = text
    end
end

local function arg_type(v) return v == nil and "no value" or type(v) end

-- luaL_optinteger
local function opt_int(v, default, n, fname)
    if v == nil then return default end
    local t = type(v)
    if t ~= "number" and t ~= "string" then
        werr(s_format("bad argument #%d to '%s' (number expected, got %s)", n, fname, t))
    end
    local num = v
    if t == "string" then
        num = tonumber(v)
        if num == nil then werr(s_format("bad argument #%d to '%s' (number expected, got string)", n, fname)) end
    end
    local i = math_tointeger(num)
    if i == nil then werr(s_format("bad argument #%d to '%s' (number has no integer representation)", n, fname)) end
    return i
end

-- -------------------------------------------------------------------------------------------------------
-- UInt64 / Int64: state {v = <64-bit pattern as a Lua integer>}

local U64, I64 = { __name = "UInt64" }, { __name = "Int64" }

local function is64(x)
    if type(x) ~= "userdata" then return false end
    local mt = d_getmt(x)
    return mt == U64 or mt == I64
end

local function mk64(mt, bits) return new(mt, { v = bits }) end

local function utostr(b)
    if b >= 0 then return s_format("%d", b) end
    local q = (b >> 1) // 5
    return s_format("%d%d", q, b - q * 10)
end

local function udiv(a, b)           -- unsigned floor division, b ~= 0
    if b < 0 then return math_ult(a, b) and 0 or 1 end
    if a >= 0 then return a // b end
    local q = ((a >> 1) // b) << 1
    local r = a - q * b
    if not math_ult(r, b) then q = q + 1 end
    return q
end

-- mathematical value of an operand as (bits, big): value = bits + (big and 2^64 or 0)
local function coerce(x)
    if is64(x) then
        local b = S(x).v
        return b, (d_getmt(x) == U64 and b < 0)
    end
    local t = type(x)
    if t == "number" then
        if math_type(x) == "integer" then return x, false end
        if x ~= x or x == math.huge or x == -math.huge then werr("bad argument (number has no integer representation)") end
        local i = math_tointeger(x >= 0 and math_floor(x) or math_ceil(x))
        if i == nil then werr("bad argument (number out of the 64-bit range is not modelled)") end
        return i, false
    end
    if t == "string" then
        local n = tonumber(x)
        if n ~= nil and math_type(n) == "integer" then return n, false end
    end
    werr(s_format("bad argument (number, string, UInt64 or Int64 expected, got %s)", type(x)))
end

local function lt64(ab, abig, bb, bbig)
    if abig ~= bbig then return bbig end
    return ab < bb
end

local function pow64(x, y)
    local r = 1
    while y ~= 0 do
        if y & 1 == 1 then r = r * x end
        x = x * x
        y = y >> 1
    end
    return r
end

local function arith64(op)
    return function(a, b)
        local self = is64(a) and a or b
        local mt = d_getmt(self)
        local signed = mt == I64
        local tn = signed and "Int64" or "UInt64"
        local x, xbig = coerce(a)
        local y, ybig = coerce(b)
        if op == "+" then return mk64(mt, x + y) end
        if op == "-" then return mk64(mt, x - y) end
        if op == "*" then return mk64(mt, x * y) end
        if op == "/" then
            if y == 0 and not ybig then werr("Trying to divide " .. tn .. " by zero") end
            if xbig or ybig then
                if (x < 0 and not xbig) or (y < 0 and not ybig) then werr("mixed-sign 64-bit division is not modelled by lua_wsstub") end
                return mk64(mt, udiv(x, y))
            end
            if signed then                                  -- truncating
                if x == math.mininteger and y == -1 then return mk64(mt, x) end
                local q = x // y
                if x % y ~= 0 and ((x < 0) ~= (y < 0)) then q = q + 1 end
                return mk64(mt, q)
            end
            return mk64(mt, (x == math.mininteger and y == -1) and x or x // y)
        end
        if op == "%" then
            if y == 0 and not ybig then werr("Trying to modulo " .. tn .. " by zero") end
            if xbig or ybig then
                if (x < 0 and not xbig) or (y < 0 and not ybig) then werr("mixed-sign 64-bit modulo is not modelled by lua_wsstub") end
                return mk64(mt, x - udiv(x, y) * y)
            end
            return mk64(mt, y == -1 and 0 or x % y)
        end
        if op == "^" then
            if y < 0 and not ybig then return mk64(mt, 0) end
            return mk64(mt, pow64(x, y))
        end
        werr("unknown operator " .. op)
    end
end

local methods64 = {
    tonumber = function(self)
        local b, big = coerce(self)
        if big then return (b >> 1) * 2.0 + (b & 1) end
        return b + 0.0
    end,
    tohex = function(self, n)
        n = n == nil and 16 or opt_int(n, 16, 1, "tohex")
        if n < 0 then n = -n end
        local h = s_format("%016x", S(self).v)
        if n == 0 then return h end
        return s_sub(h, -n)
    end,
    lower = function(self) return S(self).v & 0xFFFFFFFF end,
    higher = function(self) return (S(self).v >> 32) & 0xFFFFFFFF end,
}

for _, mt in ipairs({ U64, I64 }) do
    mt.__index = methods64
    mt.__tostring = function(self)
        local b = S(self).v
        if d_getmt(self) == U64 then return utostr(b) end
        return s_format("%d", b)
    end
    mt.__concat = function(a, b) return tostring(a) .. tostring(b) end
    mt.__add, mt.__sub, mt.__mul = arith64("+"), arith64("-"), arith64("*")
    mt.__div, mt.__idiv, mt.__mod, mt.__pow = arith64("/"), arith64("/"), arith64("%"), arith64("^")
    mt.__unm = function(a)
        return mk64(d_getmt(a), -S(a).v)
    end
    mt.__eq = function(a, b)
        if not (is64(a) and is64(b)) then return false end
        local x, xbig = coerce(a)
        local y, ybig = coerce(b)
        return x == y and xbig == ybig
    end
    mt.__lt = function(a, b)
        local x, xbig = coerce(a)
        local y, ybig = coerce(b)
        return lt64(x, xbig, y, ybig)
    end
    mt.__le = function(a, b)
        local x, xbig = coerce(a)
        local y, ybig = coerce(b)
        return not lt64(y, ybig, x, xbig)
    end
end

local function ctor64(mt)
    local function mk(a, hi)
        local v = 0
        if a ~= nil then v = (coerce(a)) end
        if hi ~= nil then
            local h = (coerce(hi))
            v = (v & 0xFFFFFFFF) | ((h & 0xFFFFFFFF) << 32)
        end
        return mk64(mt, v)
    end
    local t = {
        new = mk,
        max = function() return mk64(mt, mt == I64 and math.maxinteger or -1) end,
        min = function() return mk64(mt, mt == I64 and math.mininteger or 0) end,
        fromhex = function(h)
            local n = tonumber(h, 16)
            if n == nil then werr("bad argument #1 to 'fromhex' (hexadecimal string expected)") end
            return mk64(mt, n)
        end,
    }
    return setmetatable(t, { __call = function(_, ...) return mk(...) end })
end

-- -------------------------------------------------------------------------------------------------------
-- ByteArray: state {data = string}

local BA = { __name = "ByteArray" }
local function mkba(data) return new(BA, { data = data }) end
BA.__tostring = function(self) return hex(S(self).data) end
BA.__concat = function(a, b)
    if isa(a, BA) and isa(b, BA) then return mkba(S(a).data .. S(b).data) end
    return tostring(a) .. tostring(b)
end
BA.__eq = function(a, b) return isa(a, BA) and isa(b, BA) and S(a).data == S(b).data end
BA.__len = function(self) return #S(self).data end
BA.__index = {
    len = function(self) return #S(self).data end,
    get_index = function(self, i)
        local d = S(self).data
        i = opt_int(i, nil, 1, "get_index")
        if i == nil or i < 0 or i >= #d then werr("bad argument #1 to 'get_index' (index out of range)") end
        return s_byte(d, i + 1)
    end,
    tohex = function(self, lower, sep)
        local h = hex(S(self).data)
        if not lower then h = s_upper(h) end
        if type(sep) == "string" then
            local parts = {}
            for i = 1, #h, 2 do parts[#parts + 1] = s_sub(h, i, i + 1) end
            h = t_concat(parts, sep)
        end
        return h
    end,
    raw = function(self) return S(self).data end,
    subset = function(self, off, ln)
        local d = S(self).data
        off, ln = opt_int(off, 0, 1, "subset"), opt_int(ln, 0, 2, "subset")
        if off < 0 or ln < 0 or off + ln > #d then werr("Out Of Bounds") end
        return mkba(s_sub(d, off + 1, off + ln))
    end,
}

-- -------------------------------------------------------------------------------------------------------
-- Tvb {data}  /  TvbRange {tvb = <Tvb state>, off, ln}

local TVB, RNG = { __name = "Tvb" }, { __name = "TvbRange" }

local function mkrange(tvbstate, off, ln) return new(RNG, { tvb = tvbstate, off = off, ln = ln }) end
local function mktvb(data) return new(TVB, { data = data }) end

-- push_TvbRange of wslua_tvb.c
local function push_range(tvbstate, offset, ln)
    local n = #tvbstate.data
    if ln == -1 then
        if offset < 0 then offset = offset + n end
        if offset < 0 or offset > n then werr("out of bounds") end
        ln = n - offset
    elseif ln < 0 then
        werr("negative length in tvb range")
    elseif offset < 0 then
        if ln + offset < 0 or n + offset < 0 or n + offset + ln > n then werr("Range is out of bounds") end
        offset = offset + n
    elseif ln + offset > n then
        werr("Range is out of bounds")
    end
    return mkrange(tvbstate, offset, ln)
end

local function rng_raw(st) return s_sub(st.tvb.data, st.off + 1, st.off + st.ln) end

local function hex24(b)
    return hex(s_sub(b, 1, 24)) .. (#b > 24 and "..." or "")
end

local function ascii_text(b)
    return (s_gsub(b, "[\128-\255]", "\xef\xbf\xbd"))
end

local function rng_int(st, name, maxlen, little, signed)
    local n = st.ln
    if n < 1 or n > maxlen then werr(s_format("TvbRange:%s() does not handle %d byte integers", name, n)) end
    local b = rng_raw(st)
    local v = 0
    if little then
        for i = n, 1, -1 do v = (v << 8) | s_byte(b, i) end
    else
        for i = 1, n do v = (v << 8) | s_byte(b, i) end
    end
    if signed and n < 8 and v >= (1 << (8 * n - 1)) then v = v - (1 << (8 * n)) end
    return v
end

local function rng_float(st, name, little)
    if st.ln == 4 then return (s_unpack(little and "<f" or ">f", rng_raw(st))) end
    if st.ln == 8 then return (s_unpack(little and "<d" or ">d", rng_raw(st))) end
    werr(s_format("TvbRange:%s() does not handle %d byte floating numbers", name, st.ln))
end

local function rng_range(self, off, ln)
    local st = S(self)
    off = opt_int(off, 0, 1, "range")
    ln = opt_int(ln, -1, 2, "range")
    if ln == -1 then ln = st.ln - off end
    if off < 0 or ln < 0 or off + ln > st.ln then werr("Range is out of bounds") end
    return mkrange(st.tvb, st.off + off, ln)
end

local function rng_string(self)
    local b = rng_raw(S(self))
    local z = s_find(b, "\0", 1, true)
    if z then b = s_sub(b, 1, z - 1) end
    return ascii_text(b)
end

local function rng_rawm(self, off, ln)
    off = opt_int(off, 0, 1, "raw")
    ln = opt_int(ln, -1, 2, "raw")
    local b = rng_raw(S(self))
    if off < 0 or off > #b then werr("offset beyond end of Tvb") end
    if ln == -1 then ln = #b - off end
    if ln < 0 or off + ln > #b then werr("length beyond end of Tvb") end
    return s_sub(b, off + 1, off + ln)
end

RNG.__call = function(self, off, ln) return rng_range(self, off, ln) end
RNG.__tostring = function(self) return hex24(rng_raw(S(self))) end
RNG.__concat = function(a, b) return tostring(a) .. tostring(b) end
RNG.__index = {
    uint = function(self) return rng_int(S(self), "uint", 4, false, false) end,
    le_uint = function(self) return rng_int(S(self), "le_uint", 4, true, false) end,
    int = function(self) return rng_int(S(self), "int", 4, false, true) end,
    le_int = function(self) return rng_int(S(self), "le_int", 4, true, true) end,
    uint64 = function(self) return mk64(U64, rng_int(S(self), "uint64", 8, false, false)) end,
    le_uint64 = function(self) return mk64(U64, rng_int(S(self), "le_uint64", 8, true, false)) end,
    int64 = function(self) return mk64(I64, rng_int(S(self), "int64", 8, false, true)) end,
    le_int64 = function(self) return mk64(I64, rng_int(S(self), "le_int64", 8, true, true)) end,
    float = function(self) return rng_float(S(self), "float", false) end,
    le_float = function(self) return rng_float(S(self), "le_float", true) end,
    string = rng_string, ustring = rng_string, le_ustring = rng_string,
    stringz = function(self)
        local b = rng_raw(S(self))
        local z = s_find(b, "\0", 1, true)
        if not z then werr("out of bounds") end
        return ascii_text(s_sub(b, 1, z - 1))
    end,
    strsize = function(self)
        local z = s_find(rng_raw(S(self)), "\0", 1, true)
        if not z then werr("out of bounds") end
        return z
    end,
    bytes = function(self) return mkba(rng_raw(S(self))) end,
    raw = rng_rawm,
    len = function(self) return S(self).ln end,
    offset = function(self) return S(self).off end,
    tvb = function(self) return mktvb(rng_raw(S(self))) end,
    range = rng_range,
    bitfield = function(self, pos, ln)
        local st = S(self)
        pos = opt_int(pos, 0, 1, "bitfield")
        ln = opt_int(ln, 1, 2, "bitfield")
        if pos + ln > st.ln * 8 then werr("Requested bitfield out of range") end
        if ln > 64 then werr(s_format("TvbRange:bitfield() does not handle %d bits", ln)) end
        local b = rng_raw(st)
        local v = 0
        for i = pos, pos + ln - 1 do
            v = (v << 1) | ((s_byte(b, (i >> 3) + 1) >> (7 - (i & 7))) & 1)
        end
        if ln <= 32 then return v end
        return mk64(U64, v)
    end,
}

TVB.__call = function(self, off, ln)
    off = opt_int(off, 0, 1, "Tvb")
    ln = opt_int(ln, -1, 2, "Tvb")
    return push_range(S(self), off, ln)
end
TVB.__tostring = function(self)
    local d = S(self).data
    return s_format("TVB(%d) : %s", #d, hex24(d))
end
TVB.__concat = function(a, b) return tostring(a) .. tostring(b) end
local function tvb_len(self) return #S(self).data end
TVB.__index = {
    range = function(self, off, ln) return push_range(S(self), opt_int(off, 0, 1, "range"), opt_int(ln, -1, 2, "range")) end,
    len = tvb_len, reported_len = tvb_len, captured_len = tvb_len,
    reported_length_remaining = function(self, off)
        local n = #S(self).data
        off = opt_int(off, 0, 1, "reported_length_remaining")
        if off >= 0 and off <= n then return n - off end
        return -1
    end,
    offset = function() return 0 end,
    bytes = function(self, off, ln)
        local r = push_range(S(self), opt_int(off, 0, 1, "bytes"), opt_int(ln, -1, 2, "bytes"))
        return mkba(rng_raw(S(r)))
    end,
    raw = function(self, off, ln)
        local r = push_range(S(self), opt_int(off, 0, 1, "raw"), opt_int(ln, -1, 2, "raw"))
        return rng_rawm(r)
    end,
}

-- -------------------------------------------------------------------------------------------------------
-- ProtoField {kind, abbrev, name, extra}

local PF = { __name = "ProtoField" }
PF.__tostring = function(self)
    local st = S(self)
    return s_format("ProtoField(%s): %s %s", st.kind, st.abbrev, st.name)
end
PF.__concat = function(a, b) return tostring(a) .. tostring(b) end
PF.__index = function() return nil end          -- lua_wireshark.py: LuaUserdata.lua_index -> METHODS.get(k) -> nil

local REAL_PROTOFIELD = { "uint8", "uint16", "uint24", "uint32", "uint64", "int8", "int16", "int24", "int32", "int64", "framenum", "bool",
                          "absolute_time", "relative_time", "float", "double", "string", "stringz", "bytes", "ubytes", "none", "ipv4",
                          "ipv6", "ether", "guid", "oid", "protocol", "rel_oid", "systemid", "eui64", "char" }
local function rangeset(a, b) local t = {} for i = a, b do t[i] = true end return t end
local R14, R18 = rangeset(1, 4), rangeset(1, 8)
local KIND_LEN = { uint8 = R14, uint16 = R14, uint24 = R14, uint32 = R14, char = R14, int8 = R14, int16 = R14, int24 = R14, int32 = R14,
                   int = R14, framenum = R14, uint64 = R18, int64 = R18, bool = R18, float = { [4] = true }, double = { [8] = true },
                   ipv4 = { [4] = true }, ipv6 = { [16] = true }, ether = { [6] = true }, guid = { [16] = true }, eui64 = { [8] = true } }
local INT_KINDS = { uint8 = true, uint16 = true, uint24 = true, uint32 = true, char = true, int8 = true, int16 = true, int24 = true,
                    int32 = true, int = true, framenum = true }

local function field_ctor(kind)
    return function(abbrev, name, ...)
        if type(abbrev) ~= "string" then
            werr(s_format("bad argument #1 to '%s' (string expected, got %s)", kind, arg_type(abbrev)))
        end
        if abbrev == "" then werr(s_format("bad argument #1 to '%s' (Missing abbrev)", kind)) end
        if s_find(abbrev, "[^%w%-_%.]") then werr(s_format("bad argument #1 to '%s' (Invalid char in abbrev)", kind)) end
        if name == nil then
            name = abbrev
        elseif not is_strnum(name) then
            werr(s_format("bad argument #2 to '%s' (string expected, got %s)", kind, type(name)))
        end
        return new(PF, { kind = kind, abbrev = abbrev, name = tostring(name), extra = t_pack(...) })
    end
end

local ProtoField_t = {}
for _, kind in ipairs(REAL_PROTOFIELD) do ProtoField_t[kind] = field_ctor(kind) end
do
    local newctor = field_ctor("new")
    ProtoField_t.new = function(name, abbrev, ftype, ...) return newctor(abbrev, name, ftype, ...) end
    local int_ctor = field_ctor("int")       -- NON-STANDARD (accepted leniently like lua_wireshark.py)
    setmetatable(ProtoField_t, { __index = function(_, k)
        if k == "int" then
            note("ProtoField.int is not a Wireshark function (only int8/int16/int24/int32/int64 exist): " ..
                 "Wireshark reports \"attempt to call a nil value (field 'int')\"")
            if WS.strict then return nil end
            return int_ctor
        end
        return nil
    end })
end

-- -------------------------------------------------------------------------------------------------------
-- Proto {name, desc, fields, dissector, attrs}

local PROTO = { __name = "Proto" }
local proto_methods = { register_heuristic = function() end }
PROTO.__index = function(self, k)
    local st = S(self)
    if k == "fields" then return st.fields end
    if k == "dissector" then return st.dissector end
    if k == "name" then return st.name end
    if k == "description" then return st.desc end
    if k ~= nil and st.attrs[k] ~= nil then return st.attrs[k] end
    local m = proto_methods[k]
    if m == nil and type(k) == "string" then
        werr(s_format("No such '%s' getter attribute/field for object type 'Proto'", k))
    end
    return m
end
PROTO.__newindex = function(self, k, v)
    local st = S(self)
    if k == "dissector" then
        if type(v) ~= "function" then werr("bad argument #3 to 'dissector' (The dissector of a protocol must be a function)") end
        st.dissector = v
    elseif k == "fields" then
        if type(v) ~= "table" then
            if isa(v, PF) then werr("single ProtoField assignment is not modelled") end
            werr("bad argument #3 to 'fields' (either a ProtoField or an array of protofields)")
        end
        for _, f in pairs(v) do
            if not isa(f, PF) then werr(s_format("bad argument #3 to 'fields' (ProtoField expected, got %s)", type(f))) end
        end
        st.fields = v
    elseif k == "init" or k == "prefs_changed" then
        if type(v) ~= "function" then werr(s_format("bad argument #3 to '%s' (function expected)", k)) end
        st.attrs[k] = v
    elseif k == "experts" or k == "prefs" then
        st.attrs[k] = v
    else
        werr(s_format("No such '%s' setter attribute/field for object type 'Proto'", tostring(k)))
    end
end
PROTO.__tostring = function(self) return "Proto: " .. S(self).name end

local function mk_proto(name, desc)
    if type(name) ~= "string" or name == "" then
        werr(s_format("bad argument #1 to 'Proto' (string expected, got %s)", arg_type(name)))
    end
    if type(desc) ~= "string" then
        werr(s_format("bad argument #2 to 'Proto' (string expected, got %s)", arg_type(desc)))
    end
    for _, p in ipairs(WS.protos) do
        local st = S(p)
        if st.name:lower() == name:lower() or st.desc == desc then
            werr("bad argument #1 to 'Proto' (there cannot be two protocols with the same name)")
        end
    end
    local p = new(PROTO, { name = name, desc = desc, fields = {}, dissector = nil, attrs = { prefs = {}, experts = {} } })
    WS.protos[#WS.protos + 1] = p
    return p
end

-- -------------------------------------------------------------------------------------------------------
-- Dissector {name} / DissectorTable {name, entries}

local DIS = { __name = "Dissector" }
DIS.__tostring = function(self) return S(self).name end
DIS.__index = function(self, k)
    if k == "call" then return function() return 0 end end
    return nil
end

local DT = { __name = "DissectorTable" }
DT.__tostring = function(self) return "DissectorTable " .. S(self).name end
local function dt_add(self, pattern, what)
    if isa(what, PROTO) then
        if S(what).dissector == nil then
            werr("bad argument #2 to 'add' (a Protocol that does not have a dissector cannot be added to a table)")
        end
    elseif not isa(what, DIS) then
        werr("bad argument #2 to 'add' (must be either Proto or Dissector)")
    end
    if not is_strnum(pattern) then
        werr(s_format("bad argument #1 to 'add' (number or string expected, got %s)", type(pattern)))
    end
    local st = S(self)
    st.entries[#st.entries + 1] = { pattern, what }
    WS.registered[#WS.registered + 1] = { st.name, pattern, what }
end
DT.__index = {
    add = dt_add, set = dt_add,
    add_for_decode_as = function() end,
    remove = function() end,
    remove_all = function() end,
    try = function() return 0 end,
    get_dissector = function() return nil end,
}

-- -------------------------------------------------------------------------------------------------------
-- TreeItem {index}

local TREE = { __name = "TreeItem" }
local tree_methods
local TREE_ATTRS = { text = true, visible = true, generated = true, hidden = true, len = true }
TREE.__index = function(self, k)
    local m = tree_methods[k]
    if m ~= nil then
        if k == "le_add" then
            note("TreeItem:le_add is not a Wireshark method (the real name is add_le): " ..
                 "Wireshark reports \"No such 'le_add' method/field for object type 'TreeItem'\"")
            if WS.strict then werr("No such 'le_add' method/field for object type 'TreeItem'") end
        end
        return m
    end
    if TREE_ATTRS[k] then return nil end
    if type(k) == "string" then werr(s_format("No such '%s' method/field for object type 'TreeItem'", k)) end
    return nil
end
TREE.__newindex = function(self, k, v)
    if TREE_ATTRS[k] then return end
    werr(s_format("No such '%s' setter attribute/field for object type 'TreeItem'", tostring(k)))
end
TREE.__tostring = function() return "TreeItem" end

local function mktree(index) return new(TREE, { index = index }) end

local function tree_add(self, little, a)       -- a: packed arguments (a.n)
    local i = 1                                 -- next unconsumed argument
    local n = a.n
    local kind, abbr, name, fkind = "text", "", "", nil
    local first = a[1]
    if isa(first, PF) then
        local st = S(first)
        kind, abbr, name, fkind = "field", st.abbrev, st.name, st.kind
        i = 2
    elseif isa(first, PROTO) then
        kind, name = "proto", S(first).name
        i = 2
    elseif first == nil and n > 0 then
        kind = "nil"
        i = 2
    elseif is_strnum(first) then
        name = tostring(first)
        i = 2
    end
    local off, ln = 0, 0
    local rng = nil
    if i <= n and isa(a[i], RNG) then
        rng = S(a[i])
        off, ln = rng.off, rng.ln
        i = i + 1
    elseif i <= n and isa(a[i], TVB) then
        off, ln = 0, #S(a[i]).data
        i = i + 1
    end
    if kind == "field" then
        local allowed = KIND_LEN[fkind]
        local fname = little and "add_le" or "add"
        if i <= n then
            local value = a[i]
            i = i + 1
            if INT_KINDS[fkind] or fkind == "float" or fkind == "double" then
                if not (is_strnum(value) and tonumber(value) ~= nil) then
                    werr(s_format("bad argument #3 to '%s' (number expected, got %s)", fname, type(value)))
                end
            elseif fkind == "uint64" or fkind == "int64" then
                if not (is_strnum(value) and tonumber(value) ~= nil) and not is64(value) then
                    werr(s_format("bad argument #3 to '%s' (UInt64/Int64 expected, got %s)", fname, type(value)))
                end
            elseif fkind == "string" or fkind == "stringz" then
                if not is_strnum(value) then
                    werr(s_format("bad argument #3 to '%s' (string expected, got %s)", fname, type(value)))
                end
            end
        elseif rng ~= nil and allowed ~= nil and not allowed[ln] then
            if fkind == "float" or fkind == "double" then
                werr(s_format("Trying to fetch a %s with length %d", fkind, ln))
            end
            local unsigned = s_sub(fkind, 1, 1) == "u" or fkind == "char" or fkind == "framenum" or fkind == "bool"
            werr(s_format("Trying to fetch %s integer with length %d", unsigned and "an unsigned" or "a signed", ln))
        end
    end
    local parts = {}
    for j = i, n do parts[#parts + 1] = tostring(a[j]) end
    local text = t_concat(parts, " ")
    if kind == "text" and name == "" and text ~= "" then
        name, text = text, ""
    end
    local adds = WS.adds
    adds[#adds + 1] = { kind = kind, abbr = abbr, name = name, off = off, len = ln, le = little, text = text, parent = S(self).index }
    return mktree(#adds - 1)
end

local function tree_self(self) return self end
tree_methods = {
    add = function(self, ...) return tree_add(self, false, t_pack(...)) end,
    add_le = function(self, ...) return tree_add(self, true, t_pack(...)) end,
    le_add = function(self, ...) return tree_add(self, true, t_pack(...)) end,     -- NON-STANDARD, see TREE.__index
    add_packet_field = function(self, ...)
        local a = t_pack(...)
        if a.n > 2 then a.n = 2 end
        return tree_add(self, false, a)
    end,
    set_text = tree_self, append_text = tree_self, prepend_text = tree_self, add_expert_info = tree_self,
    add_proto_expert_info = tree_self, add_tvb_expert_info = tree_self, set_generated = tree_self, set_hidden = tree_self,
    set_len = tree_self,
    referenced = function() return true end,
}

-- -------------------------------------------------------------------------------------------------------
-- Column {name, text} / Columns {cols, order} / Pinfo {cols, attrs}

local COL = { __name = "Column" }
COL.__tostring = function(self) return S(self).text end
COL.__concat = function(a, b) return tostring(a) .. tostring(b) end
local function col_s(v, fname)
    if not is_strnum(v) then werr(s_format("bad argument #1 to '%s' (string expected, got %s)", fname, arg_type(v))) end
    return tostring(v)
end
local function col_prepend(self, v) local st = S(self) st.text = col_s(v, "prepend") .. st.text end
COL.__index = {
    set = function(self, v) S(self).text = col_s(v, "set") end,
    append = function(self, v) local st = S(self) st.text = st.text .. col_s(v, "append") end,
    prepend = col_prepend, preppend = col_prepend,
    clear = function(self) S(self).text = "" end,
    fence = function() end, clear_fence = function() end,
}

local COLS = { __name = "Columns" }
local function cols_get(self, k)
    if type(k) ~= "string" then return nil end
    local st = S(self)
    local c = st.cols[k]
    if c == nil then
        c = new(COL, { name = k, text = "" })
        st.cols[k] = c
        st.order[#st.order + 1] = k
    end
    return c
end
COLS.__index = cols_get
COLS.__newindex = function(self, k, v)
    local c = cols_get(self, k)
    if c == nil then werr("bad argument #2 to '__newindex' (string expected)") end
    if not is_strnum(v) then werr(s_format("bad argument #3 to '__newindex' (string expected, got %s)", type(v))) end
    S(c).text = tostring(v)
end
COLS.__tostring = function() return "Columns" end

local PINFO = { __name = "Pinfo" }
PINFO.__index = function(self, k)
    local st = S(self)
    if k == "cols" or k == "columns" then return st.cols end
    if k == nil then return nil end
    return st.attrs[k]
end
PINFO.__newindex = function(self, k, v)
    if k == "cols" or k == "columns" then werr("No such 'cols' setter attribute/field for object type 'Pinfo'") end
    S(self).attrs[k] = v
end
PINFO.__tostring = function() return "Pinfo" end

local function mkpinfo(nbytes)
    local cols = new(COLS, { cols = {}, order = {} })
    return new(PINFO, { cols = cols, attrs = { number = 1, len = nbytes, caplen = nbytes, visited = false, src_port = 12345,
        dst_port = 8080, desegment_len = 0, desegment_offset = 0, can_desegment = 0, port_type = 2, match_uint = 8080,
        private = {}, in_error_pkt = false } })
end

-- -------------------------------------------------------------------------------------------------------
-- globals

Proto = setmetatable({ new = mk_proto }, { __call = function(_, ...) return mk_proto(...) end })
ProtoField = ProtoField_t

base = {}
for i, nm in ipairs({ "NONE", "DEC", "HEX", "OCT", "DEC_HEX", "HEX_DEC", "CUSTOM" }) do base[nm] = i - 1 end
for nm, v in pairs({ UNIT_STRING = 0x1000, RANGE_STRING = 0x100, ASCII = 0, UNICODE = 7, DOT = 8, DASH = 9, COLON = 10, SPACE = 11,
                     LOCAL = 1000, UTC = 1001, DOY_UTC = 1002, NETMASK = 12 }) do base[nm] = v end
ftypes = {}
for i, nm in ipairs({ "NONE", "PROTOCOL", "BOOLEAN", "CHAR", "UINT8", "UINT16", "UINT24", "UINT32", "UINT40", "UINT48", "UINT56",
                      "UINT64", "INT8", "INT16", "INT24", "INT32", "INT40", "INT48", "INT56", "INT64", "IEEE_11073_SFLOAT",
                      "IEEE_11073_FLOAT", "FLOAT", "DOUBLE", "ABSOLUTE_TIME", "RELATIVE_TIME", "STRING", "STRINGZ",
                      "UINT_STRING", "ETHER", "BYTES", "UINT_BYTES", "IPv4", "IPv6", "IPXNET", "FRAMENUM", "GUID", "OID" }) do
    ftypes[nm] = i - 1
end
ENC_BIG_ENDIAN, ENC_LITTLE_ENDIAN, ENC_NA, ENC_ASCII, ENC_UTF_8 = 0, 0x80000000, 0, 0, 2
DESEGMENT_ONE_MORE_SEGMENT, DESEGMENT_UNTIL_FIN = 0x0FFFFFFF, 0x0FFFFFFE
PI_MALFORMED, PI_ERROR, PI_WARN, PI_NOTE, PI_CHAT, PI_PROTOCOL, PI_UNDECODED =
    0x07000000, 0x00800000, 0x00600000, 0x00400000, 0x00200000, 0x09000000, 0x05000000

do
    local tables = {}
    local function dt_get(name)
        if type(name) ~= "string" then werr(s_format("bad argument #1 to 'get' (string expected, got %s)", arg_type(name))) end
        if tables[name] == nil then tables[name] = new(DT, { name = name, entries = {} }) end
        return tables[name]
    end
    DissectorTable = { get = dt_get, new = dt_get, list = function() return {} end }
end
Dissector = { get = function(name) return new(DIS, { name = tostring(name) }) end, list = function() return {} end }
UInt64 = ctor64(U64)
Int64 = ctor64(I64)
ByteArray = { new = function(h)
    local digits = s_gsub(h or "", "%X", "")
    return mkba((s_gsub(digits, "%x%x", function(p) return s_char(tonumber(p, 16)) end)))
end }
for _, fn in ipairs({ "register_postdissector", "register_menu", "set_plugin_info", "debug", "info", "message", "warn", "critical",
                      "report_failure" }) do
    _G[fn] = function() end
end
-- NOTE: the line above replaces the global `debug` (the Lua debug library) by a logging function, exactly as
-- Wireshark does; this file captured the debug functions it needs in locals before.
get_version = function() return "4.0.0" end

-- BitOp `bit` (shipped with Wireshark) and bit32 when liblua was built without LUA_COMPAT_5_2
local function mkbits(signed)
    local function norm(v)
        if math_type(v) == "float" then v = math_floor(v) end
        local i = math_tointeger(tonumber(v))
        if i == nil then werr("number has no integer representation") end
        return i & 0xFFFFFFFF
    end
    local function out(v)
        v = v & 0xFFFFFFFF
        if signed and v >= 0x80000000 then return v - 0x100000000 end
        return v
    end
    local function fold(f, init)
        return function(...)
            local acc = init
            for i = 1, select("#", ...) do acc = f(acc, norm((select(i, ...)))) end
            return out(acc)
        end
    end
    local function shift(a, n)
        a, n = norm(a), math_tointeger(n)
        if signed then n = n & 31 end
        if n <= -32 or n >= 32 then return 0 end
        if n >= 0 then return out(a << n) end
        return out(a >> -n)
    end
    return {
        band = fold(function(x, y) return x & y end, 0xFFFFFFFF),
        bor = fold(function(x, y) return x | y end, 0),
        bxor = fold(function(x, y) return x ~ y end, 0),
        bnot = function(a) return out(~norm(a)) end,
        lshift = shift,
        rshift = function(a, n)
            if signed then return out(norm(a) >> (math_tointeger(n) & 31)) end
            return shift(a, -math_tointeger(n))
        end,
        arshift = function(a, n)
            a, n = norm(a), math_tointeger(n)
            if signed then n = n & 31 end
            local s = a >= 0x80000000 and a - 0x100000000 or a
            if n >= 0 then return out(s // (1 << (n > 31 and 31 or n))) end
            return out(a << -n)
        end,
        tobit = function(a) return out(norm(a)) end,
        tohex = function(a, n)
            n = n == nil and 8 or math_tointeger(n)
            if n < 0 then n = -n end
            local h = s_format("%08x", norm(a))
            if n == 0 then return h end
            return s_sub(h, -n)
        end,
    }
end
bit = mkbits(true)
if bit32 == nil then bit32 = mkbits(false) end

-- print / emit are captured
print = function(...)
    local parts = {}
    for i = 1, select("#", ...) do parts[i] = tostring((select(i, ...))) end
    WS.output[#WS.output + 1] = t_concat(parts, "\t")
end

-- -------------------------------------------------------------------------------------------------------
-- serialisation of values for the host

local function ser(v)
    local t = type(v)
    if v == nil then return "nil" end
    if t == "boolean" then return v and "true" or "false" end
    if t == "number" then
        if math_type(v) == "integer" then return s_format("i:%d", v) end
        if v ~= v then return "f:nan" end
        return "f:" .. s_format("%.17g", v)
    end
    if t == "string" then return "s:" .. hex(v) end
    if t == "userdata" then
        local mt = d_getmt(v)
        return "u:" .. ((mt and rawget(mt, "__name")) or "?") .. ":" .. hex(tostring(v))
    end
    return t
end

emit = function(...)
    local parts = {}
    for i = 1, select("#", ...) do parts[i] = ser((select(i, ...))) end
    WS.emitted[#WS.emitted + 1] = t_concat(parts, " ")
end

-- -------------------------------------------------------------------------------------------------------
-- instruction limit: a count hook that raises; pcall/xpcall are wrapped so that a script cannot swallow it

local function hook()
    WS.limit_hit = true
    d_sethook(hook, "", 1000)           -- keep firing until the error has propagated to the host
    error(s_format("instruction limit exceeded (%d)", WS.limit), 2)
end

pcall = function(f, ...)
    local r = t_pack(real_pcall(f, ...))
    if not r[1] and WS.limit_hit then error(r[2], 0) end
    return t_unpack(r, 1, r.n)
end
xpcall = function(f, h, ...)
    local r = t_pack(real_xpcall(f, h, ...))
    if not r[1] and WS.limit_hit then error(r[2], 0) end
    return t_unpack(r, 1, r.n)
end

local function guarded(f, ...)
    WS.limit_hit = false
    if WS.limit > 0 then d_sethook(hook, "", WS.limit) end
    local r = t_pack(real_pcall(f, ...))
    d_sethook()
    return r
end

local function errtext(e)
    if type(e) == "string" then return e end
    local ok, s = real_pcall(tostring, e)
    return ok and tostring(s) or "(error object is not a string)"
end

-- -------------------------------------------------------------------------------------------------------
-- host entry points

function __ws_config(limit, strict)
    WS.limit = limit or 0
    WS.strict = strict and true or false
end

-- run the loaded script (global __ws_chunk) and do what Session.__init__ of lua_wireshark.py does afterwards
function __ws_load()
    local chunk = __ws_chunk
    __ws_chunk = nil
    WS.emitted = {}
    local r = guarded(chunk)
    if not r[1] then return "ERR\t" .. hex("error loading script: " .. errtext(r[2])) end
    for _, p in ipairs(WS.protos) do
        local st = S(p)
        for _, f in pairs(st.fields) do
            if not isa(f, PF) then
                return "ERR\t" .. hex(s_format("error registering protocol %s: ProtoField expected in fields, got %s", st.name, type(f)))
            end
        end
    end
    local cands = {}
    for _, reg in ipairs(WS.registered) do
        if isa(reg[3], PROTO) then cands[#cands + 1] = reg[3] end
    end
    if #cands == 0 then
        for _, p in ipairs(WS.protos) do
            if S(p).dissector ~= nil then cands[#cands + 1] = p end
        end
    end
    if #cands == 0 then return "ERR\t" .. hex("the script registered no protocol with a dissector") end
    WS.proto = cands[#cands]
    return "OK"
end

function __ws_dissect(data)
    WS.adds = {}
    WS.output = {}
    WS.emitted = {}
    local tvb, pinfo, tree = mktvb(data), mkpinfo(#data), mktree(-1)
    local r = guarded(S(WS.proto).dissector, tvb, pinfo, tree)
    local out = {}
    if r[1] then
        out[1] = "OK\t" .. ser(r[2])
    else
        out[1] = "ERR\t" .. hex(errtext(r[2]))
    end
    for _, a in ipairs(WS.adds) do
        out[#out + 1] = t_concat({ "A", a.kind, hex(a.abbr), hex(a.name), s_format("%d", a.off), s_format("%d", a.len),
                                   a.le and "1" or "0", hex(a.text), s_format("%d", a.parent) }, "\t")
    end
    local cst = S(S(pinfo).cols)
    for _, k in ipairs(cst.order) do
        out[#out + 1] = "C\t" .. hex(k) .. "\t" .. hex(S(cst.cols[k]).text)
    end
    for _, e in ipairs(WS.emitted) do out[#out + 1] = "E\t" .. e end
    return t_concat(out, "\n")
end

function __ws_notes()
    local out = {}
    for i, n in ipairs(WS.notes) do out[i] = hex(n) end
    return t_concat(out, "\n")
end

function __ws_repr(name)
    return ser(_G[name])
end

function __ws_emitted()
    local e = WS.emitted
    WS.emitted = {}
    return t_concat(e, "\n")
end

-- run a plain chunk (global __ws_chunk): "OK"/"ERR" line, then R (returned values), E (emit lines), P (print lines)
function __ws_run()
    local chunk = __ws_chunk
    __ws_chunk = nil
    WS.output, WS.emitted = {}, {}
    local r = guarded(chunk)
    local out = {}
    if r[1] then
        out[1] = "OK"
        for i = 2, r.n do out[#out + 1] = "R\t" .. ser(r[i]) end
    else
        out[1] = "ERR\t" .. ser(r[2]) .. "\t" .. hex(errtext(r[2]))
    end
    for _, e in ipairs(WS.emitted) do out[#out + 1] = "E\t" .. e end
    for _, p in ipairs(WS.output) do out[#out + 1] = "P\t" .. hex(p) end
    return t_concat(out, "\n")
end
